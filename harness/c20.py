"""C20 - volume stays within 0..100 percent end to end.

gen(ctx)    translator: Python ast of the anchored functions -> coq/C20/Gen.v (one deep-embedded
            tree per function; coq/C20/Model.v holds the single interpreter for the three number
            domains Q / Flocq-rounded R / PrimFloat).  Fail closed.
run(ctx)    build + theorems, oracle on the real implementation, correspondence inside Coq.
replay(..)  re-run one replay file against the implementation.
"""
import ast
import asyncio
import fractions
import hashlib
import json
import math
import os
import struct

import common
import vloop

PID = "C20"
TINY = 2.0 ** -40          # proved bound on the binary64 round-trip error (C20_roundtrip_error_bound)

# =========================================================================== translator


class Unsupported(Exception):
    pass


def _src(rel):
    p = os.path.join(common.REPO, rel)
    return ast.parse(open(p).read(), filename=p), p


def _func(tree, name, cls=None):
    body = tree.body
    if cls is not None:
        cs = [n for n in body if isinstance(n, ast.ClassDef) and n.name == cls]
        if len(cs) != 1:
            raise Unsupported("class %s not found exactly once" % cls)
        body = cs[0].body
    fs = [n for n in body if isinstance(n, (ast.FunctionDef, ast.AsyncFunctionDef)) and n.name == name]
    # a property with a setter would give two; we only accept one definition
    if len(fs) != 1:
        raise Unsupported("function %s.%s not found exactly once" % (cls, name))
    return fs[0]


def _intval(node):
    """Numeric literal that is an integer < 2**53 in magnitude (exact in Q, R and binary64)."""
    neg = False
    if isinstance(node, ast.UnaryOp) and isinstance(node.op, ast.USub):
        neg = True
        node = node.operand
    if not isinstance(node, ast.Constant) or isinstance(node.value, bool) or not isinstance(node.value, (int, float)):
        return None
    v = node.value
    if isinstance(v, float):
        if not math.isfinite(v) or v != int(v):
            raise Unsupported("non-integral float literal %r" % v)
    z = int(v)
    if abs(z) >= 2 ** 53:
        raise Unsupported("literal too large %r" % v)
    if neg:
        if z == 0:
            raise Unsupported("negative zero literal")
        z = -z
    return z


def _module_consts(tree, names):
    out = {}
    for n in tree.body:
        tgt = None
        if isinstance(n, ast.Assign) and len(n.targets) == 1 and isinstance(n.targets[0], ast.Name):
            tgt, val = n.targets[0].id, n.value
        elif isinstance(n, ast.AnnAssign) and isinstance(n.target, ast.Name) and n.value is not None:
            tgt, val = n.target.id, n.value
        if tgt in names:
            if tgt in out:
                raise Unsupported("constant %s assigned twice" % tgt)
            z = _intval(val)
            if z is None:
                raise Unsupported("constant %s is not a numeric literal" % tgt)
            out[tgt] = z
    for k in names:
        if k not in out:
            raise Unsupported("constant %s not found" % k)
    return out


def _no_shadow(tree, names):
    """None of the builtins / helpers we give a fixed meaning may be rebound in the module."""
    for n in ast.walk(tree):
        if isinstance(n, (ast.FunctionDef, ast.AsyncFunctionDef, ast.ClassDef)) and n.name in names:
            raise Unsupported("%s is redefined" % n.name)
        if isinstance(n, ast.Name) and isinstance(n.ctx, ast.Store) and n.id in names:
            raise Unsupported("%s is rebound" % n.id)
        if isinstance(n, (ast.Import, ast.ImportFrom)):
            for a in n.names:
                if (a.asname or a.name) in names:
                    raise Unsupported("%s is imported over" % (a.asname or a.name))
        if isinstance(n, ast.arg) and n.arg in names:
            raise Unsupported("%s is a parameter name" % n.arg)


def _key(node):
    """Name or self.attr -> environment key."""
    if isinstance(node, ast.Name):
        return node.id
    if isinstance(node, ast.Attribute) and isinstance(node.value, ast.Name) and node.value.id == "self":
        return "self." + node.attr
    return None


class Tx:
    """Translates expressions / conditions / statement lists into the deep embedding of Model.v.

    The output is NORMALISED so that rewrites which do not change what is computed give the same
    tree: local temporaries are inlined, `not`, `or`, `and`, `>`, `>=`, `!=`, chained comparisons
    and if/else are all expressed as a chain of  SIf <atomic test> <then> <else>  with atomic tests
    CLt / CLe / CEq / CIsClose0.  Evaluation order is preserved (operands that could raise - a
    division - make the translator refuse where an operand swap would be needed)."""

    def __init__(self, env, consts, callees=None):
        self.env = {k: "(EVar %d)" % i for i, k in enumerate(env)}   # key -> Coq expr
        self.consts = consts
        self.callees = callees or {}  # python name -> (coq constant, arity)

    def expr(self, n):
        z = _intval(n)
        if z is not None:
            return "(EConst (%d))" % z
        k = _key(n)
        if k is not None:
            if k in self.env:
                return self.env[k]
            if k in self.consts:
                return "(EConst (%d))" % self.consts[k]
            raise Unsupported("unknown name %s" % k)
        if isinstance(n, ast.BinOp):
            ops = {ast.Add: "EAdd", ast.Sub: "ESub", ast.Mult: "EMul", ast.Div: "EDiv"}
            if type(n.op) not in ops:
                raise Unsupported("operator " + type(n.op).__name__)
            return "(%s %s %s)" % (ops[type(n.op)], self.expr(n.left), self.expr(n.right))
        if isinstance(n, ast.Call) and isinstance(n.func, ast.Name) and n.func.id in ("min", "max"):
            if len(n.args) != 2 or n.keywords or any(isinstance(a, ast.Starred) for a in n.args):
                raise Unsupported("min/max with other than two plain arguments")
            return "(%s %s %s)" % ("EMin" if n.func.id == "min" else "EMax", self.expr(n.args[0]), self.expr(n.args[1]))
        raise Unsupported("expression " + ast.dump(n)[:80])

    def cond(self, n):
        """-> nested tuples: (lt|le|eq|gt|ge|ne, a, b) | (isclose0, a) | (or|and, c, d) | (not, c)"""
        if isinstance(n, ast.Compare):
            ops = {ast.Lt: "lt", ast.LtE: "le", ast.Gt: "gt", ast.GtE: "ge", ast.Eq: "eq", ast.NotEq: "ne"}
            parts = []
            left = n.left
            for i, (op, right) in enumerate(zip(n.ops, n.comparators)):
                if type(op) not in ops:
                    raise Unsupported("comparison " + type(op).__name__)
                if i > 0 and "EDiv" in self.expr(left):
                    raise Unsupported("chained comparison re-using an operand that may raise")
                parts.append((ops[type(op)], self.expr(left), self.expr(right)))
                left = right
            out = parts[-1]
            for p in reversed(parts[:-1]):
                out = ("and", p, out)
            return out
        if isinstance(n, ast.BoolOp):
            c = "or" if isinstance(n.op, ast.Or) else "and"
            vs = [self.cond(v) for v in n.values]
            out = vs[-1]
            for p in reversed(vs[:-1]):
                out = (c, p, out)
            return out
        if isinstance(n, ast.UnaryOp) and isinstance(n.op, ast.Not):
            return ("not", self.cond(n.operand))
        if (isinstance(n, ast.Call) and isinstance(n.func, ast.Attribute) and n.func.attr == "isclose"
                and isinstance(n.func.value, ast.Name) and n.func.value.id == "math"):
            if len(n.args) != 2 or n.keywords:
                raise Unsupported("math.isclose with tolerances")
            if _intval(n.args[1]) != 0 and not (_key(n.args[1]) in self.consts and self.consts[_key(n.args[1])] == 0):
                raise Unsupported("math.isclose against something other than 0.0")
            return ("isclose0", self.expr(n.args[0]))
        raise Unsupported("condition " + ast.dump(n)[:80])

    def mk_if(self, c, t, k):
        tag = c[0]
        if tag == "not":
            return self.mk_if(c[1], k, t)
        if tag == "or":
            return self.mk_if(c[1], t, self.mk_if(c[2], t, k))
        if tag == "and":
            return self.mk_if(c[1], self.mk_if(c[2], t, k), k)
        if tag in ("gt", "ge"):
            if "EDiv" in c[1] or "EDiv" in c[2]:
                raise Unsupported("operand swap around a division")
            return self.mk_if(("lt" if tag == "gt" else "le", c[2], c[1]), t, k)
        if tag == "ne":
            return self.mk_if(("eq", c[1], c[2]), k, t)
        if tag == "isclose0":
            return "(SIf (CIsClose0 %s) %s %s)" % (c[1], t, k)
        coq = {"lt": "CLt", "le": "CLe", "eq": "CEq"}[tag]
        return "(SIf (%s %s %s) %s %s)" % (coq, c[1], c[2], t, k)

    def exn(self, n):
        if isinstance(n, ast.Call):
            n = n.func
        name = n.id if isinstance(n, ast.Name) else (n.attr if isinstance(n, ast.Attribute) else None)
        if isinstance(n, ast.Attribute) and not (isinstance(n.value, ast.Name) and n.value.id == "exceptions"):
            raise Unsupported("exception from unknown namespace")
        if name not in ("ValueError", "ProtocolError", "ZeroDivisionError"):
            raise Unsupported("exception %s" % name)
        return name

    def body(self, stmts):
        if not stmts:
            raise Unsupported("control can fall off the end")
        s, rest = stmts[0], stmts[1:]
        if isinstance(s, ast.Expr) and isinstance(s.value, ast.Constant) and isinstance(s.value.value, str):
            return self.body(rest)
        if isinstance(s, ast.Pass):
            return self.body(rest)
        if isinstance(s, ast.Return):
            if s.value is None:
                raise Unsupported("bare return")
            v = s.value
            if isinstance(v, ast.Call) and isinstance(v.func, ast.Name) and v.func.id in self.callees:
                coq, arity = self.callees[v.func.id]
                if len(v.args) != arity or v.keywords:
                    raise Unsupported("call of %s with unexpected arguments" % v.func.id)
                return "(SCall %s [%s])" % (coq, "; ".join(self.expr(a) for a in v.args))
            return "(SRet %s)" % self.expr(v)
        if isinstance(s, ast.Raise):
            if s.exc is None or s.cause is not None:
                raise Unsupported("raise form")
            return "(SRaise %s)" % self.exn(s.exc)
        if isinstance(s, ast.If):
            c = self.cond(s.test)
            saved = dict(self.env)
            t = self.body(list(s.body) + rest)      # a branch that falls through continues with the rest
            self.env = dict(saved)
            k = self.body(list(s.orelse) + rest)
            self.env = saved
            return self.mk_if(c, t, k)
        if isinstance(s, (ast.Assign, ast.AnnAssign)):
            if isinstance(s, ast.Assign):
                if len(s.targets) != 1:
                    raise Unsupported("multiple assignment")
                tgt, val = s.targets[0], s.value
            else:
                tgt, val = s.target, s.value
            if not isinstance(tgt, ast.Name) or val is None:
                raise Unsupported("assignment target")
            if tgt.id in self.env or tgt.id in self.consts:
                raise Unsupported("re-assignment of %s" % tgt.id)
            e = self.expr(val)
            if "EDiv" in e:
                raise Unsupported("temporary holding a division (could raise out of order)")
            self.env[tgt.id] = e            # inlined: the sub-language has no side effects
            return self.body(rest)
        raise Unsupported("statement " + type(s).__name__)


def _is_self_call(call, attr):
    return (isinstance(call, ast.Call) and isinstance(call.func, ast.Attribute) and call.func.attr == attr
            and isinstance(call.func.value, ast.Name) and call.func.value.id == "self")


def _relay_call(node, what):
    """self.relay("what")"""
    return (_is_self_call(node, "relay") and len(node.args) == 1 and not node.keywords
            and isinstance(node.args[0], ast.Constant) and node.args[0].value == what)


def _forward_to_return(stmts, match):
    """Replace the statement `await <forwarding call>(arg)` by `return arg` (the forwarded level
    becomes the function's value).  match(call) -> arg node or None."""
    out = []
    n = 0
    for s in stmts:
        if isinstance(s, ast.Expr) and isinstance(s.value, ast.Await):
            a = match(s.value.value)
            if a is not None:
                out.append(ast.Return(value=a))
                n += 1
                continue
        if isinstance(s, ast.If):
            b, nb = _forward_to_return(s.body, match)
            o, no = _forward_to_return(s.orelse, match)
            s = ast.If(test=s.test, body=b, orelse=o)
            n += nb + no
        out.append(s)
    return out, n


def translate():
    """Returns the text of Gen.v and a dict of digests; raises Unsupported."""
    sup, _ = _src("pyatv/support/__init__.py")
    utl, _ = _src("pyatv/protocols/airplay/utils.py")
    fac, _ = _src("pyatv/core/facade.py")
    rao, _ = _src("pyatv/protocols/raop/__init__.py")
    mrp, _ = _src("pyatv/protocols/mrp/__init__.py")
    for t in (sup, utl, rao, mrp):
        _no_shadow(t, {"min", "max"})
    # utils must get map_range from pyatv.support and math from the standard library
    imp_ok = any(isinstance(n, ast.ImportFrom) and n.module == "pyatv.support" and n.level == 0
                 and any(a.name == "map_range" and a.asname is None for a in n.names) for n in utl.body)
    math_ok = any(isinstance(n, ast.Import) and any(a.name == "math" and a.asname is None for a in n.names) for n in utl.body)
    if not imp_ok or not math_ok:
        raise Unsupported("utils.py does not import map_range from pyatv.support / math")
    for n in ast.walk(utl):
        if isinstance(n, (ast.FunctionDef, ast.AsyncFunctionDef)) and n.name in ("map_range",):
            raise Unsupported("map_range redefined in utils.py")

    consts = _module_consts(utl, ["DBFS_MIN", "DBFS_MAX", "PERCENTAGE_MIN", "PERCENTAGE_MAX"])
    rconsts = _module_consts(rao, ["INITIAL_VOLUME"])
    defs = []

    f = _func(sup, "map_range")
    params = [a.arg for a in f.args.args]
    if len(params) != 5 or f.args.vararg or f.args.kwarg or f.args.kwonlyargs or f.args.defaults:
        raise Unsupported("map_range signature")
    defs.append(("g_map_range", "stmt", Tx(params, {}).body(f.body)))

    for name in ("pct_to_dbfs", "dbfs_to_pct"):
        f = _func(utl, name)
        params = [a.arg for a in f.args.args]
        if len(params) != 1 or f.args.defaults:
            raise Unsupported(name + " signature")
        defs.append(("g_" + name, "stmt", Tx(params, consts, {"map_range": ("g_map_range", 5)}).body(f.body)))

    # facade guards
    f = _func(fac, "volume", "FacadeAudio")
    body = [s for s in f.body if not (isinstance(s, ast.Expr) and isinstance(s.value, ast.Constant))]
    if not (body and isinstance(body[0], ast.Assign) and len(body[0].targets) == 1
            and isinstance(body[0].targets[0], ast.Name) and _relay_call(body[0].value, "volume")):
        raise Unsupported("FacadeAudio.volume does not start with x = self.relay('volume')")
    defs.append(("g_facade_read", "stmt", Tx([body[0].targets[0].id], {}).body(body[1:])))

    f = _func(fac, "set_volume", "FacadeAudio")
    params = [a.arg for a in f.args.args]
    if params[:1] != ["self"] or len(params) != 2:
        raise Unsupported("FacadeAudio.set_volume signature")

    def m_relay(call):
        if isinstance(call, ast.Call) and _relay_call(call.func, "set_volume") and len(call.args) == 1 and not call.keywords:
            return call.args[0]
        return None
    b, n = _forward_to_return(f.body, m_relay)
    if n != 1:
        raise Unsupported("FacadeAudio.set_volume forwards %d times" % n)
    defs.append(("g_facade_write", "stmt", Tx([params[1]], {}).body(b)))

    def m_setvol(call):
        if _is_self_call(call, "set_volume") and len(call.args) == 1 and not call.keywords:
            return call.args[0]
        return None

    # RAOP steps: the whole body is `await self.set_volume(<expr of self.volume>)`
    for name in ("volume_up", "volume_down"):
        f = _func(rao, name, "RaopAudio")
        b, n = _forward_to_return(f.body, m_setvol)
        if n != 1:
            raise Unsupported("RaopAudio.%s forwards %d times" % (name, n))
        defs.append(("g_raop_" + name, "stmt", Tx(["self.volume"], {}).body(b)))

    # MRP steps: only the level expression handed to self.set_volume is translated; the
    # surrounding control flow (absolute / relative capability, early return) is hand-modelled
    # in Model.v and tied by the differential run.
    f = _func(mrp, "volume", "MrpAudio")
    rets = [s for s in f.body if isinstance(s, ast.Return)]
    if not (len(rets) == 1 and _key(rets[0].value) == "self._volume"):
        raise Unsupported("MrpAudio.volume is not `return self._volume`")
    for name in ("volume_up", "volume_down"):
        f = _func(mrp, name, "MrpAudio")
        found = []
        for nd in ast.walk(f):
            if isinstance(nd, ast.Await):
                a = m_setvol(nd.value)
                if a is not None:
                    found.append(a)
        if len(found) != 1:
            raise Unsupported("MrpAudio.%s calls self.set_volume %d times" % (name, len(found)))
        # self.volume and self._volume are the same value
        e = found[0]
        tx = Tx(["self.volume"], {})
        for nd in ast.walk(e):
            if isinstance(nd, ast.Attribute) and _key(nd) == "self._volume":
                nd.attr = "volume"
        defs.append(("g_mrp_" + name, "stmt", "(SRet %s)" % tx.expr(e)))

    lines = ["(* GENERATED on every run by harness/c20.py gen() from the Python ast of the working tree",
             "   under test - do not edit, not committed. *)",
             "From Coq Require Import ZArith List.",
             "From PV Require Import C20.Model.",
             "Import ListNotations.",
             "Open Scope Z_scope.", ""]
    for k in ("DBFS_MIN", "DBFS_MAX", "PERCENTAGE_MIN", "PERCENTAGE_MAX"):
        lines.append("Definition g_%s : Z := (%d)." % (k, consts[k]))
    lines.append("Definition g_INITIAL_VOLUME : Z := (%d)." % rconsts["INITIAL_VOLUME"])
    lines.append("")
    for name, ty, body in defs:
        lines.append("Definition %s : %s :=\n  %s.\n" % (name, ty, body))
    text = "\n".join(lines)
    return text, {"Gen.v": hashlib.sha256(text.encode()).hexdigest()[:16]}


def gen(ctx):
    """Re-emit coq/C20/Gen.v from the tree under test.  Returns True if written."""
    path = os.path.join(common.COQ, PID, "Gen.v")
    try:
        text, dig = translate()
    except (Unsupported, SyntaxError, OSError) as ex:
        # fail closed: leave a Gen.v that cannot satisfy the obligations
        with common.Lock("c20gen"):
            with open(path, "w") as f:
                f.write("(* translator refused: %s *)\nFrom PV Require Import C20.Model.\n"
                        "Definition translator_refused : unit := tt.\n" % str(ex).replace("*)", "* )"))
        ctx.tie_broken("translator", "harness/c20.py gen(): %s: %s" % (type(ex).__name__, ex))
        return False
    old = open(path).read() if os.path.exists(path) else None
    if old != text:
        with common.Lock("c20gen"):
            with open(path, "w") as f:
                f.write(text)
    ctx.extra["generated_digests"] = dig
    return True


# =========================================================================== float helpers

NAN = float("nan")
INF = float("inf")


def fhex(x):
    """Canonical bit-exact text of a float (all NaNs identified)."""
    if x != x:
        return "nan"
    return float(x).hex()


def unhex(s):
    return NAN if s == "nan" else float.fromhex(s)


def same(a, b):
    return fhex(a) == fhex(b)


def cfloat(x):
    if x != x:
        return "nan"
    if x == INF:
        return "infinity"
    if x == -INF:
        return "neg_infinity"
    return "(%s)%%float" % float(x).hex()


def cq(fr):
    return "(%d # %d)%%Q" % (fr.numerator, fr.denominator)


def cfval(x):
    if x != x:
        return "NaN"
    if x == INF:
        return "PInf"
    if x == -INF:
        return "NInf"
    return "(Fin %s)" % cq(fractions.Fraction(x))


def in_range(x):
    """The property's range, judged independently of the implementation."""
    return isinstance(x, (int, float)) and x == x and 0.0 <= x <= 100.0


def dbfs_ok(d):
    return d == d and (-30.0 <= d <= 0.0 or d == -144.0)


def ulps(x, k):
    for _ in range(abs(k)):
        x = math.nextafter(x, INF if k > 0 else -INF)
    return x


EXN = {"ValueError": "ValueError", "ProtocolError": "ProtocolError", "ZeroDivisionError": "ZeroDivisionError"}


def exn_name(ex):
    from pyatv import exceptions
    if type(ex) is exceptions.ProtocolError:
        return "ProtocolError"
    if type(ex) is ValueError:
        return "ValueError"
    if type(ex) is ZeroDivisionError:
        return "ZeroDivisionError"
    return "Other:" + type(ex).__name__


def cexn(name):
    return EXN.get(name, "OtherError")


# =========================================================================== implementation drivers

def call_fun(name, args):
    """Real function on real floats (or Fractions). -> ("ok", value) | ("raise", exn name)"""
    from pyatv.protocols.airplay import utils
    from pyatv import support
    f = {"map_range": support.map_range, "pct_to_dbfs": utils.pct_to_dbfs, "dbfs_to_pct": utils.dbfs_to_pct}[name]
    try:
        return ("ok", f(*args))
    except Exception as ex:  # noqa
        return ("raise", exn_name(ex))


class _Listener:
    def __init__(self, sink):
        self.sink = sink

    def volume_update(self, old, new):
        self.sink(("push", fhex(old), fhex(new)))

    def outputdevices_update(self, old, new):
        pass


def _stub_class():
    from pyatv import interface

    class StubAudio(interface.Audio):
        """A protocol that reports whatever it is told and records what it is given."""

        def __init__(self):
            self.reported = 0.0
            self.received = []

        @property
        def volume(self):
            return self.reported

        async def set_volume(self, level):
            self.received.append(level)

    return StubAudio


async def drive_stub(value):
    """facade over a stub protocol: read with the protocol reporting `value`, then set `value`.
    -> dict(read=("ok",hex)|("raise",name), write=("ok",[hex...])|("raise",name,[hex...]))"""
    from pyatv.const import Protocol
    from pyatv.core.facade import FacadeAudio
    from pyatv.core.protocol import MessageDispatcher

    fa = FacadeAudio(MessageDispatcher())
    stub = _stub_class()()
    fa.register(stub, Protocol.MRP)
    stub.reported = value
    try:
        rd = ("ok", fhex(fa.volume))
    except Exception as ex:  # noqa
        rd = ("raise", exn_name(ex))
    try:
        await fa.set_volume(value)
        wr = ("ok", [fhex(x) for x in stub.received])
    except Exception as ex:  # noqa
        wr = ("raise", exn_name(ex), [fhex(x) for x in stub.received])
    return {"read": rd, "write": wr}


async def drive_raop(ops, streaming, front=None):
    """Real FacadeAudio + real RaopAudio (+ real RaopStream.stream_file) on a fake playback manager.
    front = "companion" | "mrp": a second REAL protocol (CompanionAudio / MrpAudio on a fake device) is
    registered on the same facade and the same core state dispatcher; the facade relays audio calls
    to it (priority), its level announcements are intercepted by RaopAudio.  In that mode ops are
        ["set",hex,answer] | ["up",answer] | ["down",answer] | ["read"]        (facade -> front protocol;
                           answer = fraction the device then reports, "echo" = the one it was sent)
        ["dreport",hex] device reports that raw level | ["novol"] | ["missing"] | ["stream",hex|None]
    listeners are run after every op, and the function returns (model_ops, events).
    ops: list of ["set",hex] | ["up"] | ["down"] | ["read"] | ["report",hex] | ["pump"] | ["inject",hex]
                | ["stream", hex|None]   a stream starts and ends; the receiver advertises that initialVolume
    streaming: a stream client is present during the whole history (a stream is in progress)
    -> list (per op) of event lists; events are tuples of strings."""
    from pyatv.const import Protocol
    from pyatv.core import ProtocolStateDispatcher, StateMessage, UpdatedState
    from pyatv.core.facade import FacadeAudio
    from pyatv.core.protocol import MessageDispatcher
    from pyatv.protocols import raop as raop_mod
    from pyatv.protocols.raop import RaopAudio, RaopStream

    cur = []
    pumped = []
    phase = {"p": "op"}

    def rec(e):
        (pumped if (front and phase["p"] == "pump") else cur).append(e)

    class Context:
        credentials = None
        password = None
        sample_rate = 44100
        channels = 2
        bytes_per_channel = 2

        def __init__(self):
            self._v = None

        @property
        def volume(self):
            return self._v

        @volume.setter
        def volume(self, v):
            if phase.get("sent") is not None:
                # the REAL StreamClient.set_volume recording, in the shared context, the level it has
                # just sent to the receiver: one observable ("dev") as long as both are the same level
                sent, phase["sent"] = phase["sent"], None
                if fhex(sent) != fhex(v):
                    rec(("dev", fhex(v)))
            else:
                rec(({"op": "dev", "pump": "echo", "stream": "adopt"}[phase["p"]], fhex(v)))
            self._v = v

    class FakeRtsp:
        """Receiver side of the RTSP session: records every SET_PARAMETER volume it is sent."""

        async def set_parameter(self, name, value):      # does not suspend: one call is atomic in the model
            if name == "volume":
                lv = float(value)
                rec(("dev", fhex(lv)))
                phase["sent"] = lv

    def make_client(context, info=None):
        """The REAL pyatv StreamClient (set_volume is pyatv's own code, talking to FakeRtsp and to the
        shared context); only connection set-up and the audio transport are replaced: send_audio keeps
        the one line that concerns the level (`if volume: await self.set_volume(pct_to_dbfs(volume))`)."""
        from pyatv.protocols.raop.stream_client import StreamClient
        client = StreamClient(FakeRtsp(), context, object(), None)
        client._info = dict(info or {})

        async def initialize(properties):
            pass

        async def send_audio(source, metadata=None, /, volume=None):
            if volume:
                from pyatv.protocols.airplay.utils import pct_to_dbfs
                await client.set_volume(pct_to_dbfs(volume))

        client.initialize = initialize
        client.send_audio = send_audio
        return client

    FakeStream = make_client

    class PM:
        def __init__(self):
            self.context = Context()
            self.persistent = FakeStream(self.context) if streaming else None
            self.stream_client = self.persistent
            self.next_info = {}

        def acquire(self):
            pass

        async def setup(self, service):
            self.stream_client = FakeStream(self.context, self.next_info)
            return self.stream_client, self.context

        async def teardown(self):
            self.stream_client = self.persistent

    class FakeService:
        properties = {}
        password = None

    class FakeCore:
        service = FakeService()

        def takeover(self, *interfaces):
            return lambda: None

    class FakeSource:
        async def get_metadata(self):
            return raop_mod.EMPTY_METADATA

        async def close(self):
            pass

    async def fake_open_source(*a, **kw):
        return FakeSource()

    loop = asyncio.get_event_loop()

    def on_exc(lp, context):
        ex = context.get("exception")
        rec(("swallowed", exn_name(ex) if ex is not None else "Other:none"))

    loop.set_exception_handler(on_exc)
    cd = MessageDispatcher()

    def mark_start(message):            # first Volume listener: what follows is a listener delivery
        phase["saved"] = phase["p"]
        phase["p"] = "pump"

    def mark_end(message):              # last Volume listener
        phase["p"] = phase.get("saved", "op")

    if front:
        cd.listen_to(UpdatedState.Volume, mark_start)
    fa = FacadeAudio(cd)
    lst = _Listener(rec)
    fa.listener = lst
    pm = PM()
    ra = RaopAudio(pm, ProtocolStateDispatcher(Protocol.RAOP, cd))
    fa.register(ra, Protocol.RAOP)
    if front:
        cd.listen_to(UpdatedState.Volume, mark_end)
    class StreamListener:
        def playing(self, info):
            pass

        def stopped(self):
            pass

    stream_listener = StreamListener()
    stream = RaopStream(FakeCore(), stream_listener, ra, pm)
    real_set = ra.set_volume

    async def spy_set(level):
        rec(("fwd", fhex(level)))
        await real_set(level)

    ra.set_volume = spy_set

    # ---- the front protocol (cross-protocol mode)
    dev = {"vol": 0.0, "missing": False, "answer": None, "hid": 0, "tasks": [], "sent": None}
    handler = {}
    fp = None
    if front == "companion":
        from pyatv.protocols.companion import CompanionAudio, MediaControlFlags
        from pyatv.protocols.companion.api import MediaControlCommand

        def device_event():
            dev["tasks"].append(asyncio.ensure_future(handler["_iMC"]({"_mcF": int(MediaControlFlags.Volume)})))

        def answer():
            if dev["answer"] is not None:
                # the command is acknowledged at once; the device changes its level and notifies a
                # little (20 ms, virtual) later
                new = dev["sent"] if dev["answer"] == "echo" else unhex(dev["answer"])
                dev["reported"] = new
                dev["answer"] = None

                def later():
                    dev["vol"] = new
                    device_event()

                loop.call_later(0.02, later)

        class FakeApi:
            def listen_to(self, name, func):
                handler[name] = func

            async def mediacontrol_command(self, command, args=None):
                if command == MediaControlCommand.SetVolume:
                    dev["sent"] = args["_vol"]
                    answer()
                    return {}
                if command == MediaControlCommand.GetVolume:
                    return {"_c": {}} if dev["missing"] else {"_c": {"_vol": dev["vol"]}}
                return {}

            async def hid_command(self, down, command):
                if down:
                    rec(("key",))
                else:
                    answer()

        class FrontCore:
            state_dispatcher = ProtocolStateDispatcher(Protocol.Companion, cd)

        fp = CompanionAudio(FakeApi(), FrontCore())
        fa.register(fp, Protocol.Companion)
    elif front == "mrp":
        from pyatv.protocols.mrp import MrpAudio, messages, protobuf

        class FakeMrp:
            def __init__(self):
                di = messages.create(protobuf.DEVICE_INFO_MESSAGE)
                di.inner().deviceUID = MY_UID
                self.device_info = di

            def listen_to(self, t, f):
                pass

        fp = MrpAudio(FakeMrp(), ProtocolStateDispatcher(Protocol.MRP, cd))
        fp._volume_controls_available = True
        fp._volume_controls_absolute = True
        fa.register(fp, Protocol.MRP)
    if fp is not None and front == "companion":
        real_front_set = fp.set_volume

        async def spy_front_set(level):
            rec(("fwd", fhex(level)))
            await real_front_set(level)

        fp.set_volume = spy_front_set
    mops, mout, minfos = [], [], []

    async def run_front(op):
        """One op of the cross-protocol mode; appends to mops / mout."""
        del cur[:], pumped[:]
        phase["p"] = "op"
        phase["sent"] = None
        dev["reported"] = None
        k = op[0]
        try:
            if k == "stream":
                phase["p"] = "stream"
                pm.next_info = {} if op[1] is None else {"initialVolume": unhex(op[1])}
                await stream.stream_file("verif.mp3")
            elif front == "mrp":
                if k != "dreport":
                    raise RuntimeError("bad op %r" % (op,))
                m = messages.create(protobuf.VOLUME_DID_CHANGE_MESSAGE)
                m.inner().outputDeviceUID = MY_UID
                m.inner().volume = unhex(op[1])
                await fp._volume_did_change(m)
            elif k == "set":
                dev["answer"] = op[2]
                await asyncio.wait_for(fa.set_volume(unhex(op[1])), 60)
            elif k in ("up", "down"):
                dev["answer"] = op[1]
                await asyncio.wait_for(fa.volume_up() if k == "up" else fa.volume_down(), 60)
            elif k == "read":
                rec(("ret", fhex(fa.volume)))
            elif k in ("dreport", "novol", "missing"):
                dev["missing"] = k == "missing"
                if k == "dreport":
                    dev["vol"] = unhex(op[1])
                try:
                    await handler["_iMC"]({"_mcF": 0 if k == "novol" else int(MediaControlFlags.Volume)})
                except KeyError:
                    pass          # the device-event path: logged by the connection, nobody sees it
                dev["missing"] = False
            else:
                raise RuntimeError("bad op %r" % (op,))
        except Exception as ex:  # noqa
            rec(("exc", exn_name(ex)))
        dev["answer"] = None
        evs = [e for e in cur]
        before_settle = None if front != "companion" else fhex(fp._volume)
        phase["p"] = "op"
        await asyncio.sleep(0.2)          # virtual time: every delayed device notification has arrived
        for _ in range(6):
            await asyncio.sleep(0)
        if front == "mrp":
            if k == "dreport":
                mops.append(["report", fhex(fp._volume)])
                mout.append(evs)
            else:
                mops.append(["stream", op[1]])
                mout.append(evs)
            mops.append(["pump"])
            mout.append(list(pumped))
            return
        mops.append({"dreport": ["report", op[1] if k == "dreport" else None]}.get(k, [k] + ([op[1]] if k in ("set", "stream") else [])))
        mout.append(evs)
        minfos.append({"at_return": before_settle, "settled": fhex(fp._volume),
                       "confirmed": None if dev["reported"] is None else fhex(dev["reported"])}
                      if k in ("set", "up", "down") else None)
        if dev["reported"] is not None:       # the device's answer to the request
            mops.append(["report", fhex(dev["reported"])])
            mout.append([])
            minfos.append(None)
        mops.append(["pump"])
        mout.append(list(pumped))
        minfos.append(None)
    saved = (raop_mod.open_source, raop_mod.extract_credentials)
    raop_mod.open_source = fake_open_source
    raop_mod.extract_credentials = lambda service: None
    out = []
    try:
        if front:
            for op in ops:
                await run_front(op)
            return (mops, mout, minfos) if front == "companion" else (mops, mout)
        for op in ops:
            del cur[:]
            phase["p"] = "op"
            phase["sent"] = None
            try:
                if op[0] == "set":
                    await fa.set_volume(unhex(op[1]))
                elif op[0] == "up":
                    await fa.volume_up()
                elif op[0] == "down":
                    await fa.volume_down()
                elif op[0] == "read":
                    cur.append(("ret", fhex(fa.volume)))
                elif op[0] == "report":
                    cd.dispatch(UpdatedState.Volume, StateMessage(Protocol.Companion, UpdatedState.Volume, unhex(op[1])))
                elif op[0] == "inject":
                    pm.context._v = unhex(op[1])
                elif op[0] == "stream":
                    phase["p"] = "stream"
                    pm.next_info = {} if op[1] is None else {"initialVolume": unhex(op[1])}
                    await stream.stream_file("verif.mp3")
                elif op[0] == "pump":
                    phase["p"] = "pump"
                    for _ in range(3):
                        await asyncio.sleep(0)
                else:
                    raise RuntimeError("bad op %r" % (op,))
            except Exception as ex:  # noqa
                cur.append(("exc", exn_name(ex)))
            out.append(list(cur))
    finally:
        raop_mod.open_source, raop_mod.extract_credentials = saved
    del lst
    return out


MY_UID = "verif-own-device"
OTHER_UID = "verif-other-device"


def _answers(op):
    """Scripted device messages that follow a request: list of [who, f32hex], who in mine|other.
    (a bare hex string is the own device's confirmation - format of the older corpus files)"""
    a = op[-1] if op[0] in ("set", "up", "down") else None
    if a is None:
        return []
    if isinstance(a, str):
        return [["mine", a]]
    return [list(x) for x in a]


async def drive_mrp(vabs, vrel, ops):
    """Real FacadeAudio + real MrpAudio on a fake MrpProtocol whose device (a member of a speaker
    group) answers as scripted.
    ops: ["report", f32hex]            VolumeDidChange for this device, unsolicited
         ["other", f32hex]             VolumeDidChange for ANOTHER output device of the group, unsolicited
         ["set", hex, answers] | ["up", answers] | ["down", answers] | ["read"]
         answers: None | f32hex | [[who, f32hex], ...] delivered in that order, 10 ms (virtual) apart,
                  after the request has been sent
    -> (model_ops, events, infos): model_ops has the reports as the resulting MrpAudio._volume; infos
       (parallel) has, for set/up/down, what audio.volume gave the moment the call returned."""
    from pyatv.const import Protocol
    from pyatv.core import ProtocolStateDispatcher
    from pyatv.core.facade import FacadeAudio
    from pyatv.core.protocol import MessageDispatcher
    from pyatv.protocols.mrp import MrpAudio, messages, protobuf

    cur = []
    loop = asyncio.get_event_loop()
    pending = {"answers": [], "hid": 0, "tasks": [], "sent": False, "mine": 0}

    def vol_msg(dv, uid=MY_UID):
        m = messages.create(protobuf.VOLUME_DID_CHANGE_MESSAGE)
        m.inner().outputDeviceUID = uid
        m.inner().volume = dv
        return m

    def deliver(who, dv):
        if who == "mine":
            pending["mine"] += 1
        pending["tasks"].append(asyncio.ensure_future(
            ma._volume_did_change(vol_msg(dv, MY_UID if who == "mine" else OTHER_UID))))

    class FakeProtocol:
        def __init__(self):
            di = messages.create(protobuf.DEVICE_INFO_MESSAGE)
            di.inner().deviceUID = MY_UID
            self.device_info = di

        def listen_to(self, t, f):
            pass

        def _answer(self):
            pending["sent"] = True
            ans, pending["answers"] = pending["answers"], []
            for i, (who, hx) in enumerate(ans):
                loop.call_later(0.01 * (i + 1), deliver, who, unhex(hx))

        async def send(self, msg):
            if msg.type == protobuf.SEND_HID_EVENT_MESSAGE:
                pending["hid"] += 1
                if pending["hid"] % 2 == 1:
                    cur.append(("key",))
                else:
                    self._answer()
            elif msg.type == protobuf.SET_VOLUME_MESSAGE:
                cur.append(("sent", fhex(msg.inner().volume)))
                self._answer()

        async def send_and_receive(self, msg, **kw):
            return msg

    cd = MessageDispatcher()
    fa = FacadeAudio(cd)
    lst = _Listener(cur.append)
    fa.listener = lst
    ma = MrpAudio(FakeProtocol(), ProtocolStateDispatcher(Protocol.MRP, cd))
    ma._volume_controls_available = True
    ma._volume_controls_absolute = vabs
    ma._volume_controls_relative = vrel
    fa.register(ma, Protocol.MRP)
    real_set = ma.set_volume

    async def spy_set(level):
        cur.append(("fwd", fhex(level)))
        await real_set(level)

    ma.set_volume = spy_set
    mops, out, infos = [], [], []

    async def settle():
        await asyncio.sleep(0.5)           # virtual time: every scripted message has been delivered
        for _ in range(4):
            await asyncio.sleep(0)

    def vis(evs):
        return [e for e in evs if e[0] not in ("push", "sent")]

    for op in ops:
        del cur[:]
        before = fhex(ma._volume)
        info = None
        try:
            if op[0] in ("report", "other"):
                await ma._volume_did_change(vol_msg(unhex(op[1]), MY_UID if op[0] == "report" else OTHER_UID))
                await settle()
                mops.append([op[0], fhex(ma._volume) if op[0] == "report" else op[1]])
                out.append(vis(cur))
                infos.append({"raw": op[1]} if op[0] == "report" else None)
                continue
            pending["answers"] = _answers(op)
            pending["sent"] = False
            pending["mine"] = 0
            if op[0] == "set":
                await asyncio.wait_for(fa.set_volume(unhex(op[1])), 60)
            elif op[0] == "up":
                await asyncio.wait_for(fa.volume_up(), 60)
            elif op[0] == "down":
                await asyncio.wait_for(fa.volume_down(), 60)
            elif op[0] == "read":
                cur.append(("ret", fhex(fa.volume)))
            else:
                raise RuntimeError("bad op %r" % (op,))
        except Exception as ex:  # noqa
            cur.append(("exc", exn_name(ex)))
        if op[0] in ("set", "up", "down"):
            info = {"before": before, "at_return": fhex(ma._volume), "request_sent": pending["sent"],
                    "own_confirmations_seen": pending["mine"], "answers": _answers(op)}
        pending["answers"] = []
        evs_now = vis(cur)
        await settle()
        if info is not None:
            info["settled"] = fhex(ma._volume)
        mops.append([op[0]] + ([op[1]] if op[0] == "set" else []))
        out.append(evs_now)
        infos.append(info)
        if fhex(ma._volume) != before:
            mops.append(["report", fhex(ma._volume)])
            out.append([])
            mine = [a[1] for a in _answers(op) if a[0] == "mine"]
            infos.append({"raw": mine[-1]} if mine else None)
    del lst
    return mops, out, infos


# =========================================================================== the oracle
# Judges the property text on what the implementation did.  Returns a list of (key, what).

def judge_stub(value, res):
    errs = []
    ok = in_range(value)
    rd, wr = res["read"], res["write"]
    if rd[0] == "ok":
        r = unhex(rd[1])
        if not in_range(r):
            errs.append(("C20:read:out-of-range-returned", "audio.volume returned %r" % r))
        elif not same(r, value) and not (r == value):
            errs.append(("C20:read:value-altered", "protocol reported %r, audio.volume returned %r" % (value, r)))
    else:
        if rd[1] != "ProtocolError":
            errs.append(("C20:read:wrong-exception", "audio.volume raised %s for reported %r" % (rd[1], value)))
        elif ok:
            errs.append(("C20:read:in-range-rejected", "audio.volume raised ProtocolError for reported %r" % value))
    got = [unhex(x) for x in wr[-1]]
    for g in got:
        if not in_range(g):
            errs.append(("C20:write:out-of-range-forwarded", "set_volume(%r) handed %r to the protocol" % (value, g)))
    if wr[0] == "ok":
        if ok and not (len(got) == 1 and got[0] == value):
            errs.append(("C20:write:level-altered", "set_volume(%r) handed %r to the protocol" % (value, got)))
        if not ok and not got:
            errs.append(("C20:write:out-of-range-accepted", "set_volume(%r) returned normally" % value))
    else:
        if wr[1] != "ProtocolError":
            errs.append(("C20:write:wrong-exception", "set_volume(%r) raised %s" % (value, wr[1])))
        elif ok:
            errs.append(("C20:write:in-range-rejected", "set_volume(%r) raised ProtocolError" % value))
    return errs


def level_of_dbfs(d):
    """Percent level a device-side dBFS value stands for (AirPlay: -30..0 dB linear, below = muted)."""
    if d != d or d > 0.0:
        return None
    return 0.0 if d < -30.0 else (d + 30.0) * 100.0 / 30.0


def judge_raop(ops, events):
    errs = []
    nan_state = False        # the context holds NaN because some side reported NaN as the level
    ctx_bad = False          # the context holds an injected device-side dBFS above 0
    expected = None          # level RAOP is to hold: last set by the user / stepped to / validly announced
    user_changed = False     # the user changed the level (set / step went through) since the history began
    pending = []             # Volume announcements queued for the listeners, in order (None: RAOP's own)
    for op, evs in zip(ops, events):
        kind = op[0]
        if kind == "report":
            pending.append(unhex(op[1]))
            continue
        if kind == "inject":
            v = unhex(op[1])
            nan_state = v != v
            ctx_bad = v == v and v > 0.0
            expected = level_of_dbfs(v)        # the device-side level is the level now held
            continue
        if kind == "pump":
            ech = [unhex(e[1]) for e in evs if e[0] == "echo"]
            if ech:
                nan_state = ech[-1] != ech[-1]
                ctx_bad = False
            # a level announced by another protocol and within [0,100] is the level RAOP now holds (what it
            # reads back and forwards at the next stream start); one outside the range is not taken over
            for v in pending:
                if v is None:
                    continue
                if in_range(v):
                    expected = v
                elif v != v:
                    expected = None
            del pending[:]
            continue
        fw = [unhex(e[1]) for e in evs if e[0] == "fwd"]
        dv = [unhex(e[1]) for e in evs if e[0] == "dev"]
        ex = [e[1] for e in evs if e[0] == "exc"]
        rt = [unhex(e[1]) for e in evs if e[0] == "ret"]
        ad = [unhex(e[1]) for e in evs if e[0] == "adopt"]
        area = {"set": "write", "read": "read", "up": "step", "down": "step", "stream": "stream"}[kind]
        what = {"up": "volume_up", "down": "volume_down", "stream": "stream start"}.get(kind, kind)
        poisoned = nan_state or ctx_bad
        for e in ex:
            if e != "ProtocolError":
                errs.append(("C20:%s:wrong-exception" % area, "%s raised %s" % (kind, e)))
        for g in fw:
            if not in_range(g):
                if kind == "set":
                    errs.append(("C20:write:out-of-range-forwarded", "set_volume(%s) handed %r to RaopAudio.set_volume" % (op[1], g)))
                elif g != g and nan_state:
                    # same defect whichever internal caller re-sends the stored level (steps, stream start)
                    errs.append(("C20:step:raop:nan-report-forwarded",
                                 "%s after a NaN level report handed NaN to RaopAudio.set_volume and on to the device" % what))
                else:
                    errs.append(("C20:%s:leaves-range" % area, "%s handed %r to RaopAudio.set_volume" % (what, g)))
        for d in dv:
            if not dbfs_ok(d) and not (d != d and nan_state):
                errs.append(("C20:%s:dbfs-out-of-range" % area, "%s sent %r dBFS to the device" % (kind, d)))
        for r in rt:
            if not in_range(r):
                errs.append(("C20:read:out-of-range-returned", "audio.volume returned %r" % r))
        if kind == "set":
            lv = unhex(op[1])
            if in_range(lv):
                if "ProtocolError" in ex:
                    errs.append(("C20:write:in-range-rejected", "set_volume(%r) raised ProtocolError" % lv))
                elif not ex and not (len(fw) == 1 and fw[0] == lv):
                    errs.append(("C20:write:level-altered", "set_volume(%r) handed %r to the protocol" % (lv, fw)))
                expected = lv if not ex else None
            else:
                if not ex and not fw:
                    errs.append(("C20:write:out-of-range-accepted", "set_volume(%r) returned normally" % lv))
        elif kind in ("up", "down"):
            # a step starts from the level the user last set (mechanism: clamped +/-5), and the level
            # handed on is the new current level: later reads and steps are judged against it
            if expected is not None and not ex and len(fw) == 1 and fw[0] == fw[0]:
                target = min(expected + 5.0, 100.0) if kind == "up" else max(expected - 5.0, 0.0)
                if abs(fw[0] - target) > TINY:
                    errs.append(("C20:step:not-from-current-level",
                                 "the level was set to %r; volume_%s handed %r to RaopAudio.set_volume (expected %r)"
                                 % (expected, kind, fw[0], target)))
            expected = fw[0] if (not ex and len(fw) == 1 and in_range(fw[0])) else None
            if "ProtocolError" in ex and not poisoned:
                errs.append(("C20:step:in-range-rejected", "volume_%s raised ProtocolError from a valid state" % kind))
        elif kind == "stream":
            # "the user changed the level prior to streaming" => the level survives the start of the
            # stream: it is neither replaced by the receiver's initial level nor withheld from the receiver
            if "ProtocolError" in ex and not poisoned:
                errs.append(("C20:stream:in-range-rejected", "stream start raised ProtocolError from a valid state"))
            if ad and user_changed:
                errs.append(("C20:stream:user-level-overridden",
                             "the user had set the level%s; stream start replaced it by the receiver's initialVolume %r dBFS"
                             % ("" if expected is None else " to %r" % expected, ad[-1])))
            if expected is not None and not ex and not any(abs(g - expected) <= TINY for g in fw if g == g):
                errs.append(("C20:stream:user-level-not-applied",
                             "the user had set the level to %r; stream start handed %r to RaopAudio.set_volume" % (expected, fw)))
            if ad:
                nan_state = ad[-1] != ad[-1]
                ctx_bad = ad[-1] == ad[-1] and ad[-1] > 0.0
                expected = level_of_dbfs(ad[-1])
        elif kind == "read":
            if "ProtocolError" in ex and not poisoned:
                errs.append(("C20:read:in-range-rejected", "audio.volume raised ProtocolError in a valid state"))
            if rt and poisoned:
                # out-of-range values from the device raise a protocol error - never a clamped value
                errs.append(("C20:read:out-of-range-report-accepted",
                             "the level held came from an out-of-range device report (%s); audio.volume returned %r "
                             "instead of raising ProtocolError" % ("NaN" if nan_state else "above 0 dBFS", rt[0])))
            if rt and expected is not None and not (rt[0] == expected):
                err = abs(rt[0] - expected)
                if err <= TINY:
                    errs.append(("C20:roundtrip:float-inexact",
                                 "set_volume(%r) then audio.volume returned %r (|error| %.3g)" % (expected, rt[0], err)))
                else:
                    errs.append(("C20:roundtrip:deviation",
                                 "set_volume(%r) then audio.volume returned %r (|error| %.3g)" % (expected, rt[0], err)))
        if dv:
            nan_state = dv[-1] != dv[-1]
            ctx_bad = False
        if kind in ("set", "up", "down") and fw and not ex:
            user_changed = True
        if kind in ("set", "up", "down", "stream") and fw and not ex:
            pending.append(fw[-1])     # RaopAudio announces its own level
    return errs


def judge_cross(mops, events, infos=None):
    """facade + CompanionAudio + RaopAudio on one dispatcher (model-op vocabulary of drive_raop front mode)."""
    errs = []
    last_pct = 0.0           # percent level the device last reported (fraction * 100)
    pending = []             # announcements queued: the percent levels that must be announced
    raop_level = None        # level RAOP is to hold from the announcements
    nan_state = False
    cexpected = None         # level the user set and the device confirmed
    prev = None
    infos = infos or [None] * len(mops)
    for op, evs, info in zip(mops, events, infos):
        kind = op[0]
        if info is not None and info["confirmed"] is not None and not any(e[0] == "exc" for e in evs):
            # set a level / step, read it back: the moment the call returns, audio.volume is the level the
            # device confirmed for THIS request - not the one it had before
            at_ret, settled, conf = unhex(info["at_return"]), unhex(info["settled"]), unhex(info["confirmed"]) * 100.0
            name = "set_volume(%s)" % unhex(op[1]) if kind == "set" else "volume_" + kind
            if kind == "set" and in_range(unhex(op[1])) and abs(conf - unhex(op[1])) <= TINY and not (
                    at_ret == at_ret and abs(at_ret - unhex(op[1])) <= TINY):
                errs.append(("C20:roundtrip:deviation",
                             "%s: the device confirmed the level, but when the call returned audio.volume was %r "
                             "(after all messages %r)" % (name, at_ret, settled)))
            elif not same(at_ret, settled):
                errs.append(("C20:roundtrip:stale-after-return",
                             "%s returned with audio.volume %r before the device's confirmation was taken in (then %r)"
                             % (name, at_ret, settled)))
        fw = [unhex(e[1]) for e in evs if e[0] == "fwd"]
        dv = [unhex(e[1]) for e in evs if e[0] == "dev"]
        ex = [e[1] for e in evs if e[0] == "exc"]
        rt = [unhex(e[1]) for e in evs if e[0] == "ret"]
        area = {"set": "write", "read": "read", "up": "step", "down": "step", "stream": "stream"}.get(kind, "cross")
        for e in ex:
            if e != "ProtocolError":
                errs.append(("C20:%s:wrong-exception" % area, "%s raised %s" % (kind, e)))
        if kind == "report":
            f = unhex(op[1])
            last_pct = f * 100.0
            pending.append(last_pct)
            if not (prev is not None and prev[0] == "set" and cexpected is not None and f == cexpected / 100.0):
                cexpected = None
        elif kind == "novol":
            last_pct = 0.0
            pending.append(0.0)
            cexpected = None
        elif kind == "pump":
            told = [unhex(e[2]) for e in evs if e[0] == "push"]
            for t in told:
                if not any(same(t, p) or (t == t and p == p and abs(t - p) <= TINY) for p in pending):
                    errs.append(("C20:cross:announced-level-differs",
                                 "the device reported %r percent; listeners were told %r" % (pending, t)))
            for v in pending:
                if in_range(v):
                    raop_level = v
                elif v != v:
                    raop_level = None
            ech = [unhex(e[1]) for e in evs if e[0] == "echo"]
            if ech:
                nan_state = ech[-1] != ech[-1]
            del pending[:]
        elif kind == "set":
            lv = unhex(op[1])
            for g in fw:
                if not in_range(g):
                    errs.append(("C20:write:out-of-range-forwarded", "set_volume(%r) handed %r to CompanionAudio.set_volume" % (lv, g)))
            if in_range(lv):
                if "ProtocolError" in ex:
                    errs.append(("C20:write:in-range-rejected", "set_volume(%r) raised ProtocolError" % lv))
                elif not ex and not (len(fw) == 1 and fw[0] == lv):
                    errs.append(("C20:write:level-altered", "set_volume(%r) handed %r to the protocol" % (lv, fw)))
                cexpected = lv if not ex else None
            elif not ex and not fw:
                errs.append(("C20:write:out-of-range-accepted", "set_volume(%r) returned normally" % lv))
        elif kind == "read":
            for r in rt:
                if not in_range(r):
                    errs.append(("C20:read:out-of-range-returned", "audio.volume returned %r" % r))
                elif not (r == last_pct):
                    errs.append(("C20:read:value-altered", "device level %r percent, audio.volume returned %r" % (last_pct, r)))
                elif cexpected is not None and r != cexpected:
                    err = abs(r - cexpected)
                    errs.append(("C20:roundtrip:float-inexact" if err <= TINY else "C20:roundtrip:deviation",
                                 "set_volume(%r) then audio.volume returned %r (|error| %.3g)" % (cexpected, r, err)))
            if "ProtocolError" in ex and in_range(last_pct):
                errs.append(("C20:read:in-range-rejected", "audio.volume raised ProtocolError for level %r" % last_pct))
        elif kind == "stream":
            ad = [e for e in evs if e[0] == "adopt"]
            for g in fw:
                if not in_range(g):
                    if g != g and nan_state:
                        errs.append(("C20:step:raop:nan-report-forwarded",
                                     "stream start after a NaN level report handed NaN to RaopAudio.set_volume and on to the device"))
                    else:
                        errs.append(("C20:cross:out-of-range-forwarded", "stream start handed %r to RaopAudio.set_volume" % g))
            for d in dv:
                if not dbfs_ok(d) and not (d != d and nan_state):
                    errs.append(("C20:stream:dbfs-out-of-range", "stream start sent %r dBFS to the receiver" % d))
            if raop_level is not None and not ex:
                if ad or not any(g == g and abs(g - raop_level) <= TINY for g in fw):
                    errs.append(("C20:cross:forwarded-level-differs",
                                 "the device's level %r percent was announced; stream start handed %r to RaopAudio.set_volume%s"
                                 % (raop_level, fw, " (receiver's initial level adopted instead)" if ad else "")))
            if dv:
                nan_state = dv[-1] != dv[-1]
            if fw and not ex:
                pending.append(fw[-1])          # RAOP's own announcement of the level it re-sent
        prev = op
    return errs


MRP_QUANT = 0.051     # MrpAudio keeps one decimal of the float32 level the device confirms


def mrp_level_matches(raw, vol):
    """Is `vol` (percent, as MrpAudio holds it) the level the device reported as fraction `raw`?
    Only the one-decimal quantisation may separate them - never a clamp into the range."""
    truth = raw * 100.0
    if truth != truth:
        return vol != vol
    if truth in (INF, -INF):
        return vol == truth
    return vol == vol and abs(vol - truth) <= MRP_QUANT + 1e-6 * abs(truth)


def clearly_outside(pct):
    """A reported percent level that no quantisation can bring into [0,100]."""
    return pct != pct or pct > 100.0 + MRP_QUANT or pct < -MRP_QUANT


def judge_mrp(mops, events, infos=None, vabs=True):
    errs = []
    vol = 0.0
    truth = 0.0              # percent level the device itself reported (raw fraction * 100), if known
    infos = infos or [None] * len(mops)
    for op, evs, info in zip(mops, events, infos):
        kind = op[0]
        if kind == "report":
            vol = unhex(op[1])
            truth = vol
            if info is not None and "raw" in info:
                raw = unhex(info["raw"])
                truth = raw * 100.0
                if not mrp_level_matches(raw, vol):
                    errs.append(("C20:read:reported-level-altered",
                                 "the device reported level %r (%r percent); MrpAudio holds %r" % (raw, truth, vol)))
            continue
        if kind == "other":
            continue           # another output device: must not show anywhere (read-backs below would tell)
        fw = [unhex(e[1]) for e in evs if e[0] == "fwd"]
        ex = [e[1] for e in evs if e[0] == "exc"]
        rt = [unhex(e[1]) for e in evs if e[0] == "ret"]
        area = {"set": "write", "read": "read", "up": "step", "down": "step"}[kind]
        for e in ex:
            if e != "ProtocolError":
                errs.append(("C20:%s:wrong-exception" % area, "%s raised %s" % (kind, e)))
        for g in fw:
            if not in_range(g):
                if kind == "set":
                    errs.append(("C20:write:out-of-range-forwarded", "set_volume(%s) handed %r to MrpAudio.set_volume" % (op[1], g)))
                elif not in_range(vol):
                    errs.append(("C20:step:mrp:out-of-range-report-forwarded",
                                 "device reported level %r; volume_%s handed %r to MrpAudio.set_volume and on to the device" % (vol, kind, g)))
                else:
                    errs.append(("C20:step:leaves-range", "level %r; volume_%s handed %r to MrpAudio.set_volume" % (vol, kind, g)))
        for r in rt:
            if not in_range(r):
                errs.append(("C20:read:out-of-range-returned", "audio.volume returned %r" % r))
            elif clearly_outside(truth):
                # out-of-range values from the device raise a protocol error - never a clamped value
                errs.append(("C20:read:out-of-range-report-accepted",
                             "the device reported %r percent; audio.volume returned %r instead of raising ProtocolError" % (truth, r)))
            elif not (r == vol):
                errs.append(("C20:read:value-altered", "device level %r, audio.volume returned %r" % (vol, r)))
        if kind == "set":
            lv = unhex(op[1])
            if in_range(lv):
                if "ProtocolError" in ex:
                    errs.append(("C20:write:in-range-rejected", "set_volume(%r) raised ProtocolError" % lv))
                elif not ex and not (len(fw) == 1 and fw[0] == lv):
                    errs.append(("C20:write:level-altered", "set_volume(%r) handed %r to the protocol" % (lv, fw)))
            elif not ex and not fw:
                errs.append(("C20:write:out-of-range-accepted", "set_volume(%r) returned normally" % lv))
        elif kind == "read":
            if "ProtocolError" in ex and in_range(vol) and not clearly_outside(truth):
                errs.append(("C20:read:in-range-rejected", "audio.volume raised ProtocolError for level %r" % vol))
        else:
            if "ProtocolError" in ex:
                errs.append(("C20:step:in-range-rejected", "volume_%s raised ProtocolError" % kind))
        # set a level / step, read it back: the moment the call returns, audio.volume is the level this
        # device confirmed - not an older one, and not the level of another member of the group
        if info is not None and "answers" in info:
            # whatever this device confirmed must be what MrpAudio now holds (no clamping into the range)
            mine_raw = [unhex(x[1]) for x in info["answers"] if x[0] == "mine"]
            if info["request_sent"] and len(mine_raw) == 1 and not mrp_level_matches(mine_raw[0], unhex(info["settled"])):
                errs.append(("C20:read:reported-level-altered",
                             "the device reported level %r (%r percent); MrpAudio holds %r"
                             % (mine_raw[0], mine_raw[0] * 100.0, unhex(info["settled"]))))
        if info is not None and "answers" in info and vabs and not ex and info["request_sent"]:
            mine = [unhex(a[1]) for a in info["answers"] if a[0] == "mine"]
            at_ret, settled, pre = unhex(info["at_return"]), unhex(info["settled"]), unhex(info["before"])
            target = fw[0] if len(fw) == 1 and in_range(fw[0]) else None     # level the protocol was asked for
            obedient = (target is not None and len(mine) == 1 and mine[0] == mine[0]
                        and abs(mine[0] * 100.0 - target) <= 1e-4)
            if obedient and not (at_ret == at_ret and abs(at_ret - target) <= MRP_QUANT):
                errs.append(("C20:roundtrip:deviation",
                             "%s asked the device for %r and the device confirmed it, but when the call returned "
                             "audio.volume was %r (level before the call %r, after all messages %r)"
                             % (kind if kind == "set" else "volume_" + kind, target, at_ret, pre, settled)))
            elif len(mine) == 1 and not same(at_ret, settled) and not (len(fw) == 1 and fw[0] == pre):
                # (a request for the level the device already has is not waited for - MrpAudio.set_volume)
                errs.append(("C20:roundtrip:stale-after-return",
                             "%s returned with audio.volume %r before this device's confirmation was taken in (then %r)"
                             % (kind if kind == "set" else "volume_" + kind, at_ret, settled)))
    return errs


def judge_convert(samples_pct, samples_dbfs):
    """Monotonicity / closure / inversion of the two conversions on sorted finite samples.
    -> list of (key, what, witness) ; witness = dict(pct=[hex..], dbfs=[hex..]) re-judgeable alone."""
    errs = []
    prev = None
    for x in sorted(samples_pct):
        w = {"pct": [fhex(x)], "dbfs": []}
        r = call_fun("pct_to_dbfs", [x])
        if r[0] != "ok":
            errs.append(("C20:convert:in-range-raises", "pct_to_dbfs(%r) raised %s" % (x, r[1]), w))
            continue
        d = r[1]
        if not dbfs_ok(d):
            errs.append(("C20:convert:out-of-range", "pct_to_dbfs(%r) = %r" % (x, d), w))
        if prev is not None and d < prev[1]:
            errs.append(("C20:convert:not-monotonic", "pct_to_dbfs(%r) = %r > pct_to_dbfs(%r) = %r" % (prev[0], prev[1], x, d),
                         {"pct": [fhex(prev[0]), fhex(x)], "dbfs": []}))
        prev = (x, d)
    prev = None
    for d in sorted(samples_dbfs):
        w = {"pct": [], "dbfs": [fhex(d)]}
        r = call_fun("dbfs_to_pct", [d])
        if r[0] != "ok":
            errs.append(("C20:convert:in-range-raises", "dbfs_to_pct(%r) raised %s" % (d, r[1]), w))
            continue
        p = r[1]
        if not in_range(p):
            errs.append(("C20:convert:out-of-range", "dbfs_to_pct(%r) = %r" % (d, p), w))
        if prev is not None and p < prev[1]:
            errs.append(("C20:convert:not-monotonic", "dbfs_to_pct(%r) = %r > dbfs_to_pct(%r) = %r" % (prev[0], prev[1], d, p),
                         {"pct": [], "dbfs": [fhex(prev[0]), fhex(d)]}))
        prev = (d, p)
        if in_range(p) and p != 0.0:
            b = call_fun("pct_to_dbfs", [p])
            if b[0] == "ok" and b[1] != d:
                err = abs(b[1] - d)
                if err <= TINY:
                    errs.append(("C20:roundtrip:float-inexact", "dbfs_to_pct(%r) = %r converts back to %r" % (d, p, b[1]), w))
                else:
                    errs.append(("C20:roundtrip:deviation", "dbfs_to_pct(%r) = %r converts back to %r" % (d, p, b[1]), w))
    return errs


# =========================================================================== case generation

def special_floats():
    xs = [0.0, -0.0, 5e-324, -5e-324, 2.2250738585072014e-308, 1e-320, 1e-300, 1e-17, 1e-9, 0.1, 1.0, 2.5,
          4.999999999999999, 5.0, 5.000000000000001, 33.0, 33.5, 50.0, 94.99999999999999, 95.0, 95.00000000000001,
          99.99999999999999, 100.0, 100.00000000000001, 100.5, 105.0, 150.0, 1e9, 1e308, 1.7976931348623157e308,
          -1e-300, -1e-9, -0.5, -1.0, -5.0, -20.1, -29.999999999999996, -30.0, -30.000000000000004, -45.0, -50.0,
          -144.0, -150.0, -1e308, INF, -INF, NAN]
    return xs


def gen_floats(rng, n):
    """Mostly-valid stream (in and around [0,100] and [-30,0]) plus a hostile stream."""
    out = []
    for _ in range(n):
        r = rng.random()
        if r < 0.40:
            out.append(rng.uniform(0.0, 100.0))
        elif r < 0.55:
            out.append(rng.uniform(-30.0, 0.0))
        elif r < 0.65:
            out.append(round(rng.uniform(0.0, 100.0), rng.choice([0, 1, 2])))
        elif r < 0.78:
            base = rng.choice([0.0, 5.0, 95.0, 100.0, -30.0, -144.0, 33.0, 50.0])
            out.append(ulps(base, rng.randint(-6, 6)))
        elif r < 0.86:
            out.append(rng.choice([1, -1]) * 10.0 ** rng.uniform(-320, 3))
        elif r < 0.93:
            out.append(rng.uniform(-200.0, 300.0))
        else:
            out.append(struct.unpack("<d", struct.pack("<Q", rng.getrandbits(64)))[0])
    return out


def pick_level(rng, hostile):
    r = rng.random()
    if hostile and r < 0.5:
        return rng.choice([NAN, INF, -INF, -0.5, -5.0, -50.0, 100.00000000000001, 105.0, 150.0, 1e308, -1e-320,
                           rng.uniform(-300, 400)])
    if r < 0.3:
        return float(rng.randrange(0, 101))
    if r < 0.5:
        return rng.randrange(0, 1001) / 10.0
    if r < 0.6:
        return rng.choice([0.0, -0.0, 5e-324, 1e-9, 2.5, 4.999999999999999, 5.0, 95.0, 95.00000000000001, 99.99999999999999, 100.0])
    return rng.uniform(0.0, 100.0)


def gen_raop_history(rng, hostile):
    n = rng.randint(1, 12)
    ops = []
    for _ in range(n):
        r = rng.random()
        if r < 0.22:
            ops.append(["set", fhex(pick_level(rng, hostile))])
        elif r < 0.40:
            ops.append(["up"])
        elif r < 0.58:
            ops.append(["down"])
        elif r < 0.78:
            ops.append(["read"])
        elif r < 0.90:
            ops.append(["pump"])
        elif r < 0.95:
            ops.append(["report", fhex(pick_level(rng, hostile))])
        elif r < 0.975:
            if hostile and rng.random() < 0.5:
                ops.append(["stream", fhex(rng.choice([1.0, 5e-324, NAN, INF, -INF, rng.uniform(-200, 50)]))])
            else:
                ops.append(["stream", rng.choice([None, None, fhex(-20.0), fhex(-144.0), fhex(0.0), fhex(-30.0),
                                                  fhex(rng.uniform(-30.0, 0.0))])])
        else:
            if hostile:
                d = rng.choice([1.0, 0.5, 5e-324, NAN, INF, -INF, -1e308, rng.uniform(-200, 50)])
            else:
                d = rng.choice([-144.0, -30.0, 0.0, -0.0, rng.uniform(-30.0, 0.0), rng.uniform(-150.0, -30.0)])
            ops.append(["inject", fhex(d)])
    return ops


def f32(x):
    if x != x or x in (INF, -INF):
        return x
    try:
        return struct.unpack("<f", struct.pack("<f", x))[0]
    except OverflowError:
        return INF if x > 0 else -INF


def pick_devvol(rng, hostile):
    """Device-side volume (fraction 0..1, a protobuf float32)."""
    r = rng.random()
    if hostile and r < 0.5:
        return f32(rng.choice([NAN, INF, -INF, -0.5, -0.05, -0.45, 1.5, 1.05, 1.000001, 3e38, -1e-40, rng.uniform(-3, 4)]))
    if r < 0.4:
        return f32(rng.randrange(0, 101) / 100.0)
    if r < 0.55:
        return f32(rng.choice([0.0, 1.0, 0.05, 0.95, 0.951, 0.049, 0.999, 0.001]))
    return f32(rng.uniform(0.0, 1.0))


def group_answers(rng, own, hostile=False):
    """The own device's confirmation `own` (f32 fraction), with level changes of OTHER members of the
    speaker group arriving before and/or after it."""
    out = []
    for _ in range(rng.choice([0, 0, 1, 1, 2])):
        out.append(["other", fhex(pick_devvol(rng, hostile))])
    out.append(["mine", fhex(own)])
    for _ in range(rng.choice([0, 0, 0, 1])):
        out.append(["other", fhex(pick_devvol(rng, hostile))])
    return out


def gen_mrp_history(rng, hostile):
    n = rng.randint(1, 10)
    ops = []
    for _ in range(n):
        r = rng.random()
        if r < 0.15:
            ops.append(["report", fhex(pick_devvol(rng, hostile))])
        elif r < 0.22:
            ops.append(["other", fhex(pick_devvol(rng, hostile))])
        elif r < 0.42:
            lv = pick_level(rng, hostile)
            ans = pick_devvol(rng, True) if (hostile and rng.random() < 0.5) else f32(lv / 100.0 if lv == lv else lv)
            ops.append(["set", fhex(lv), group_answers(rng, ans, hostile)])
        elif r < 0.61:
            ops.append(["up", group_answers(rng, pick_devvol(rng, hostile), hostile)])
        elif r < 0.8:
            ops.append(["down", group_answers(rng, pick_devvol(rng, hostile), hostile)])
        else:
            ops.append(["read"])
    return ops


def boundary_levels():
    """Levels at and next to the ends of the range (and a few interior ones) - used on EVERY path."""
    return [0.0, -0.0, 5e-324, 1e-9, 0.1, 2.5, 4.999999999999999, 5.0, 33.0, 50.0, 95.0, 95.00000000000001,
            99.9, 99.99999999999999, 100.0]


# =========================================================================== Coq encoding

FN = {"map_range": "FMapRange", "pct_to_dbfs": "FPct", "dbfs_to_pct": "FDbfs", "facade_read": "FFacRead",
      "facade_write": "FFacWrite", "raop_up": "FRaopUp", "raop_down": "FRaopDown", "mrp_up": "FMrpUp", "mrp_down": "FMrpDown"}


def cres(r):
    if r[0] == "ok":
        return "(Ok %s)" % cfloat(r[1])
    return "(Raise %s)" % cexn(r[1])


def cevent(e):
    k = e[0]
    if k == "ret":
        return "(eRet %s)" % cfloat(unhex(e[1]))
    if k == "exc":
        return "(eExc %s)" % cexn(e[1])
    if k == "fwd":
        return "(eFwd %s)" % cfloat(unhex(e[1]))
    if k == "dev":
        return "(eDev %s)" % cfloat(unhex(e[1]))
    if k == "echo":
        return "(eEcho %s)" % cfloat(unhex(e[1]))
    if k == "adopt":
        return "(eAdopt %s)" % cfloat(unhex(e[1]))
    if k == "key":
        return "eKey"
    if k == "push":
        return "(ePush %s %s)" % (cfloat(unhex(e[1])), cfloat(unhex(e[2])))
    if k == "swallowed":
        return "(eSwallowed %s)" % cexn(e[1])
    raise ValueError(e)


def crop(op):
    k = op[0]
    if k == "set":
        return "(rSet %s)" % cfloat(unhex(op[1]))
    if k == "report":
        return "(rReport %s)" % cfloat(unhex(op[1]))
    if k == "inject":
        return "(rInject %s)" % cfloat(unhex(op[1]))
    if k == "stream":
        return "(rStream None)" if op[1] is None else "(rStream (Some %s))" % cfloat(unhex(op[1]))
    return {"up": "rUp", "down": "rDown", "read": "rRead", "pump": "rPump"}[k]


def cmop(op):
    k = op[0]
    if k == "set":
        return "(mSet %s)" % cfloat(unhex(op[1]))
    if k == "report":
        return "(mReport %s)" % cfloat(unhex(op[1]))
    if k == "other":
        return "(mOther %s)" % cfloat(unhex(op[1]))
    return {"up": "mUp", "down": "mDown", "read": "mRead"}[k]


def cxop(op):
    k = op[0]
    if k == "set":
        return "(xSet %s)" % cfloat(unhex(op[1]))
    if k == "report":
        return "(xReport %s)" % cfloat(unhex(op[1]))
    if k == "stream":
        return "(xStream None)" if op[1] is None else "(xStream (Some %s))" % cfloat(unhex(op[1]))
    return {"up": "xUp", "down": "xDown", "read": "xRead", "novol": "xNoVol", "missing": "xMissing", "pump": "xPump"}[k]


def cobs(events):
    return common.clist([common.clist([cevent(e) for e in evs]) for evs in events])


HEADER = ("From Coq Require Import ZArith QArith List PrimFloat.\nImport ListNotations.\n"
          "From PV Require Import Common.Cases C20.Model C20.Gen C20.Check.\n")


def coq_file(cases):
    return (HEADER + "Definition cases : list ccase := [\n%s\n].\n"
            "Eval vm_compute in (bad_indices check_case cases).\n" % ";\n".join(c[0] for c in cases))


# =========================================================================== run one case (shared by run and replay)

PUSH_OOR = 0   # informational: listener.volume_update(old, new) calls with new outside [0,100]


def run_case(case):
    """case: dict(kind=...).  Returns (errs, coq_term or None, canonical, nontrivial, sample)."""
    k = case["kind"]
    if k == "stub":
        v = unhex(case["value"])
        res = vloop.run(drive_stub, v)
        errs = judge_stub(v, res)
        acc_r, acc_w = res["read"][0] == "ok", res["write"][0] == "ok"
        terms = []
        rd = ("ok", unhex(res["read"][1])) if acc_r else ("raise", res["read"][1])
        terms.append("CFun FFacRead [%s] %s" % (cfloat(v), cres(rd)))
        if acc_w:
            got = res["write"][1]
            wr = ("ok", unhex(got[0])) if len(got) == 1 else ("raise", "Other:forwarded-%d-times" % len(got))
        else:
            wr = ("raise", res["write"][1])
        terms.append("CFun FFacWrite [%s] %s" % (cfloat(v), cres(wr)))
        terms.append("CGuard %s %s %s" % (cfval(v), cfloat(v), common.cbool(acc_r)))
        return errs, terms, ("stub", fhex(v)), in_range(v), {"kind": k, "value": repr(v), "impl": res}
    if k == "fun":
        args = [unhex(a) for a in case["args"]]
        r = call_fun(case["fn"], args)
        term = "CFun %s %s %s" % (FN[case["fn"]], common.clist([cfloat(a) for a in args]), cres(r))
        return [], [term], ("fun", case["fn"], tuple(case["args"])), r[0] == "ok", \
            {"kind": k, "fn": case["fn"], "args": [repr(a) for a in args], "impl": [r[0], repr(r[1])]}
    if k == "mapq":
        args = [fractions.Fraction(a) for a in case["args"]]
        r = call_fun("map_range", args)
        if r[0] == "ok":
            if not isinstance(r[1], fractions.Fraction):
                return [], ["CMapQ [] (Raise OtherError)"], ("mapq", tuple(case["args"])), True, None
            rr = "(Ok %s)" % cq(r[1])
        else:
            rr = "(Raise %s)" % cexn(r[1])
        term = "CMapQ %s %s" % (common.clist([cq(a) for a in args]), rr)
        return [], [term], ("mapq", tuple(case["args"])), r[0] == "ok", \
            {"kind": k, "args": case["args"], "impl": [r[0], str(r[1])]}
    if k == "raop":
        ops = case["ops"]
        ev = vloop.run(drive_raop, ops, bool(case.get("streaming", True)))
        errs = judge_raop(ops, ev)
        term = "CRaop %s %s" % (common.clist([crop(o) for o in ops]), cobs(ev))
        nontriv = any(e[0] in ("dev", "ret") for evs in ev for e in evs)
        global PUSH_OOR
        PUSH_OOR += sum(1 for evs in ev for e in evs if e[0] == "push" and not in_range(unhex(e[2])))
        return errs, [term], ("raop", json.dumps(ops), case.get("streaming", True)), nontriv, \
            {"kind": k, "ops": ops, "impl_events": ev}
    if k == "mrp":
        mops, ev, infos = vloop.run(drive_mrp, bool(case["abs"]), bool(case["rel"]), case["ops"])
        errs = judge_mrp(mops, ev, infos, bool(case["abs"]))
        term = "CMrp %s %s %s %s %s" % (common.cbool(case["abs"]), common.cbool(case["rel"]), cfloat(0.0),
                                        common.clist([cmop(o) for o in mops]), cobs(ev))
        nontriv = any(e[0] in ("fwd", "ret", "key") for evs in ev for e in evs)
        return errs, [term], ("mrp", case["abs"], case["rel"], json.dumps(case["ops"])), nontriv, \
            {"kind": k, "abs": case["abs"], "rel": case["rel"], "ops": case["ops"], "model_ops": mops, "impl_events": ev,
             "at_return": [None if (i is None or "before" not in i) else [i["before"], i["at_return"], i["settled"]] for i in infos]}
    if k == "cross":
        front = case["front"]
        res = vloop.run(drive_raop, case["ops"], bool(case.get("streaming", False)), front)
        mops, ev = res[0], res[1]
        if front == "mrp":
            errs = judge_raop(mops, ev)
            term = "CRaop %s %s" % (common.clist([crop(o) for o in mops]), cobs(ev))
        else:
            errs = judge_cross(mops, ev, res[2])
            term = "CCross %s %s" % (common.clist([cxop(o) for o in mops]), cobs(ev))
        nontriv = any(e[0] in ("fwd", "ret", "dev") for evs in ev for e in evs)
        return errs, [term], ("cross", front, case.get("streaming", False), json.dumps(case["ops"])), nontriv, \
            {"kind": k, "front": front, "ops": case["ops"], "model_ops": mops, "impl_events": ev}
    raise ValueError("unknown case kind %r" % k)


# =========================================================================== run

def run(ctx):
    gen_ok = gen(ctx)
    import time as _t
    t0 = _t.time()
    ok = ctx.build_property()
    ctx.note("coq build + Properties.v: %.1fs (includes waiting for the shared build lock)" % (_t.time() - t0))
    if not ok and not ctx.broken:
        ctx.tie_broken("coq-build", ctx.extra.get("build_log_tail", ""))
    if ctx.thorough:
        ctx.coqchk()
    scale = 12 if ctx.thorough else 1
    rng = ctx.rng
    ctx.rule = ("corpus first; then (a) every special value (boundaries, +-0, subnormals, NaN, +-inf, neighbours by ulps), "
                "a 0.1-step grid over [0,100] and [-30,0] and seeded samples (uniform, rounded decimals, ulp-neighbours of the "
                "boundaries, log-uniform magnitudes, raw 64-bit patterns) through the real map_range / pct_to_dbfs / dbfs_to_pct, "
                "the facade guards over a stub protocol and map_range on exact Fractions; (b) every volume_up/volume_down word "
                "up to a fixed length from a grid of start levels on real FacadeAudio+RaopAudio and FacadeAudio+MrpAudio; "
                "(c) seeded operation histories (set/up/down/read/report/pump/inject/stream start; MRP in a speaker group "
                "with level changes of other output devices interleaved with this device's confirmations), a mostly-valid "
                "stream and a hostile stream; (d) set-then-read of the ends of the range and of samples on every path: RAOP idle, "
                "during a stream, across a stream start with and without the receiver's initialVolume, MRP with foreign "
                "confirmations before/after the own one; (e) cross-protocol: real CompanionAudio (and MrpAudio) registered with "
                "RaopAudio on one facade and one core state dispatcher - device reports of raw levels (valid, out of range, NaN, "
                "infinite, missing), set/step through the facade, listener deliveries, RAOP stream starts. "
                "non-trivial = the implementation produced a value / forwarded a level; distinct by canonical input")
    cases = []

    def add(case, src):
        cases.append((case, src))

    for name, c in common.load_corpus(PID):
        add(c, "corpus")
        ctx.count("corpus")

    # (a) values
    vals = list(special_floats())
    vals += [i / 10.0 for i in range(0, 1001)]
    vals += [-i / 10.0 for i in range(0, 301)]
    for b in (0.0, 5.0, 95.0, 100.0, -30.0):
        vals += [ulps(b, k) for k in range(-4, 5)]
    vals += gen_floats(rng, 1500 * scale)
    seen = set()
    uniq = []
    for v in vals:
        h = fhex(v)
        if h not in seen:
            seen.add(h)
            uniq.append(v)
    for v in uniq:
        add({"kind": "fun", "fn": "pct_to_dbfs", "args": [fhex(v)]}, "value")
        add({"kind": "fun", "fn": "dbfs_to_pct", "args": [fhex(v)]}, "value")
        add({"kind": "stub", "value": fhex(v)}, "value")
    # map_range with arbitrary ranges (incl. invalid ones) on floats and on Fractions
    for _ in range(300 * scale):
        a = rng.choice([0.0, -30.0, 1.0, rng.uniform(-50, 50), float(rng.randint(-5, 5))])
        b = rng.choice([100.0, 0.0, a, a + rng.uniform(0, 100), float(rng.randint(-5, 5)), ulps(a, 1)])
        c = rng.choice([-30.0, 0.0, rng.uniform(-50, 50), float(rng.randint(-5, 5))])
        d = rng.choice([0.0, 100.0, c, c + rng.uniform(0, 100), float(rng.randint(-5, 5))])
        v = rng.choice([a, b, rng.uniform(min(a, b) - 1, max(a, b) + 1), (a + b) / 2, NAN, INF])
        add({"kind": "fun", "fn": "map_range", "args": [fhex(x) for x in (v, a, b, c, d)]}, "map_range")
        if all(x == x and abs(x) != INF for x in (v, a, b, c, d)):
            add({"kind": "mapq", "args": [str(fractions.Fraction(x)) for x in (v, a, b, c, d)]}, "map_range")
    for v in uniq[:400]:
        if v == v and abs(v) != INF:
            add({"kind": "mapq", "args": [str(fractions.Fraction(x)) for x in (v, 0.0, 100.0, -30.0, 0.0)]}, "map_range")

    # (b) every up/down word from a grid of start levels
    L = 5 if ctx.thorough else 4
    starts = [None] + [float(x) for x in range(0, 101, 10)] + [2.5, 4.999999999999999, 97.5, 95.00000000000001, 33.0]
    words = []
    for n in range(1, L + 1):
        for w in range(2 ** n):
            words.append([("up" if (w >> i) & 1 else "down") for i in range(n)])
    for st in starts:
        for w in words:
            ops = ([] if st is None else [["set", fhex(st)]])
            for i, o in enumerate(w):
                ops.append([o])
                if (len(w) + i) % 3 == 0:
                    ops.append(["pump"])
                ops.append(["read"])
            add({"kind": "raop", "ops": ops, "streaming": len(w) % 2 == 0}, "steps")
    for st in [0.0, 0.02, 0.05, 0.33, 0.5, 0.951, 0.97, 1.0]:
        for w in words:
            if len(w) > 3:
                continue
            ops = [["report", fhex(f32(st))]]
            cur = st
            for j, o in enumerate(w):
                cur = min(cur + 0.05, 1.0) if o == "up" else max(cur - 0.05, 0.0)
                ans = [["mine", fhex(f32(cur))]]
                if (len(w) + j) % 2 == 0:      # another member of the speaker group reports first
                    ans.insert(0, ["other", fhex(f32(0.77))])
                ops.append([o, ans])
                ops.append(["read"])
            add({"kind": "mrp", "abs": True, "rel": False, "ops": ops}, "steps")
    # (c) histories
    for i in range(350 * scale):
        add({"kind": "raop", "ops": gen_raop_history(rng, hostile=(i % 4 == 3)), "streaming": rng.random() < 0.6}, "history")
    for i in range(250 * scale):
        a, r = rng.choice([(True, False), (True, False), (True, True), (False, True), (False, False)])
        add({"kind": "mrp", "abs": a, "rel": r, "ops": gen_mrp_history(rng, hostile=(i % 4 == 3))}, "history")
    # set-then-read round trips (before and after the echo)
    for v in uniq:
        if in_range(v) and rng.random() < (1.0 if ctx.thorough else 0.35):
            add({"kind": "raop", "ops": [["set", fhex(v)], ["read"], ["pump"], ["read"]], "streaming": rng.random() < 0.5}, "roundtrip")

    # (d) set a level, read it back - the ends of the range (and samples) on EVERY protocol path:
    #     RAOP idle / while a stream is in progress / across the start of a stream (receiver with and
    #     without an initialVolume), MRP in a speaker group (other members' level changes before and after
    #     this device's confirmation), each followed by reads, listener deliveries and steps
    levels = boundary_levels() + [rng.uniform(0.0, 100.0) for _ in range(10 * scale)] \
        + [round(rng.uniform(0.0, 100.0), 1) for _ in range(10 * scale)]
    inits = [None, fhex(-20.0), fhex(-144.0), fhex(0.0)]
    for n, lv in enumerate(levels):
        h = fhex(lv)
        for streaming in (False, True):
            add({"kind": "raop", "ops": [["set", h], ["read"], ["pump"], ["read"], ["up"], ["read"], ["down"], ["read"]],
                 "streaming": streaming}, "paths")
            for init in inits:
                add({"kind": "raop", "ops": [["set", h], ["stream", init], ["read"], ["pump"], ["read"]],
                     "streaming": streaming}, "paths")
            add({"kind": "raop", "ops": [["set", h], ["pump"], ["read"], ["stream", inits[1 + n % 3]], ["read"],
                                         ["stream", None], ["read"], ["pump"], ["read"]], "streaming": streaming}, "paths")
        own = fhex(f32(lv / 100.0))
        for pre in (0.0, 0.5, 1.0):
            for a, r in ((True, False), (True, True)):
                add({"kind": "mrp", "abs": a, "rel": r, "ops": [
                    ["report", fhex(f32(pre))],
                    ["set", h, [["other", fhex(f32(0.77))], ["mine", own], ["other", fhex(f32(0.12))]]], ["read"],
                    ["other", fhex(f32(0.31))], ["read"],
                    ["set", h, [["mine", own]]], ["read"]]}, "paths")
    # a stream starting when the user never touched the level / after steps only
    for init in inits + [fhex(-10.0), fhex(-29.999999999999996)]:
        for streaming in (False, True):
            add({"kind": "raop", "ops": [["stream", init], ["read"], ["up"], ["read"], ["stream", init], ["read"]],
                 "streaming": streaming}, "paths")
            add({"kind": "raop", "ops": [["up"], ["stream", init], ["read"]], "streaming": streaming}, "paths")
            add({"kind": "raop", "ops": [["read"], ["down"], ["pump"], ["stream", init], ["read"]], "streaming": streaming}, "paths")

    # out-of-range / non-finite levels reported by the device itself, then read / set / step, on every path
    bad_fracs = [1.002, 1.0005, 1.2, 2.0, 37.0, INF, -0.002, -0.2, -1.0, -INF, NAN, 3e38]
    for n, bf in enumerate(bad_fracs):
        b = fhex(f32(bf))
        for a, r in ((True, False), (True, True)):
            add({"kind": "mrp", "abs": a, "rel": r, "ops": [
                ["report", b], ["read"], ["set", fhex(50.0), [["mine", fhex(f32(0.5))]]], ["read"],
                ["report", b], ["read"], ["up", [["mine", b]]], ["read"], ["down", [["other", fhex(f32(0.3))], ["mine", b]]], ["read"],
                ["set", fhex(100.0), [["mine", b]]], ["read"]]}, "hostile")
        d = [1.0, 0.5, 5e-324, 30.0, INF, NAN, 1e308][n % 7]
        for streaming in (False, True):
            add({"kind": "raop", "streaming": streaming, "ops": [
                ["stream", fhex(d)], ["read"], ["up"], ["read"], ["set", fhex(50.0)], ["read"],
                ["inject", fhex(d)], ["read"], ["down"], ["stream", None], ["read"]]}, "hostile")

    # (e) cross-protocol: a level announced by one protocol (Companion / MRP) through the core state
    #     dispatcher is intercepted by RaopAudio and forwarded at the next stream start
    fracs = [0.0, -0.0, 0.005, 0.05, 0.33, 0.5, 0.55, 0.999, 1.0, 1.0000000000000002, 1e-9, 5e-324,
             1.5, 37.0, -0.5, -1e-9, 2.0, NAN, INF, -INF]
    fracs += [rng.uniform(0.0, 1.0) for _ in range(8 * scale)] + [rng.uniform(-2.0, 3.0) for _ in range(4 * scale)]
    for n, f in enumerate(fracs):
        for init in (None, fhex(-20.0)):
            for streaming in (False, True):
                add({"kind": "cross", "front": "companion", "streaming": streaming, "ops": [
                    ["dreport", fhex(f)], ["read"], ["stream", init], ["read"], ["stream", None]]}, "cross")
                add({"kind": "cross", "front": "companion", "streaming": streaming, "ops": [
                    ["dreport", fhex(0.4)], ["dreport", fhex(f)], ["stream", init], ["novol"], ["stream", init]]}, "cross")
            add({"kind": "cross", "front": "mrp", "streaming": n % 2 == 0, "ops": [
                ["dreport", fhex(f32(f))], ["stream", init], ["dreport", fhex(f32(0.25))], ["stream", None]]}, "cross")
    for lv in boundary_levels() + [rng.uniform(0.0, 100.0) for _ in range(6 * scale)]:
        add({"kind": "cross", "front": "companion", "streaming": False, "ops": [
            ["set", fhex(lv), "echo"], ["read"], ["stream", fhex(-20.0)], ["read"], ["up", fhex(min(lv / 100.0 + 0.05, 1.0))],
            ["read"], ["stream", None]]}, "cross")
    # unsolicited device notifications (nobody waiting) BEFORE set / step: the call must still wait
    # for the confirmation of its own request
    for lv in boundary_levels() + [rng.uniform(0.0, 100.0) for _ in range(6 * scale)]:
        add({"kind": "cross", "front": "companion", "streaming": False, "ops": [
            ["dreport", fhex(0.1)], ["set", fhex(lv), "echo"], ["read"], ["dreport", fhex(0.2)],
            ["up", fhex(0.25)], ["read"], ["novol"], ["down", fhex(0.15)], ["read"],
            ["dreport", fhex(0.6)], ["dreport", fhex(0.7)], ["set", fhex(lv), "echo"], ["read"]]}, "cross")
    for i in range(120 * scale):
        hostile = i % 4 == 3
        ops = []
        for _ in range(rng.randint(1, 9)):
            r = rng.random()
            fr = pick_devvol(rng, hostile)
            if hostile and rng.random() < 0.3:
                fr = rng.choice([1.5, 37.0, -0.5, NAN, INF, rng.uniform(-3, 4)])
            if r < 0.25:
                ops.append(["dreport", fhex(fr)])
            elif r < 0.40:
                lv = pick_level(rng, hostile)
                ops.append(["set", fhex(lv), "echo" if rng.random() < 0.7 else fhex(fr)])
            elif r < 0.52:
                ops.append([rng.choice(["up", "down"]), fhex(fr)])
            elif r < 0.70:
                ops.append(["read"])
            elif r < 0.90:
                ops.append(["stream", rng.choice([None, fhex(-20.0), fhex(-144.0), fhex(0.0)])])
            elif r < 0.95:
                ops.append(["novol"])
            else:
                ops.append(["missing"])
        add({"kind": "cross", "front": "companion", "streaming": rng.random() < 0.4, "ops": ops}, "cross")

    terms = []      # (term text, case)
    t0 = _t.time()
    for case, src in cases:
        errs, ts, canon, nontriv, sample = run_case(case)
        ctx.case(canon, nontrivial=nontriv, sample=sample if (src != "value" or len(ctx.samples) < 3) else None)
        ctx.count(src + ":" + case["kind"])
        ctx.traces += 1
        for key, what in errs:
            ctx.violation(key, what, case)
        for t in ts:
            terms.append((t, case))

    ctx.note("implementation runs + oracle: %d cases in %.1fs" % (len(cases), _t.time() - t0))
    # conversions: monotone / closed / inverse on the sorted samples
    pct_s = [v for v in uniq if in_range(v)]
    dbfs_s = [v for v in uniq if v == v and -30.0 <= v <= 0.0]
    for key, what, w in judge_convert(pct_s, dbfs_s):
        ctx.violation(key, what, {"kind": "convert", "pct": w["pct"], "dbfs": w["dbfs"]})
    ctx.count("convert:sorted-pct", len(pct_s))
    ctx.count("convert:sorted-dbfs", len(dbfs_s))

    # model / implementation correspondence inside Coq
    if ok and gen_ok:
        per = 700
        items = []
        for i in range(0, len(terms), per):
            items.append(("cases_%03d" % (i // per), coq_file(terms[i:i + per])))
        t0 = _t.time()
        res = common.coq_run_many(items, ctx.pid)
        ctx.note("model/implementation correspondence in Coq: %d terms in %d files, %.1fs" % (len(terms), len(items), _t.time() - t0))
        for name, (rc, out) in sorted(res.items()):
            bad = common.parse_eval_nat_list(out) if rc == 0 else None
            if bad is None:
                ctx.tie_broken("correspondence:" + name, out)
            else:
                base = int(name.split("_")[1]) * per
                for b in bad[:5]:
                    t, case = terms[base + b]
                    ctx.tie_broken("correspondence:" + case["kind"], json.dumps({"case": case, "coq": t[:600]}))
    ctx.extra["coq_correspondence_terms"] = len(terms)
    ctx.extra["info_listener_pushes_outside_range"] = (
        "%d volume_update(old, new) listener calls carried a level outside [0,100] (FacadeAudio._volume_changed forwards "
        "whatever a protocol dispatches; not an observation point of C20, recorded for information only)" % PUSH_OOR)
    ctx.trusted += [
        "translator harness/c20.py gen(): Python ast -> coq/C20/Gen.v (deep-embedded trees; fail closed); coq/C20/Tie.v proves the trees denote the hand-written functions of Model.v in every number domain",
        "hand-written state machines of FacadeAudio+RaopAudio and FacadeAudio+MrpAudio (coq/C20/Model.v rstep/mstep), tied by the differential run of this file evaluated in Coq (vm_compute on PrimFloat, bit-exact via float.hex)",
        "binary64 arithmetic of CPython = Coq PrimFloat = Flocq binary_float 53 1024 (coq/C20/ModelB.v) - checked bit for bit on every case of this run; that the Flocq binary64 operations refine the rounded-real model (round-to-nearest-even of the exact result) on finite values is PROVED (coq/C20/LinkB.v, theorems C20_binary64_*), so no float axiom is assumed; Prim2SF (Coq.Floats.FloatOps) converts literals in the case files only",
        "fake playback manager / stream client / MrpProtocol and stub Audio protocol in harness/c20.py; harness/vloop.py",
    ]
    ctx.assumptions += [
        "a protocol's set_volume call is atomic with respect to queued listener callbacks (the fake stream client does not suspend)",
        "MrpAudio._volume is taken as reported (round(inner.volume*100, 1) is not modelled; the reported value is an input)",
        "math.isclose(x, 0.0) with default tolerances is x == 0.0 (checked on every sample incl. subnormals, NaN, infinities)",
    ]


def replay(ctx, path):
    d = json.load(open(path))
    case = d.get("replay", d)
    if case.get("kind") == "convert":
        errs = judge_convert([unhex(x) for x in case.get("pct", [])], [unhex(x) for x in case.get("dbfs", [])])
        for key, what, w in errs:
            print("property-error %s: %s" % (key, what))
        return 1 if errs else 0
    errs, ts, canon, nontriv, sample = run_case(case)
    print(json.dumps(sample, indent=1, default=repr))
    for key, what in errs:
        print("property-error %s: %s" % (key, what))
    return 1 if errs else 0
