"""C20 - volume stays within 0..100 percent end to end.

gen(ctx)    translator: Python ast of the anchored functions -> coq/C20/Gen.v (one deep-embedded
            tree per function; coq/C20/Model.v holds the single interpreter for the three number
            domains Q / Flocq-rounded R / PrimFloat).  Fail closed.
run(ctx)    build + theorems, oracle on the real implementation, correspondence inside Coq.
replay(..)  re-run one replay file against the implementation.
"""
import ast
import asyncio
import fractions
import hashlib
import json
import math
import os
import struct

import common
import vloop

PID = "C20"
TINY = 2.0 ** -40          # proved bound on the binary64 round-trip error (C20_roundtrip_error_bound)

# =========================================================================== translator


class Unsupported(Exception):
    pass


def _src(rel):
    p = os.path.join(common.REPO, rel)
    return ast.parse(open(p).read(), filename=p), p


def _func(tree, name, cls=None):
    body = tree.body
    if cls is not None:
        cs = [n for n in body if isinstance(n, ast.ClassDef) and n.name == cls]
        if len(cs) != 1:
            raise Unsupported("class %s not found exactly once" % cls)
        body = cs[0].body
    fs = [n for n in body if isinstance(n, (ast.FunctionDef, ast.AsyncFunctionDef)) and n.name == name]
    # a property with a setter would give two; we only accept one definition
    if len(fs) != 1:
        raise Unsupported("function %s.%s not found exactly once" % (cls, name))
    return fs[0]


def _intval(node):
    """Numeric literal that is an integer < 2**53 in magnitude (exact in Q, R and binary64)."""
    neg = False
    if isinstance(node, ast.UnaryOp) and isinstance(node.op, ast.USub):
        neg = True
        node = node.operand
    if not isinstance(node, ast.Constant) or isinstance(node.value, bool) or not isinstance(node.value, (int, float)):
        return None
    v = node.value
    if isinstance(v, float):
        if not math.isfinite(v) or v != int(v):
            raise Unsupported("non-integral float literal %r" % v)
    z = int(v)
    if abs(z) >= 2 ** 53:
        raise Unsupported("literal too large %r" % v)
    if neg:
        if z == 0:
            raise Unsupported("negative zero literal")
        z = -z
    return z


def _module_consts(tree, names):
    out = {}
    for n in tree.body:
        tgt = None
        if isinstance(n, ast.Assign) and len(n.targets) == 1 and isinstance(n.targets[0], ast.Name):
            tgt, val = n.targets[0].id, n.value
        elif isinstance(n, ast.AnnAssign) and isinstance(n.target, ast.Name) and n.value is not None:
            tgt, val = n.target.id, n.value
        if tgt in names:
            if tgt in out:
                raise Unsupported("constant %s assigned twice" % tgt)
            z = _intval(val)
            if z is None:
                raise Unsupported("constant %s is not a numeric literal" % tgt)
            out[tgt] = z
    for k in names:
        if k not in out:
            raise Unsupported("constant %s not found" % k)
    return out


def _no_shadow(tree, names):
    """None of the builtins / helpers we give a fixed meaning may be rebound in the module."""
    for n in ast.walk(tree):
        if isinstance(n, (ast.FunctionDef, ast.AsyncFunctionDef, ast.ClassDef)) and n.name in names:
            raise Unsupported("%s is redefined" % n.name)
        if isinstance(n, ast.Name) and isinstance(n.ctx, ast.Store) and n.id in names:
            raise Unsupported("%s is rebound" % n.id)
        if isinstance(n, (ast.Import, ast.ImportFrom)):
            for a in n.names:
                if (a.asname or a.name) in names:
                    raise Unsupported("%s is imported over" % (a.asname or a.name))
        if isinstance(n, ast.arg) and n.arg in names:
            raise Unsupported("%s is a parameter name" % n.arg)


def _key(node):
    """Name or self.attr -> environment key."""
    if isinstance(node, ast.Name):
        return node.id
    if isinstance(node, ast.Attribute) and isinstance(node.value, ast.Name) and node.value.id == "self":
        return "self." + node.attr
    return None


class Tx:
    def __init__(self, env, consts, callees=None):
        self.env = list(env)          # list of keys; index = variable number
        self.consts = consts
        self.callees = callees or {}  # python name -> (coq constant, arity)

    def expr(self, n):
        z = _intval(n)
        if z is not None:
            return "(EConst (%d))" % z
        k = _key(n)
        if k is not None:
            if k in self.env:
                return "(EVar %d)" % self.env.index(k)
            if k in self.consts:
                return "(EConst (%d))" % self.consts[k]
            raise Unsupported("unknown name %s" % k)
        if isinstance(n, ast.BinOp):
            ops = {ast.Add: "EAdd", ast.Sub: "ESub", ast.Mult: "EMul", ast.Div: "EDiv"}
            if type(n.op) not in ops:
                raise Unsupported("operator " + type(n.op).__name__)
            return "(%s %s %s)" % (ops[type(n.op)], self.expr(n.left), self.expr(n.right))
        if isinstance(n, ast.Call) and isinstance(n.func, ast.Name) and n.func.id in ("min", "max"):
            if len(n.args) != 2 or n.keywords or any(isinstance(a, ast.Starred) for a in n.args):
                raise Unsupported("min/max with other than two plain arguments")
            return "(%s %s %s)" % ("EMin" if n.func.id == "min" else "EMax", self.expr(n.args[0]), self.expr(n.args[1]))
        raise Unsupported("expression " + ast.dump(n)[:80])

    def cond(self, n):
        if isinstance(n, ast.Compare):
            ops = {ast.Lt: "CLt", ast.LtE: "CLe", ast.Gt: "CGt", ast.GtE: "CGe", ast.Eq: "CEq", ast.NotEq: "CNe"}
            parts = []
            left = n.left
            for op, right in zip(n.ops, n.comparators):
                if type(op) not in ops:
                    raise Unsupported("comparison " + type(op).__name__)
                parts.append("(%s %s %s)" % (ops[type(op)], self.expr(left), self.expr(right)))
                left = right
            out = parts[-1]
            for p in reversed(parts[:-1]):
                out = "(CAnd %s %s)" % (p, out)
            return out
        if isinstance(n, ast.BoolOp):
            c = "COr" if isinstance(n.op, ast.Or) else "CAnd"
            vs = [self.cond(v) for v in n.values]
            out = vs[-1]
            for p in reversed(vs[:-1]):
                out = "(%s %s %s)" % (c, p, out)
            return out
        if isinstance(n, ast.UnaryOp) and isinstance(n.op, ast.Not):
            return "(CNot %s)" % self.cond(n.operand)
        if (isinstance(n, ast.Call) and isinstance(n.func, ast.Attribute) and n.func.attr == "isclose"
                and isinstance(n.func.value, ast.Name) and n.func.value.id == "math"):
            if len(n.args) != 2 or n.keywords:
                raise Unsupported("math.isclose with tolerances")
            if _intval(n.args[1]) != 0 and not (_key(n.args[1]) in self.consts and self.consts[_key(n.args[1])] == 0):
                raise Unsupported("math.isclose against something other than 0.0")
            return "(CIsClose0 %s)" % self.expr(n.args[0])
        raise Unsupported("condition " + ast.dump(n)[:80])

    def exn(self, n):
        if isinstance(n, ast.Call):
            n = n.func
        name = n.id if isinstance(n, ast.Name) else (n.attr if isinstance(n, ast.Attribute) else None)
        if isinstance(n, ast.Attribute) and not (isinstance(n.value, ast.Name) and n.value.id == "exceptions"):
            raise Unsupported("exception from unknown namespace")
        if name not in ("ValueError", "ProtocolError", "ZeroDivisionError"):
            raise Unsupported("exception %s" % name)
        return name

    def body(self, stmts):
        if not stmts:
            raise Unsupported("control can fall off the end")
        s, rest = stmts[0], stmts[1:]
        if isinstance(s, ast.Expr) and isinstance(s.value, ast.Constant) and isinstance(s.value.value, str):
            return self.body(rest)
        if isinstance(s, ast.Pass):
            return self.body(rest)
        if isinstance(s, ast.Return):
            if s.value is None:
                raise Unsupported("bare return")
            v = s.value
            if isinstance(v, ast.Call) and isinstance(v.func, ast.Name) and v.func.id in self.callees:
                coq, arity = self.callees[v.func.id]
                if len(v.args) != arity or v.keywords:
                    raise Unsupported("call of %s with unexpected arguments" % v.func.id)
                return "(SCall %s [%s])" % (coq, "; ".join(self.expr(a) for a in v.args))
            return "(SRet %s)" % self.expr(v)
        if isinstance(s, ast.Raise):
            if s.exc is None or s.cause is not None:
                raise Unsupported("raise form")
            return "(SRaise %s)" % self.exn(s.exc)
        if isinstance(s, ast.If):
            c = self.cond(s.test)
            saved = list(self.env)
            t = self.body(s.body)           # must leave the function (body() fails otherwise)
            self.env = saved
            k = self.body(list(s.orelse) + rest)
            return "(SIf %s %s %s)" % (c, t, k)
        if isinstance(s, (ast.Assign, ast.AnnAssign)):
            if isinstance(s, ast.Assign):
                if len(s.targets) != 1:
                    raise Unsupported("multiple assignment")
                tgt, val = s.targets[0], s.value
            else:
                tgt, val = s.target, s.value
            if not isinstance(tgt, ast.Name) or val is None:
                raise Unsupported("assignment target")
            if tgt.id in self.env or tgt.id in self.consts:
                raise Unsupported("re-assignment of %s" % tgt.id)
            e = self.expr(val)
            self.env.append(tgt.id)
            return "(SLet %s %s)" % (e, self.body(rest))
        raise Unsupported("statement " + type(s).__name__)


def _is_self_call(call, attr):
    return (isinstance(call, ast.Call) and isinstance(call.func, ast.Attribute) and call.func.attr == attr
            and isinstance(call.func.value, ast.Name) and call.func.value.id == "self")


def _relay_call(node, what):
    """self.relay("what")"""
    return (_is_self_call(node, "relay") and len(node.args) == 1 and not node.keywords
            and isinstance(node.args[0], ast.Constant) and node.args[0].value == what)


def _forward_to_return(stmts, match):
    """Replace the statement `await <forwarding call>(arg)` by `return arg` (the forwarded level
    becomes the function's value).  match(call) -> arg node or None."""
    out = []
    n = 0
    for s in stmts:
        if isinstance(s, ast.Expr) and isinstance(s.value, ast.Await):
            a = match(s.value.value)
            if a is not None:
                out.append(ast.Return(value=a))
                n += 1
                continue
        if isinstance(s, ast.If):
            b, nb = _forward_to_return(s.body, match)
            o, no = _forward_to_return(s.orelse, match)
            s = ast.If(test=s.test, body=b, orelse=o)
            n += nb + no
        out.append(s)
    return out, n


def translate():
    """Returns the text of Gen.v and a dict of digests; raises Unsupported."""
    sup, _ = _src("pyatv/support/__init__.py")
    utl, _ = _src("pyatv/protocols/airplay/utils.py")
    fac, _ = _src("pyatv/core/facade.py")
    rao, _ = _src("pyatv/protocols/raop/__init__.py")
    mrp, _ = _src("pyatv/protocols/mrp/__init__.py")
    for t in (sup, utl, rao, mrp):
        _no_shadow(t, {"min", "max"})
    # utils must get map_range from pyatv.support and math from the standard library
    imp_ok = any(isinstance(n, ast.ImportFrom) and n.module == "pyatv.support" and n.level == 0
                 and any(a.name == "map_range" and a.asname is None for a in n.names) for n in utl.body)
    math_ok = any(isinstance(n, ast.Import) and any(a.name == "math" and a.asname is None for a in n.names) for n in utl.body)
    if not imp_ok or not math_ok:
        raise Unsupported("utils.py does not import map_range from pyatv.support / math")
    for n in ast.walk(utl):
        if isinstance(n, (ast.FunctionDef, ast.AsyncFunctionDef)) and n.name in ("map_range",):
            raise Unsupported("map_range redefined in utils.py")

    consts = _module_consts(utl, ["DBFS_MIN", "DBFS_MAX", "PERCENTAGE_MIN", "PERCENTAGE_MAX"])
    rconsts = _module_consts(rao, ["INITIAL_VOLUME"])
    defs = []

    f = _func(sup, "map_range")
    params = [a.arg for a in f.args.args]
    if len(params) != 5 or f.args.vararg or f.args.kwarg or f.args.kwonlyargs or f.args.defaults:
        raise Unsupported("map_range signature")
    defs.append(("g_map_range", "stmt", Tx(params, {}).body(f.body)))

    for name in ("pct_to_dbfs", "dbfs_to_pct"):
        f = _func(utl, name)
        params = [a.arg for a in f.args.args]
        if len(params) != 1 or f.args.defaults:
            raise Unsupported(name + " signature")
        defs.append(("g_" + name, "stmt", Tx(params, consts, {"map_range": ("g_map_range", 5)}).body(f.body)))

    # facade guards
    f = _func(fac, "volume", "FacadeAudio")
    body = [s for s in f.body if not (isinstance(s, ast.Expr) and isinstance(s.value, ast.Constant))]
    if not (body and isinstance(body[0], ast.Assign) and len(body[0].targets) == 1
            and isinstance(body[0].targets[0], ast.Name) and _relay_call(body[0].value, "volume")):
        raise Unsupported("FacadeAudio.volume does not start with x = self.relay('volume')")
    defs.append(("g_facade_read", "stmt", Tx([body[0].targets[0].id], {}).body(body[1:])))

    f = _func(fac, "set_volume", "FacadeAudio")
    params = [a.arg for a in f.args.args]
    if params[:1] != ["self"] or len(params) != 2:
        raise Unsupported("FacadeAudio.set_volume signature")

    def m_relay(call):
        if isinstance(call, ast.Call) and _relay_call(call.func, "set_volume") and len(call.args) == 1 and not call.keywords:
            return call.args[0]
        return None
    b, n = _forward_to_return(f.body, m_relay)
    if n != 1:
        raise Unsupported("FacadeAudio.set_volume forwards %d times" % n)
    defs.append(("g_facade_write", "stmt", Tx([params[1]], {}).body(b)))

    def m_setvol(call):
        if _is_self_call(call, "set_volume") and len(call.args) == 1 and not call.keywords:
            return call.args[0]
        return None

    # RAOP steps: the whole body is `await self.set_volume(<expr of self.volume>)`
    for name in ("volume_up", "volume_down"):
        f = _func(rao, name, "RaopAudio")
        b, n = _forward_to_return(f.body, m_setvol)
        if n != 1:
            raise Unsupported("RaopAudio.%s forwards %d times" % (name, n))
        defs.append(("g_raop_" + name, "stmt", Tx(["self.volume"], {}).body(b)))

    # MRP steps: only the level expression handed to self.set_volume is translated; the
    # surrounding control flow (absolute / relative capability, early return) is hand-modelled
    # in Model.v and tied by the differential run.
    f = _func(mrp, "volume", "MrpAudio")
    rets = [s for s in f.body if isinstance(s, ast.Return)]
    if not (len(rets) == 1 and _key(rets[0].value) == "self._volume"):
        raise Unsupported("MrpAudio.volume is not `return self._volume`")
    for name in ("volume_up", "volume_down"):
        f = _func(mrp, name, "MrpAudio")
        found = []
        for nd in ast.walk(f):
            if isinstance(nd, ast.Await):
                a = m_setvol(nd.value)
                if a is not None:
                    found.append(a)
        if len(found) != 1:
            raise Unsupported("MrpAudio.%s calls self.set_volume %d times" % (name, len(found)))
        # self.volume and self._volume are the same value
        e = found[0]
        tx = Tx(["self.volume"], {})
        for nd in ast.walk(e):
            if isinstance(nd, ast.Attribute) and _key(nd) == "self._volume":
                nd.attr = "volume"
        defs.append(("g_mrp_" + name, "stmt", "(SRet %s)" % tx.expr(e)))

    lines = ["(* GENERATED on every run by harness/c20.py gen() from the Python ast of the working tree",
             "   under test - do not edit, not committed. *)",
             "From Coq Require Import ZArith List.",
             "From PV Require Import C20.Model.",
             "Import ListNotations.",
             "Open Scope Z_scope.", ""]
    for k in ("DBFS_MIN", "DBFS_MAX", "PERCENTAGE_MIN", "PERCENTAGE_MAX"):
        lines.append("Definition g_%s : Z := (%d)." % (k, consts[k]))
    lines.append("Definition g_INITIAL_VOLUME : Z := (%d)." % rconsts["INITIAL_VOLUME"])
    lines.append("")
    for name, ty, body in defs:
        lines.append("Definition %s : %s :=\n  %s.\n" % (name, ty, body))
    text = "\n".join(lines)
    return text, {"Gen.v": hashlib.sha256(text.encode()).hexdigest()[:16]}


def gen(ctx):
    """Re-emit coq/C20/Gen.v from the tree under test.  Returns True if written."""
    path = os.path.join(common.COQ, PID, "Gen.v")
    try:
        text, dig = translate()
    except (Unsupported, SyntaxError, OSError) as ex:
        # fail closed: leave a Gen.v that cannot satisfy the obligations
        with common.Lock("c20gen"):
            with open(path, "w") as f:
                f.write("(* translator refused: %s *)\nFrom PV Require Import C20.Model.\n"
                        "Definition translator_refused : unit := tt.\n" % str(ex).replace("*)", "* )"))
        ctx.tie_broken("translator", "harness/c20.py gen(): %s: %s" % (type(ex).__name__, ex))
        return False
    old = open(path).read() if os.path.exists(path) else None
    if old != text:
        with common.Lock("c20gen"):
            with open(path, "w") as f:
                f.write(text)
    ctx.extra["generated_digests"] = dig
    return True
