"""Virtual-time asyncio loop: time() is a counter that jumps to the next timer whenever
nothing is ready, so schedules are deterministic and timeouts cost nothing."""
import asyncio
import heapq


class Deadlock(Exception):
    pass


class VLoop(asyncio.SelectorEventLoop):
    def __init__(self):
        super().__init__()
        self._vt = 0.0

    def time(self):
        return self._vt

    def _run_once(self):
        if not self._ready:
            while self._scheduled and self._scheduled[0]._cancelled:
                h = heapq.heappop(self._scheduled)
                h._scheduled = False
                self._timer_cancelled_count = max(0, self._timer_cancelled_count - 1)
            if self._scheduled:
                when = self._scheduled[0]._when
                if when > self._vt:
                    self._vt = when
            elif not self._stopping:
                raise Deadlock("nothing ready and no timer pending")
        super()._run_once()


def run(coro_factory, *a, **kw):
    """Run coro_factory(*a, **kw) to completion on a fresh virtual-time loop."""
    loop = VLoop()
    try:
        asyncio.set_event_loop(loop)
        return loop.run_until_complete(coro_factory(*a, **kw))
    finally:
        try:
            pending = [t for t in asyncio.all_tasks(loop) if not t.done()]
            for t in pending:
                t.cancel()
            if pending:
                loop.run_until_complete(asyncio.gather(*pending, return_exceptions=True))
        except Exception:
            pass
        asyncio.set_event_loop(None)
        loop.close()
