"""C10 - listeners are notified only on change, in order, from the active protocol.

Theorems in coq/C10 (model of AbstractPushUpdater.post_update, the FIFO of call_soon,
FacadePushUpdater start/stop/playstatus_update with the main-instance filter, and the
old/new comparers of FacadeAudio / FacadeKeyboard).  The real FacadeAppleTV with mock
protocols (real AbstractPushUpdater subclasses, real ProtocolStateDispatcher) is driven
op by op; the loop is either the real asyncio loop ("all": every RunAll drains what was
scheduled, FIFO order is asyncio's) or stepped one call-back at a time ("manual").
"""
import asyncio
import itertools
import json
import time

import common
import vloop

PRIORITY = ["MRP", "DMAP", "Companion", "AirPlay", "RAOP"]   # order given by the property text (C01)
# play statuses 0..4: derived hash, agree in most fields and differ in exactly one;
# status 5: every field set and an EXPLICIT hash (as MRP supplies the content identifier);
# status 6+j: status 5 with field j of Playing._PROPERTIES changed and nothing else (hash included:
# "differs only in hash"; title/artist/album/total_time: differs although the hash is the same)
STATUS_KW = [
    dict(title="t", position=1),
    dict(title="t", position=2),
    dict(title="t", position=1, artist="x"),
    dict(title="t", position=1, itunes_store_identifier=7),
    dict(title="t", position=1, media_type="video"),
]
STATUS_BASE = 5


def status_count():
    from pyatv import interface
    return STATUS_BASE + 1 + len(interface.Playing._PROPERTIES)


NSTATUS = status_count()
# volumes: index -> value given to the facade, and the canonical index of the values that are EQUAL
# for a listener (-0.0 == 0.0, 10 == 10.0)
# (one unit = one volume step of 5 percent, as volume_up / volume_down of the protocols move it)
VOL_VALUES = [5.0 * k for k in range(21)] + [-0.0, 10]
VOL_CANON = list(range(21)) + [0, 2]
VOL_PICK = [0, 1, 2, 3, 19, 20, 21, 22]          # indices used by the generators
# output-device lists: same identifier, different name / no name / extra device
DEV_VALUES = [[], [("a", "1")], [("b", "1")], [(None, "1")], [("a", "1"), ("b", "2")]]


class StepLoop(vloop.VLoop):
    """Virtual-time loop; in manual mode call-backs scheduled by pyatv code are parked in a
    FIFO of our own and run one at a time by the driver."""

    def __init__(self):
        super().__init__()
        self.manual = False
        self.parked = []
        # a user listener that raises is part of the histories: the loop contains the exception
        # (asyncio would log it; keep the output clean)
        self.set_exception_handler(lambda loop, context: None)

    def call_soon(self, callback, *args, context=None):
        if self.manual and str(getattr(callback, "__module__", "")).startswith("pyatv"):
            h = asyncio.Handle(callback, args, self, context)
            self.parked.append(h)
            return h
        return super().call_soon(callback, *args, context=context)

    def run_parked(self, count=None):
        n = 0
        while self.parked and (count is None or n < count):
            h = self.parked.pop(0)
            if not h.cancelled():
                h._run()
            n += 1


def run_on_steploop(coro_factory, *a):
    loop = StepLoop()
    try:
        asyncio.set_event_loop(loop)
        return loop.run_until_complete(coro_factory(loop, *a))
    finally:
        try:
            loop.manual = False
            pending = [t for t in asyncio.all_tasks(loop) if not t.done()]
            for t in pending:
                t.cancel()
            if pending:
                loop.run_until_complete(asyncio.gather(*pending, return_exceptions=True))
        except Exception:
            pass
        asyncio.set_event_loop(None)
        loop.close()


class Device:
    pass


async def make_device(loop, cfg, manual):
    """One device object: real FacadeAppleTV with its own CoreStateDispatcher, mock protocols and recording user
    listeners.  cfg = {"protos": [[rank, has_push, has_keyboard(, stop_raises(, has_audio))], ...], "faults": [...]}."""
    from pyatv import conf, const, exceptions, interface
    from pyatv.const import KeyboardFocusState, Protocol
    from pyatv.core import (AbstractPushUpdater, ProtocolStateDispatcher, SetupData, UpdatedState,
                            facade)
    from pyatv.core.protocol import MessageDispatcher
    from pyatv.protocols.mrp import MrpPushUpdater
    from pyatv.settings import Settings

    got = []
    rank_of = {}
    faults = set(cfg.get("faults", ()))

    current = {"push": None, "aud": None, "kbd": None}     # the listener object assigned right now, per kind
    KIND = {"DPlay": "push", "DErr": "push", "DVol": "aud", "DDev": "aud", "DFocus": "kbd"}

    def heard(call, me=None):
        """Record one notification received by listener object `me`; the listener raises if the history says so.
        Only the listener that is assigned WHEN THE NOTIFICATION IS DELIVERED may receive it."""
        got.append(call)
        if me is not current[KIND[call[0]]]:
            got.append(["Misdelivered", call[0]])
        if len(got) - 1 in faults:
            raise RuntimeError("user listener failed on notification %d" % (len(got) - 1))


    class Meta:
        """Stands in for MrpMetadata: playing() returns the next status or raises."""

        def __init__(self):
            self.next = None

        async def playing(self):
            if isinstance(self.next, Exception):
                raise self.next
            return self.next

    class Psm:
        listener = None

    class Upd(MrpPushUpdater):
        """The real MRP push updater (state_updated -> post_update / playstatus_error via
        call_soon); only start/stop are replaced (the real ones talk to the player state manager)."""

        def __init__(self, disp):
            super().__init__(Meta(), Psm(), disp)
            self.stop_raises = False

        @property
        def active(self):
            return False

        def start(self, initial_delay=0):
            pass

        def stop(self):
            if self.stop_raises:      # fault while tearing this protocol down
                raise ConnectionResetError("connection to device lost")

    class Kbd(interface.Keyboard):
        pass

    class Aud(interface.Audio):
        """A protocol's Audio as RAOP / MRP / Companion implement it: the new level is applied and
        then announced with state_dispatcher.dispatch(UpdatedState.Volume, level); volume_up /
        volume_down are set_volume(current +- 5.0) clamped to 0..100."""

        def __init__(self, disp):
            super().__init__()
            self.disp = disp
            self.level = 0.0

        @property
        def volume(self):
            return self.level

        async def set_volume(self, level):
            self.level = level
            self.disp.dispatch(UpdatedState.Volume, self.level)

        async def volume_up(self):
            await self.set_volume(min(self.level + 5.0, 100.0))

        async def volume_down(self):
            await self.set_volume(max(self.level - 5.0, 0.0))

        def device_changed(self, level):          # the device reports a new level
            self.level = level
            self.disp.dispatch(UpdatedState.Volume, self.level)

    class Sess:
        async def close(self):
            return None

    class Push(interface.PushListener):
        def playstatus_update(self, updater, playstatus):
            heard(["DPlay", rank_of[id(updater)], status_index(playstatus)], self)

        def playstatus_error(self, updater, exception):
            heard(["DErr", rank_of[id(updater)]], self)

    FOCUS = [KeyboardFocusState.Unknown, KeyboardFocusState.Unfocused, KeyboardFocusState.Focused]
    DEVS = DEV_VALUES
    VOLS = VOL_VALUES

    FULL = dict(media_type=const.MediaType.Music, device_state=const.DeviceState.Playing, title="t", artist="a", album="b",
                genre="g", total_time=100, position=1, shuffle=const.ShuffleState.Off, repeat=const.RepeatState.Off, hash="h",
                series_name="s", season_number=1, episode_number=1, content_identifier="c", itunes_store_identifier=1)

    def other(v):
        if isinstance(v, str):
            return v + "2"
        if isinstance(v, int) and not hasattr(v, "name"):
            return v + 1
        return [m for m in type(v) if m != v][0]          # another member of the enum

    def mk_status(k):
        if k >= STATUS_BASE:
            props = interface.Playing._PROPERTIES
            kw = dict((p, FULL[p]) for p in props)        # a property unknown here: KeyError (fail closed)
            if k > STATUS_BASE:
                p = props[k - STATUS_BASE - 1]
                kw[p] = other(kw[p])
            return interface.Playing(**kw)
        kw = dict(STATUS_KW[k])
        if "media_type" in kw:
            kw["media_type"] = const.MediaType.Video
        return interface.Playing(**kw)

    def fields(p):
        return tuple(getattr(p, prop) for prop in interface.Playing._PROPERTIES)
    STATUS_FIELDS = [fields(mk_status(k)) for k in range(NSTATUS)]
    if len(set(STATUS_FIELDS)) != NSTATUS:
        raise ValueError("play status values are not pairwise different")

    def status_index(p):
        return STATUS_FIELDS.index(fields(p))

    class AudL(interface.AudioListener):
        def volume_update(self, old_level, new_level):
            heard(["DVol", VOL_CANON[VOLS.index(old_level)], VOL_CANON[VOLS.index(new_level)]], self)   # index() compares with ==

        def outputdevices_update(self, old_devices, new_devices):
            k = lambda ds: DEVS.index([(d.name, d.identifier) for d in ds])
            heard(["DDev", k(old_devices), k(new_devices)], self)

    class Key(interface.KeyboardListener):
        def focusstate_update(self, old_state, new_state):
            heard(["DFocus", FOCUS.index(old_state), FOCUS.index(new_state)], self)

    core = MessageDispatcher()
    config = conf.AppleTV("127.0.0.1", "verif")
    atv = facade.FacadeAppleTV(config, Sess(), core, Settings())
    upds, disps, audios = {}, {}, {}
    for rank in range(5):
        proto = getattr(Protocol, PRIORITY[rank])
        disps[rank] = ProtocolStateDispatcher(proto, core)
        upds[rank] = Upd(disps[rank])          # every protocol has an updater object ...
        rank_of[id(upds[rank])] = rank
    for entry in cfg["protos"]:
        rank, has_push, has_kbd = entry[:3]
        upds[rank].stop_raises = bool(entry[3]) if len(entry) > 3 else False
        proto = getattr(Protocol, PRIORITY[rank])
        config.add_service(conf.ManualService("id%d" % rank, proto, 0, {}))
        ifaces = {}
        if has_push:
            ifaces[interface.PushUpdater] = upds[rank]   # ... but only these are registered
        if has_kbd:
            ifaces[interface.Keyboard] = Kbd()
        if len(entry) > 4 and entry[4]:
            audios[rank] = Aud(disps[rank])
            ifaces[interface.Audio] = audios[rank]

        async def connect():
            return True
        atv.add_protocol(SetupData(proto, connect, lambda: set(), lambda: {}, ifaces, set()))
    await atv.connect()
    pu, audio, kbd = atv.push_updater, atv.audio, atv.keyboard
    listeners = []           # every listener object ever assigned stays alive and keeps recording
    CLS = {"push": Push, "aud": AudL, "kbd": Key}
    OWNER = {"push": pu, "aud": audio, "kbd": kbd}

    def set_listener(kind, what):
        """The user assigns the listener of the push updater / audio / keyboard: a new object, the same object
        again, or None."""
        if what == "none":
            current[kind] = None
        elif what == "new" or current[kind] is None:
            current[kind] = CLS[kind]()
            listeners.append(current[kind])
        OWNER[kind].listener = current[kind]
    for kind in ("push", "aud", "kbd"):
        if not (kind == "push" and cfg.get("no_push_listener")):
            set_listener(kind, "new")
    relayers = {"push": pu, "kbd": kbd}
    IFACE = {"push": interface.PushUpdater, "kbd": interface.Keyboard}

    async def apply(op):
        k = op[0]
        res = "ok"
        try:
            if k == "Post":
                upds[op[1]].metadata.next = mk_status(op[2])
                await upds[op[1]].state_updated()       # never suspends: does not run the loop
            elif k == "Err":
                upds[op[1]].metadata.next = RuntimeError("verif")
                await upds[op[1]].state_updated()
            elif k == "Start":
                pu.start()
            elif k == "Stop":
                pu.stop()
            elif k == "Close":
                atv.close()
            elif k == "Take":
                atv.takeover(getattr(Protocol, PRIORITY[op[1]]), *[IFACE[w] for w in op[2]])
            elif k == "Rel":
                for w in op[1]:
                    relayers[w].release()
            elif k == "Vol":
                if op[1] in audios:
                    audios[op[1]].device_changed(VOLS[op[2]])
                else:
                    disps[op[1]].dispatch(UpdatedState.Volume, VOLS[op[2]])
            elif k == "SetL":
                set_listener(op[1], op[2])
            elif k == "SetVol":
                await audio.set_volume(VOLS[op[1]])       # the user, through the real FacadeAudio
            elif k == "VolUp":
                await audio.volume_up()
            elif k == "VolDown":
                await audio.volume_down()
            elif k == "Dev":
                disps[op[1]].dispatch(UpdatedState.OutputDevices,
                                      [interface.OutputDevice(n, i) for n, i in DEVS[op[2]]])
            elif k == "Focus":
                disps[op[1]].dispatch(UpdatedState.KeyboardFocus, FOCUS[op[2]])
            elif k == "Run1":
                if not manual:
                    raise ValueError("Run1 needs the manual loop")
                loop.run_parked(1)
            elif k == "RunAll":
                if manual:
                    loop.run_parked()
                else:
                    await asyncio.sleep(0)
            else:
                raise ValueError(k)
        except exceptions.BlockedStateError:
            res = "blocked"
        except exceptions.InvalidStateError:
            res = "invalid"
        except exceptions.NotSupportedError:
            res = "notsup"
        except asyncio.CancelledError:
            raise
        except ValueError:
            raise
        except Exception as ex:
            res = "raise:" + type(ex).__name__
        return res
    dev = Device()
    dev.apply, dev.got, dev.keep = apply, got, listeners
    return dev


async def drive(loop, cfg, ops, manual):
    """Returns per op [result, deliveries to device 1's listeners(, deliveries to device 2's listeners)].
    With cfg["twin"] a second device object (own facade, own CoreStateDispatcher, own listeners) lives in the
    same process; ops written ["@2", op] go to it, the loop ops are shared."""
    devs = [await make_device(loop, cfg, manual)]
    if cfg.get("twin") is not None:
        devs.append(await make_device(loop, cfg["twin"], manual))
    loop.manual = manual
    outs = []
    for op in ops:
        which = 0
        if op[0] == "@2":
            which, op = 1, op[1]
        marks = [len(d.got) for d in devs]
        res = await devs[which].apply(op)
        outs.append([res] + [d.got[m:] for d, m in zip(devs, marks)])
    return outs


def run_case(cfg, ops, manual):
    return run_on_steploop(drive, cfg, ops, manual)


def project(cfg, ops, raw):
    """Split a two-device run into one ordinary case per device: its own ops plus the shared loop ops, with
    what ITS listeners received.  Returns [(cfg_k, ops_k, outs_k)], leaked (notifications that arrived while
    only the other device was being operated)."""
    if cfg.get("twin") is None:
        return [(cfg, ops, raw)], []
    if any((o[1][0] if o[0] == "@2" else o[0]) == "Run1" for o in ops):
        raise ValueError("two devices share the loop: only RunAll")
    cases = [(dict((k, v) for k, v in cfg.items() if k != "twin"), [], []), (cfg["twin"], [], [])]
    leaked = []
    for op, (res, d1, d2) in zip(ops, raw):
        own = 1 if op[0] == "@2" else 0
        plain_op = op[1] if own else op
        shared = plain_op[0] == "RunAll"
        for k, ds in ((0, d1), (1, d2)):
            if k == own or shared:
                cases[k][1].append(plain_op)
                cases[k][2].append([res if k == own else "ok", ds])
            elif ds:
                leaked.append((k + 1, op, ds))
    return cases, leaked


# ------------------------------------------------------------------ oracle (property text)

def oracle(cfg, ops, outs):
    """Judge the property on what the user listeners received."""
    errs = []
    regs = [e[0] for e in cfg["protos"] if e[1]]
    kregs = [e[0] for e in cfg["protos"] if e[2]]
    faulty = any(e[1] and len(e) > 3 and e[3] for e in cfg["protos"])    # some registered updater's stop() raises
    stepped = any(op[0] == "Run1" for op in ops)
    owed = []                 # updates / errors of a started facade that the next drain must deliver if their protocol is active
    last_post = {}
    changed = []              # (index of op, rank, status) that differ from the updater's previous status
    changed_at = set()
    for j, op in enumerate(ops):
        if op[0] == "Post":
            if last_post.get(op[1]) != op[2]:
                changed.append((op[1], op[2]))
                changed_at.add(j)
            last_post[op[1]] = op[2]
    plays = [(d[1], d[2]) for _, ds in outs for d in ds if d[0] == "DPlay"]
    # only on change + in order: the delivered sequence is a subsequence of the changed posts
    it = iter(changed)
    if not all(any(x == y for y in it) for x in plays):
        errs.append(("C10:playstatus:not-a-change-or-out-of-order",
                     "delivered %r is not an in-order selection of the changed posts %r" % (plays, changed)))
    # active protocol / nothing after stop: replay who may speak at each moment
    take = {"push": None, "kbd": None}
    started = False
    closed = False
    has_push_listener = not cfg.get("no_push_listener")
    vq, dq, fq = [], [], []          # values accepted for delivery, in dispatch (= FIFO) order
    aregs = [e[0] for e in cfg["protos"] if len(e) > 4 and e[4]]
    level = dict((r, 0) for r in aregs)          # level held by each protocol's Audio (steps of 5 percent)
    for j, op in enumerate(ops):
        res, ds = outs[j]
        k = op[0]
        if res.startswith("raise") and not (faulty and k in ("Stop", "Close")):
            errs.append(("C10:op:unexpected-exception", "%r -> %s" % (op, res)))
        if k == "Start" and not closed:
            started = True
        elif k in ("Stop", "Close"):
            # whether it returned or raised: nothing more may be delivered
            started = False
            owed = []
            closed = closed or (k == "Close" and res == "ok")
        elif k == "Post" and started and j in changed_at:
            owed.append(["DPlay", op[1], op[2]])
        elif k == "Err" and started:
            owed.append(["DErr", op[1]])
        elif k == "SetL" and op[1] == "push":
            has_push_listener = op[2] != "none"
        elif k == "Take" and res == "ok":
            for w in op[2]:
                take[w] = op[1]
        elif k == "Rel":
            for w in op[1]:
                take[w] = None
        elif k == "Vol":
            vq.append(VOL_CANON[op[2]])
            if op[1] in level:
                level[op[1]] = VOL_CANON[op[2]]
        elif k in ("SetVol", "VolUp", "VolDown") and not closed and aregs:
            # the user's own change: applied and announced by the protocol serving audio -> the
            # listener must hear about it like about any other change
            am = min(aregs)
            level[am] = VOL_CANON[op[1]] if k == "SetVol" else (min(level[am] + 1, 20) if k == "VolUp" else max(level[am] - 1, 0))
            vq.append(level[am])
        elif k == "Dev":
            dq.append(op[2])
        elif k == "Focus":
            kmain = take["kbd"] if take["kbd"] in kregs else (min(kregs) if kregs else None)
            if kmain == op[1]:
                fq.append(op[2])
        main = take["push"] if take["push"] in regs else (min(regs) if regs else None)
        if k == "RunAll" and not stepped:
            # produced while started, nobody stopped since, its protocol serves metadata now (the holder of
            # the takeover if it has an updater, otherwise the highest-priority one): it must arrive
            must = [d for d in owed if d[1] == main] if has_push_listener else []
            it = iter([d for d in ds if d[0] in ("DPlay", "DErr")])
            if not all(any(x == y for y in it) for x in must):
                errs.append(("C10:active:update-of-active-protocol-lost",
                             "op %d %r delivered %r, but %r were produced by the active protocol %s while started" % (j, op, ds, must, main)))
            owed = []
        for d in ds:
            if d[0] == "Misdelivered":
                errs.append(("C10:listener:delivered-to-a-listener-not-assigned-now",
                             "op %d %r: a %s notification went to a listener object that is not the one assigned at delivery time" % (j, op, d[1])))
            if d[0] in ("DPlay", "DErr"):
                if not started:
                    errs.append(("C10:close:update-after-close" if closed else "C10:stop:queued-update-delivered",
                                 "%r delivered by op %d %r although push updates are stopped" % (d, j, op)))
                elif d[1] != main:
                    errs.append(("C10:active:update-from-inactive-protocol",
                                 "%r delivered while protocol %s serves metadata" % (d, main)))
    # comparers, judged on the whole run: calls must be exactly the adjacent unequal pairs
    # of the values delivered so far (a prefix of the accepted values), starting at the initial one
    for name, q in (("DVol", vq), ("DDev", dq), ("DFocus", fq)):
        calls = [(d[1], d[2]) for _, ds in outs for d in ds if d[0] == name]
        okay = False
        for cut in range(len(q), -1, -1):
            cur, exp = 0, []
            for v in q[:cut]:
                if v != cur:
                    exp.append((cur, v))
                cur = v
            if exp == calls:
                okay = True
                break
        if not okay:
            errs.append(("C10:%s:wrong-old-new" % {"DVol": "volume", "DDev": "outputdevices", "DFocus": "focus"}[name],
                         "calls %r are not the adjacent unequal pairs of any delivered prefix of %r" % (calls, q)))
        if ops and ops[-1][0] == "RunAll":
            cur, exp = 0, []
            for v in q:
                if v != cur:
                    exp.append((cur, v))
                cur = v
            if exp != calls and okay:
                errs.append(("C10:%s:missed-update" % {"DVol": "volume", "DDev": "outputdevices", "DFocus": "focus"}[name],
                             "after draining the loop calls %r, expected %r" % (calls, exp)))
    # completeness in the clear-cut regime: started once at the beginning, never stopped,
    # no takeover, everything drained at the end -> every changed post of the main updater arrives
    kinds = [op[0] for op in ops]
    if ops and kinds[0] == "Start" and kinds[-1] == "RunAll" and not any(k in ("Stop", "Close", "Take", "Rel", "Start", "SetL") for k in kinds[1:]) and has_push_listener:
        main = min(regs) if regs else None
        exp = [c for c in changed if c[0] == main]
        if plays != exp:
            errs.append(("C10:playstatus:missed-or-extra-update", "delivered %r, changed posts of the active protocol %r" % (plays, exp)))
        got_errs = [d[1] for _, ds in outs for d in ds if d[0] == "DErr"]
        exp_errs = [op[1] for op in ops if op[0] == "Err" and op[1] == main]
        if got_errs != exp_errs:
            errs.append(("C10:playstatus_error:missed-or-extra-error", "errors delivered from %r, errors reported by the active protocol %r" % (got_errs, exp_errs)))
    seen = {}
    for key, w in errs:
        seen.setdefault(key, w)
    return sorted(seen.items())


def judge(cfg, ops, manual):
    """Run one history (one or two device objects); returns the per-device cases, the property errors and
    the raw record."""
    raw = run_case(cfg, ops, manual)
    cases, leaked = project(cfg, ops, raw)
    errs = {}
    for dev, op, ds in leaked:
        errs.setdefault("C10:isolation:other-device-notified",
                        "listeners of device %d received %r while only the other device was operated (%r)" % (dev, ds, op))
    for n, (c, o, r) in enumerate(cases):
        for key, what in oracle(c, o, r):
            errs.setdefault(key, what if len(cases) == 1 else "device %d: %s" % (n + 1, what))
    return cases, sorted(errs.items()), raw


def with_twin(cfg, ops, twin_cfg, script):
    """The same history with a second, busy device object alongside: after each op that does not run the
    loop the other device performs the next op of `script`."""
    out, k = [], 0
    for op in ops:
        out.append(op)
        if op[0] not in ("RunAll", "Run1"):
            out.append(["@2", script[k % len(script)]])
            k += 1
    return dict(cfg, twin=twin_cfg), out


TWIN_CFG = {"protos": [[0, True, True, False, True], [2, True, True, False, False]]}
TWIN_SCRIPT = [["Vol", 0, 3], ["Dev", 0, 1], ["Focus", 0, 2], ["Start"], ["Post", 0, 1], ["SetVol", 19], ["Err", 0], ["Dev", 2, 4],
               ["Focus", 0, 1], ["Post", 0, 2], ["Vol", 2, 20]]


# ------------------------------------------------------------------ Coq terms

def c_cfg(cfg):
    return "{| regs := %s; kregs := %s; sraise := %s; aregs := %s; lfault := %s |}" % (
        common.clist([e[0] for e in cfg["protos"] if e[1]]), common.clist([e[0] for e in cfg["protos"] if e[2]]),
        common.clist([e[0] for e in cfg["protos"] if len(e) > 3 and e[3]]),
        common.clist([e[0] for e in cfg["protos"] if len(e) > 4 and e[4]]),
        common.clist(sorted(cfg.get("faults", ()))))


def c_op(op):
    k = op[0]
    if k in ("Post", "Vol", "Dev", "Focus"):
        v = VOL_CANON[op[2]] if k == "Vol" else op[2]      # values that are equal for a listener are one value
        return "%s %d %d" % ({"Post": "Post", "Vol": "DispVol", "Dev": "DispDev", "Focus": "DispFocus"}[k], op[1], v)
    if k == "Err":
        return "Err %d" % op[1]
    if k == "SetVol":
        return "SetVol %d" % VOL_CANON[op[1]]
    if k == "Take":
        return "Take %d %s" % (op[1], common.clist(["IPush" if w == "push" else "IKbd" for w in op[2]]))
    if k == "Rel":
        return "Rel %s" % common.clist(["IPush" if w == "push" else "IKbd" for w in op[1]])
    return k


def c_out(d):
    if d[0] == "Misdelivered":
        return "DErr 99"           # no model output: will not match
    return "%s %s" % (d[0], " ".join(str(x) for x in d[1:]))


def c_res(r):
    return {"ok": "ROk", "blocked": "RBlocked", "invalid": "RInvalid", "notsup": "RNotSup"}.get(r, "RRaise")


def c_case(cfg, ops, outs):
    # assigning a listener object is no event of the model (there always is one: histories with a
    # None push listener are judged by the oracle only, see modelled())
    keep = [j for j, o in enumerate(ops) if o[0] != "SetL"]
    return "(%s, %s, %s)" % (c_cfg(cfg), common.clist([c_op(ops[j]) for j in keep]),
                             common.clist(["(%s, %s)" % (common.clist([c_out(d) for d in outs[j][1]]), c_res(outs[j][0])) for j in keep]))


def modelled(cfg, ops):
    return not cfg.get("no_push_listener") and not any(o[0] == "SetL" and o[2] == "none" for o in ops)


# ------------------------------------------------------------------ generation

def rand_cfg(rng):
    n = rng.choice([1, 2, 2, 3, 3])
    ranks = rng.sample(range(5), n)
    protos = [[r, rng.random() < 0.8, rng.random() < 0.6, rng.random() < 0.15, rng.random() < 0.6] for r in ranks]
    if not any(p[1] for p in protos):
        protos[0][1] = True
    cfg = {"protos": protos}
    if rng.random() < 0.4:      # the user's listeners raise on some of the first notifications
        cfg["faults"] = sorted(rng.sample(range(6), rng.randint(1, 3)))
    return cfg


def rand_ops(rng, cfg, length, manual):
    ranks = [p[0] for p in cfg["protos"]]
    ops = []
    for _ in range(length):
        x = rng.random()
        if x < 0.28:
            # now and then an updater that is not registered with the facade (protocol not connected)
            ops.append(["Post", rng.choice(ranks + ranks + [rng.randrange(5)]), rng.randrange(NSTATUS)])
        elif x < 0.36:
            ops.append(["Err", rng.choice(ranks)])
        elif x < 0.44:
            ops.append(["Start"])
        elif x < 0.52:
            ops.append(["Stop"])
        elif x < 0.54:
            ops.append(["Close"])
        elif x < 0.62:
            ops.append(["Take", rng.choice(ranks + [rng.randrange(5)]), rng.choice([["push"], ["push"], ["kbd"], ["push", "kbd"], ["kbd", "push"], ["push", "push"], []])])
        elif x < 0.68:
            ops.append(["Rel", rng.choice([["push"], ["kbd"], ["push", "kbd"], []])])
        elif x < 0.76:
            ops.append(rng.choice([["Vol", rng.choice(ranks), rng.choice(VOL_PICK)], ["Vol", rng.choice(ranks), rng.choice(VOL_PICK)],
                                   ["SetVol", rng.choice(VOL_PICK)], ["VolUp"], ["VolDown"]]))
        elif x < 0.78:
            ops.append(["Dev", rng.choice(ranks), rng.randrange(len(DEV_VALUES))])
        elif x < 0.84:
            ops.append(["Focus", rng.choice(ranks + ranks + [rng.randrange(5)]), rng.randrange(3)])
        elif x < 0.88:
            kind = rng.choice(["push", "push", "aud", "kbd"])
            ops.append(["SetL", kind, rng.choice(["new", "same", "none"] if kind == "push" else ["new", "same"])])
        elif manual and x < 0.94:
            ops.append(["Run1"])
        else:
            ops.append(["RunAll"])
    if rng.random() < 0.5:
        ops.append(["RunAll"])
    return ops


EXH_CFGS = [
    {"protos": [[0, True, True]]},
    {"protos": [[1, True, False], [0, True, True]]},
    {"protos": [[3, True, True], [1, True, True], [2, False, True]]},
    # the updater that is stopped first fails in stop(); the main protocol's comes after it
    {"protos": [[1, True, False, True], [0, True, True, False]]},
]


def run(ctx):
    ok = ctx.build_property()
    if ctx.thorough:
        ctx.coqchk()
    maxlen = 5 if ctx.thorough else 4
    nrand = 30000 if ctx.thorough else 2500
    exh_cfgs = EXH_CFGS if ctx.thorough else EXH_CFGS[2:]
    ctx.rule = ("(a) corpus; (b) for %d fixed configurations (1..3 protocols) EVERY op sequence of length <= %d over "
                "{post(highest-priority proto, s0), post(same, s1), post(lowest-priority proto, s0), start, stop (with a configuration whose first "
                "updater raises from stop()), takeover(lowest, push), takeover(protocol without push updater, push), release, run-all}, as such on the real loop, and preceded by start on the real loop and on the stepped loop; "
                "(b') every sequence of length <= %d ending in run-all over {volume(hi,0), volume(hi,10.0), volume(lo,int 10), devices x2, "
                "focus(hi,1), focus(lo,2), keyboard takeover(lo), release, user set_volume(10.0), user set_volume(20.0), user volume_up, user volume_down "
                "(through the real FacadeAudio to a protocol Audio that applies and announces the level as RAOP/MRP/Companion do), run-all} - volumes include -0.0 and int 10 (equal to 0.0 / 10.0), device lists "
                "agree on the identifier and differ in the name (renamed, unnamed); (b'') start followed by every sequence of length <= %d ending in "
                "run-all over {error(hi), error(lo), post(hi), start, stop, close, takeover(lo), release, run-all} on both loops; "
                "(b4) start followed by every sequence of length <= %d ending in run-all over {start, stop, post x2, error, assign a new push listener, "
                "assign the same again, assign None, run-all} that assigns and posts, with and without a push listener before start (the listener assigned at "
                "delivery time gets it, nobody else; sequences with a None listener are judged by the oracle only); (b3) every ordered pair (a, b) of play statuses (5 with derived hash; one with explicit hash against each single-field variant of it, every field of Playing incl. hash alone) / 8 volumes / 5 device lists / 3 focus states reported as a, b, a and drained (and as a | a, b | a), each also with user listeners that raise on the first / on the first three notifications; "
                "(c) %d random sequences of length 4..16 over the full alphabet (post/error by any protocol (real MrpPushUpdater.state_updated) with 5+1+16 statuses (explicit hash, every single-field variant), start, stop, "
                "close, takeover/release of push and/or keyboard by any protocol, volume/output-device/focus dispatch (8/5/3 values), user set_volume/volume_up/volume_down, "
                "run-one (stepped loop only), run-all), random configuration, half on each loop; a quarter of them, the comparer block and the value pairs also with a SECOND device object "
                "(own facade, dispatcher and listeners) idle or busy in the same process, histories interleaved, each device judged against its own events.  distinct = (configuration, loop mode, sequence); "
                "non-trivial = a user listener received at least one call" % (len(exh_cfgs), maxlen, maxlen, maxlen, maxlen, nrand))
    cases = []
    shortest = {}      # violation key -> shortest failing sequence seen

    budget = 1500 if ctx.thorough else 200        # seconds for driving the implementation
    t_start = time.process_time()      # CPU time of this process: independent of the load on the machine
    over = []

    def one(cfg, ops, manual, kind):
        if time.process_time() - t_start > budget:
            # the implementation under test is far slower than the reference tree (e.g. state that piles up
            # from run to run): stop enumerating, report what was found
            if not over:
                over.append(kind)
            return
        percase, errs, raw = judge(cfg, ops, manual)
        cases.extend(c for c in percase if modelled(c[0], c[1]))     # two device objects: each one an ordinary case of its own
        ctx.count(kind)
        ctx.count("loop:" + ("stepped" if manual else "asyncio"))
        if len(percase) > 1:
            ctx.count("two-device-objects")
        ctx.case((json.dumps(cfg), manual, json.dumps(ops)), nontrivial=any(ds for rec in raw for ds in rec[1:]),
                 sample={"cfg": cfg, "manual_loop": manual, "ops": ops, "impl": raw})
        for key, what in errs:
            if key not in shortest or len(ops) < len(shortest[key][1]["ops"]):
                shortest[key] = (what, {"cfg": cfg, "manual_loop": manual, "ops": ops, "impl": raw})

    for fname, d in common.load_corpus(ctx.pid):
        r = d.get("replay", d)
        one(r["cfg"], r["ops"], bool(r.get("manual_loop")), "corpus")
    for cfg in exh_cfgs:
        ranks = sorted(p[0] for p in cfg["protos"] if p[1])
        hi, lo = ranks[0], ranks[-1]
        # a protocol WITHOUT a push updater (connected without one, or not connected at all) that takes over
        nopush = ([e[0] for e in cfg["protos"] if not e[1]] + [r for r in range(4, -1, -1) if r not in [e[0] for e in cfg["protos"]]])[0]
        alpha = [["Post", hi, 0], ["Post", hi, 1], ["Post", lo, 0], ["Start"], ["Stop"], ["Take", lo, ["push"]], ["Take", nopush, ["push"]],
                 ["Rel", ["push"]], ["RunAll"]]
        for length in range(1, maxlen + 1):
            for seq in itertools.product(alpha, repeat=length):
                if not any(o[0] == "RunAll" for o in seq):
                    continue        # nothing observable without running the loop
                one(cfg, list(seq), False, "exhaustive-len%d" % length)
                for manual in (False, True):
                    one(cfg, [["Start"]] + list(seq), manual, "exhaustive-len%d" % length)
    # (b') the comparers: every sequence over volume / focus dispatches, keyboard takeover, run
    # user-initiated volume changes through the facade (set_volume / volume_up / volume_down relayed to the
    # protocol's Audio, which announces the level) interleaved with device-side changes
    cfg = {"protos": [[3, True, True, False, True], [1, True, True, False, True], [2, False, True, False, False]]}
    kr = sorted(p[0] for p in cfg["protos"] if p[2])
    khi, klo = kr[0], kr[-1]
    alpha = [["Vol", khi, 0], ["Vol", khi, 2], ["Vol", klo, 22], ["Dev", khi, 1], ["Dev", khi, 2], ["Focus", khi, 1], ["Focus", klo, 2],
             ["Take", klo, ["kbd"]], ["Rel", ["kbd"]], ["SetVol", 2], ["SetVol", 4], ["VolUp"], ["VolDown"], ["RunAll"]]
    for length in range(1, maxlen + 1):
        for seq in itertools.product(alpha, repeat=length):
            if seq[-1][0] != "RunAll":
                continue            # same observations as the sequence without its unobserved tail
            one(cfg, list(seq), bool(length % 2), "exhaustive-comparers-len%d" % length)
            if length < maxlen:      # the same with user listeners that raise on the first two notifications
                one(dict(cfg, faults=[0, 1]), list(seq), bool(length % 2), "exhaustive-comparers-len%d" % length)
                # ... and with a second device object alongside: idle, and busy with changes of its own
                one(dict(cfg, twin=TWIN_CFG), list(seq), False, "exhaustive-comparers-len%d" % length)
                if length < maxlen - 1:
                    one(*with_twin(cfg, list(seq), TWIN_CFG, TWIN_SCRIPT), False, "exhaustive-comparers-len%d" % length)
    # (b'') the error path: a protocol's updater reports an error (real MrpPushUpdater.state_updated ->
    # loop.call_soon(listener.playstatus_error, ...)) around start / stop / close / takeover
    cfg = EXH_CFGS[1]
    pr = sorted(p[0] for p in cfg["protos"] if p[1])
    hi, lo = pr[0], pr[-1]
    alpha = [["Err", hi], ["Err", lo], ["Post", hi, 0], ["Start"], ["Stop"], ["Close"], ["Take", lo, ["push"]], ["Rel", ["push"]], ["RunAll"]]
    for length in range(1, maxlen + 1):
        for seq in itertools.product(alpha, repeat=length):
            if seq[-1][0] != "RunAll":
                continue
            for manual in (False, True):
                one(cfg, [["Start"]] + list(seq), manual, "exhaustive-errors-len%d" % length)
    # (b3) value equality: every ordered pair of values of each kind, reported one after the other
    # by the active protocol in the steady regime - the listener must be called iff the two differ in any field
    cfg = EXH_CFGS[0]
    r0 = cfg["protos"][0][0]
    # ... each also with a user listener that raises on its first / on every notification: a delivery that
    # raised was still a delivery (the next old value is the one the listener was told)
    for plan in ([], [0], [0, 1, 2]):
        cfgp = dict(cfg, faults=plan) if plan else cfg
        spairs = [(a, b) for a in range(STATUS_BASE) for b in range(STATUS_BASE)]
        spairs += [(STATUS_BASE, k) for k in range(STATUS_BASE + 1, NSTATUS)] + [(k, STATUS_BASE) for k in range(STATUS_BASE + 1, NSTATUS)]
        for a, b in spairs:
                one(cfgp, [["Start"], ["Post", r0, a], ["Post", r0, b], ["Post", r0, a], ["RunAll"]], bool((a + b) % 2), "value-pairs")
        for kind, dom in (("Vol", VOL_PICK), ("Dev", range(len(DEV_VALUES))), ("Focus", range(3))):
            for a in dom:
                for b in dom:
                    one(cfgp, [[kind, r0, a], [kind, r0, b], [kind, r0, a], ["RunAll"]], bool((a + b) % 2), "value-pairs")
                    one(cfgp, [[kind, r0, a], ["RunAll"], [kind, r0, a], [kind, r0, b], ["RunAll"], [kind, r0, a], ["RunAll"]], bool((a + b) % 2), "value-pairs")
                    if not plan:      # ... and with a second, busy device object in the same process
                        one(*with_twin(cfgp, [[kind, r0, a], [kind, r0, b], ["RunAll"], [kind, r0, a], ["RunAll"]], TWIN_CFG, TWIN_SCRIPT), False, "value-pairs")
    # (b4) the user assigns the push listener (a new object, the same again, None) before and after start():
    # the listener assigned when a status is DELIVERED gets it, nobody else
    for cfg in (EXH_CFGS[0], dict(EXH_CFGS[0], no_push_listener=True)):
        r0 = cfg["protos"][0][0]
        alpha = [["Start"], ["Stop"], ["Post", r0, 0], ["Post", r0, 1], ["Err", r0], ["SetL", "push", "new"], ["SetL", "push", "same"],
                 ["SetL", "push", "none"], ["RunAll"]]
        for length in range(1, maxlen + 1):
            for seq in itertools.product(alpha, repeat=length):
                kinds = set(o[0] for o in seq)
                if seq[-1][0] == "RunAll" and "SetL" in kinds and ("Post" in kinds or "Err" in kinds):
                    one(cfg, [["Start"]] + list(seq), bool(length % 2), "exhaustive-listener-len%d" % length)
    for kind, op1, op2 in (("aud", ["Vol", 0, 2], ["Vol", 0, 3]), ("aud", ["Dev", 0, 1], ["Dev", 0, 2]), ("kbd", ["Focus", 0, 1], ["Focus", 0, 2])):
        for what in ("new", "same"):
            one(EXH_CFGS[0], [op1, ["SetL", kind, what], op2, ["RunAll"], op1, ["RunAll"], ["SetL", kind, what], op2, ["RunAll"]], False, "exhaustive-listener-len4")
    ctx.exhaustive = True
    for i in range(nrand):
        cfg = rand_cfg(ctx.rng)
        manual = bool(i % 2)
        if i % 4 == 0:
            # two device objects in one process, histories interleaved, each judged against its own events
            cfg2 = rand_cfg(ctx.rng)
            a = [o for o in rand_ops(ctx.rng, cfg, ctx.rng.randint(4, 12), False)]
            b = [o for o in rand_ops(ctx.rng, cfg2, ctx.rng.randint(2, 10), False) if o[0] != "RunAll"]
            ops = []
            while a or b:
                if b and (not a or ctx.rng.random() < 0.4):
                    ops.append(["@2", b.pop(0)])
                else:
                    ops.append(a.pop(0))
            one(dict(cfg, twin=cfg2), ops + [["RunAll"]], False, "random")
            continue
        one(cfg, rand_ops(ctx.rng, cfg, ctx.rng.randint(4, 16), manual), manual, "random")
    ctx.traces = len(cases)
    if over:
        ctx.exhaustive = False
        ctx.tie_broken("budget:enumeration-cut-short", "driving the implementation took more than %d s; stopped in family %r after %d cases"
                       % (budget, over[0], len(cases)))
    for key in sorted(shortest):
        ctx.violation(key, shortest[key][0], shortest[key][1])
    items = []
    per = 1200
    for i in range(0, len(cases), per):
        chunk = cases[i:i + per]
        txt = ("From Coq Require Import List. Import ListNotations.\n"
               "From PV Require Import Common.Cases C10.Spec C10.Model.\n"
               "Definition cases : list (cfg * list op * list (list out * res)) := [\n%s\n].\n"
               "Eval vm_compute in (bad_indices check_case cases).\n"
               % ";\n".join(c_case(*c) for c in chunk))
        items.append(("cases_%03d" % (i // per), txt))
    if ok:
        res = common.coq_run_many(items, ctx.pid)
        for name, (rc, out) in sorted(res.items()):
            bad = common.parse_eval_nat_list(out) if rc == 0 else None
            if bad is None:
                ctx.tie_broken("correspondence:" + name, out)
            elif bad:
                base = int(name.split("_")[1]) * per
                for b in bad[:3]:
                    cfg, ops, outs = cases[base + b]
                    ctx.tie_broken("correspondence:push-and-comparers", json.dumps({"cfg": cfg, "ops": ops, "impl": outs}))
    ctx.trusted += [
        "hand-written model coq/C10/Model.v of AbstractPushUpdater.post_update, FacadePushUpdater.start/stop/playstatus_update/playstatus_error, "
        "Relayer.main_instance/main_protocol/takeover/release, FacadeAppleTV.takeover (rollback), FacadeAudio._volume_changed/_output_devices_changed, "
        "FacadeKeyboard._focus_state_changed and its dispatch-time filter, MessageDispatcher.dispatch; tied by the differential run of this file, evaluated in Coq",
        "mock protocols whose push updater is the real MrpPushUpdater (state_updated -> post_update / call_soon(listener.playstatus_error)) with a fake metadata source and inert start/stop; recording listeners",
        "harness/vloop.py + StepLoop in harness/c10.py: in stepped mode call-backs scheduled by pyatv modules are run one at a time from a FIFO of the harness; "
        "in asyncio mode the genuine loop orders them",
    ]
    ctx.assumptions += [
        "asyncio runs call_soon call-backs in FIFO order (exercised in asyncio mode, assumed in the model)",
        "play statuses are compared by value (interface.Playing.__eq__); volumes are ordinary floats (no NaN: excluded by the C20 guard)",
        "user listeners are alive and do not call back into the facade from inside a notification (they may raise: cfg.faults)",
        "priority order MRP > DMAP > Companion > AirPlay > RAOP (property C01); takeover tokens are released at most once (C01 side condition)",
    ]


def replay(ctx, path):
    d = json.load(open(path))
    r = d.get("replay", d)
    manual = bool(r.get("manual_loop"))
    _, errs, raw = judge(r["cfg"], r["ops"], manual)
    print("cfg=%s loop=%s" % (json.dumps(r["cfg"]), "stepped" if manual else "asyncio"))
    for op, rec in zip(r["ops"], raw):
        print("  %-36s -> %-8s delivered=%s" % (op, rec[0], rec[1] if len(rec) == 2 else {"device1": rec[1], "device2": rec[2]}))
    print("property-errors=%s" % errs)
    return 1 if errs else 0
