"""Runs real pyatv.scan() deliveries (through harness/c12.py's driver) for C05 in a separate
process so that a hang - even inside C code such as a regular expression - can be detected and
attributed.  stdin: JSON list of jobs {"mode": "m", "feed": [[src, hex], ...]} or {"mode": "u", "feed": [[hex, ...] per host]}; one JSON result per line."""
import json
import logging
import sys

logging.disable(logging.CRITICAL)


def main():
    import c12
    jobs = json.load(sys.stdin)
    for j in jobs:
        mode = j.get("mode", "m")
        if mode == "m":
            feed = [(src, bytes.fromhex(h)) for src, h in j["feed"]]
        else:
            feed = [[bytes.fromhex(h) for h in host] for host in j["feed"]]
        res = {"err": None, "obs": None}
        try:
            obs, info = c12.run_scan(mode, None, None, feed)
            res["obs"] = obs
        except BaseException as ex:  # noqa
            res["err"] = "%s: %s" % (type(ex).__name__, ex)
        sys.stdout.write(json.dumps(res) + "\n")
        sys.stdout.flush()


if __name__ == "__main__":
    main()
