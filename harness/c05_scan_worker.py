"""Runs real pyatv.scan() deliveries (through harness/c12.py's driver) for C05 in a separate
process so that a hang - even inside C code such as a regular expression - can be detected and
attributed.  stdin: JSON list of jobs {"mode": "m", "feed": [[src, hex], ...]} or {"mode": "u", "feed": [[hex, ...] per host]}; one JSON result per line."""
import json
import logging
import sys

logging.disable(logging.CRITICAL)


def zeroconf_scan(c12, records):
    """The third scanner of pyatv.scan(): ZeroconfMulticastScanner reading a zeroconf cache.  The
    cache is a real zeroconf DNSCache filled with the announced records; no socket is opened."""
    import asyncio
    import socket
    import pyatv
    import vloop
    from zeroconf import DNSAddress, DNSCache, DNSPointer, DNSService, DNSText, current_time_millis
    from zeroconf.const import _CLASS_IN, _TYPE_A, _TYPE_PTR, _TYPE_SRV, _TYPE_TXT

    class ZC:
        def __init__(self):
            self.cache = DNSCache()

    class AZC:
        def __init__(self):
            self.zeroconf = ZC()

    def fq(labels):
        return ".".join(labels) + "."

    azc = AZC()
    now = current_time_millis()
    recs = []
    for r in records:
        t = r["type"]
        if t == c12.T_PTR:
            recs.append(DNSPointer(fq(r["name"]), _TYPE_PTR, _CLASS_IN, 4500, fq(r["target"]), now))
        elif t == c12.T_SRV:
            recs.append(DNSService(fq(r["name"]), _TYPE_SRV, _CLASS_IN, 4500, r["prio"], r["weight"], r["port"], fq(r["target"]), now))
        elif t == c12.T_TXT:
            raw = b"".join(bytes([len(c)]) + c for c in (c12.txt_chunk(ch) for ch in r["txt"]))
            recs.append(DNSText(fq(r["name"]), _TYPE_TXT, _CLASS_IN, 4500, raw, now))
        elif t == c12.T_A:
            recs.append(DNSAddress(fq(r["name"]), _TYPE_A, _CLASS_IN, 4500, socket.inet_aton(c12.ip_str(r["ip"])), now))
    azc.zeroconf.cache.async_add_records(recs)

    # a service that is not completely in the cache would be asked for on the network: nobody
    # answers (the request times out and reports "not found")
    from zeroconf.asyncio import AsyncServiceInfo

    async def nobody_answers(self, zc, timeout, *a, **k):
        return False
    saved = AsyncServiceInfo.async_request
    AsyncServiceInfo.async_request = nobody_answers

    async def go():
        return await pyatv.scan(asyncio.get_event_loop(), timeout=1, aiozc=azc)
    try:
        return c12.observe(vloop.run(go))
    finally:
        AsyncServiceInfo.async_request = saved


def main():
    import c12
    jobs = json.load(sys.stdin)
    for j in jobs:
        mode = j.get("mode", "m")
        if mode == "z":
            feed = None
        elif mode == "m":
            feed = [(src, bytes.fromhex(h)) for src, h in j["feed"]]
        else:
            feed = [[bytes.fromhex(h) for h in host] for host in j["feed"]]
        res = {"err": None, "obs": None}
        try:
            if mode == "z":
                obs = zeroconf_scan(c12, j["records"])
            else:
                obs, info = c12.run_scan(mode, None, None, feed)
            res["obs"] = obs
        except BaseException as ex:  # noqa
            res["err"] = "%s: %s" % (type(ex).__name__, ex)
        sys.stdout.write(json.dumps(res) + "\n")
        sys.stdout.flush()


if __name__ == "__main__":
    main()
