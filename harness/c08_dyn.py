"""C08 (fault-enumeration part) - pairing is all-or-nothing, judged on the REAL pairing handlers.

Every pairing handler (MRP, Companion, AirPlay HAP, AirPlay legacy, RAOP, DMAP) is driven through
begin(); pin(); finish() against an in-memory fake device.  No network: the event loop's
create_connection is replaced by an in-memory pipe, time is virtual (harness/vloop.py), so a dropped
reply becomes the library's own timeout instantly.  The fake devices speak the protocols honestly
(they are built on the server-side helpers shipped in pyatv: protocols/{mrp,companion,airplay}/
server_auth.py; the legacy AirPlay device is written here on srptools/cryptography) and a fault plan
replaces exactly ONE reply of the exchange (single-fault model: every other reply stays honest).

Quantifier (property text): handler x message index of the exchange x fault kind
   error      - the reply is replaced by an error reply (error TLV / HTTP error status)
   wrong_pin  - the user enters a PIN the device does not accept (device answers honestly)
   drop       - the reply never arrives (library timeout, virtual time)
   garbage    - raw garbage bytes on the wire / a well-framed reply with a garbage payload
   missing    - the reply arrives with one required field removed (each field in turn, also the
                fields inside the encrypted part of M6 / verify-M2)
   malformed  - one item is present but EMPTY (zero length) or of the WRONG LENGTH (one byte short,
                one byte long, half) - every item of every step, also inside the encrypted part
   tamper     - one item has a bit changed (right length, still well-formed): authenticity, C06
   disconnect - the device closes the connection instead of replying (clean EOF and reset)
   refused    - the connection cannot be opened at all
each crossed with what was STORED BEFORE in service and settings: the valid credentials (two different
strings), nothing, only one of the two, valid credentials of another kind, and strings that do not
parse (three / five fields, an empty field, odd hex, garbage, empty string, another protocol's format);
after a failed attempt both stores must hold byte for byte what they held before.
Every begin()/finish() is bounded in VIRTUAL time: a call that has not returned after 120 virtual
seconds with nothing else scheduled is reported as never-returns-on-silent-device:<step>.
plus the fault-free run, API misuse (finish() without pin / without begin()), cancellation of
begin()/finish() while it waits for each reply AND after k turns of the event loop for every k until
the call completes; each with credentials stored before (service and settings, different values) and
as first-time pairing (nothing stored).  DMAP: handle_request with fake requests for PINs
0, 1, 7, 1234, 9999, None x {correct code, other PINs' codes, other guid, garbage, missing}; requests
with the right code but missing / empty / extra query fields; user-supplied pairing guids (top bit
set, short, wider than 64 bits, not hex, empty) - each followed by finish().  A request the remote
got no pairing answer to (status != 200) must leave has_paired False and nothing written.

Several attempts on ONE handler object (success then a failing attempt at each reply, failure then a
complete attempt, success twice, ...): every attempt is judged relative to what was stored when it
started; after a failed attempt has_paired must be False even if an earlier attempt succeeded
(key has-paired-after-failed-retry); an attempt that reports success must have recorded ITS
credentials (retry-not-recorded).  A handler may refuse to be reused, but loudly and consistently.

All key material (os.urandom, srptools' SystemRandom) is drawn from a PRNG seeded by spec['rseed']
(default 1), so every run - and every replay - is exactly reproducible.  The runs are independent
functions of their spec and are spread over worker processes.

coq/C08/DynModel.v is the decision table "first reply that is not honest => which call ends, how,
nothing stored; none => everything stored" (theorems for EVERY fault pattern in DynProperties.v);
each run that the oracle does not already report is compared with it inside Coq (check_case).

What the code promises for the exception class (pyatv/support/__init__.py error_handler):
   OSError / asyncio.TimeoutError       -> exceptions.ConnectionFailedError
   BackOffError / NoCredentialsError    -> passed through
   anything else                        -> exceptions.PairingError (the fallback passed by every handler)
   outside error_handler: AirPlay begin() awaits http_connect() unprotected -> OSError may surface;
   finish() raises PairingError itself for "no pin"/"not started".
so the oracle accepts exactly PairingError, ConnectionFailedError, ConnectionLostError, BackOffError,
NoCredentialsError, and OSError only from AirPlay/RAOP begin().
"""
import asyncio
import binascii
import hashlib
import json
import os
import plistlib
import random

import common
import vloop

PIN = 1111                    # pyatv.auth.server_auth.PIN_CODE (the MRP/Companion helpers hard-code it)
OLD_SERVICE = {               # previously stored credentials (service object)
    "mrp": None, "companion": None, "airplay_hap": None, "airplay_legacy": None, "raop": None, "dmap": "0xAAAABBBBCCCCDDDD",
}
HANDLERS = ["mrp", "companion", "airplay_hap", "airplay_legacy", "raop", "dmap"]

STORED_VARIANTS = ["other-kind", "three-field", "five-field", "empty-field", "truncated-odd", "garbage", "empty-string", "old-format"]


def stored_variant(handler, name):
    """Previously stored credentials that are NOT the valid ones of old_credentials(): valid ones of
    another kind, and strings that do not parse (as a user's storage file may well contain).  The same
    string is put into the service and into the settings; the oracle compares byte for byte."""
    from pyatv.auth.server_auth import CLIENT_CREDENTIALS
    legacy = "0011223344556677:" + "AB" * 32
    valid = legacy if handler in ("airplay_legacy", "raop") else CLIENT_CREDENTIALS
    parts = CLIENT_CREDENTIALS.split(":")
    v = {
        "other-kind": CLIENT_CREDENTIALS if handler in ("airplay_legacy", "raop") else legacy,
        "three-field": ":".join(parts[:3]),
        "five-field": CLIENT_CREDENTIALS + ":00",
        "empty-field": ":".join(parts[:3]) + ":",
        "truncated-odd": valid[:-7],
        "garbage": "not credentials at all \u00e4",
        "empty-string": "",
        "old-format": "0x0123456789ABCDEF",
    }[name]
    if handler == "dmap" and name == "old-format":
        v = CLIENT_CREDENTIALS
    return v, v


SETTINGS_ATTR = {"mrp": "mrp", "companion": "companion", "airplay_hap": "airplay", "airplay_legacy": "airplay",
                 "raop": "raop", "raop_hap": "raop", "dmap": "dmap"}


def old_credentials(handler):
    """(service.credentials, settings.protocols.<p>.credentials) stored before the run.  They are
    valid HAP credentials for the fake device (pyatv.auth.server_auth.CLIENT_CREDENTIALS), so the
    Companion handler - which runs pair-verify with stored credentials when it connects - gets past
    that; the settings copy differs in its last digit so that the two stores are observed separately."""
    from pyatv.auth.server_auth import CLIENT_CREDENTIALS
    if handler == "dmap":
        return "0xAAAABBBBCCCCDDDD", "0xAAAABBBBCCCCDDDE"
    if handler in ("airplay_legacy", "raop"):
        return "0011223344556677:" + "AB" * 32, "0011223344556677:" + "AC" * 32
    return CLIENT_CREDENTIALS, CLIENT_CREDENTIALS[:-1] + "2"


# ------------------------------------------------------------------------------------ in-memory pipe

class FakeSock:
    def getpeername(self):
        return ("10.0.0.2", 7000)

    def getsockname(self):
        return ("10.0.0.1", 50000)

    def setsockopt(self, *a):
        pass


class Pipe(asyncio.Transport):
    """Client side transport; the other end is a fake device object with data_received()."""

    def __init__(self, loop, proto, device):
        super().__init__()
        self.loop = loop
        self.proto = proto
        self.device = device
        self.closed = False
        self.client_closed = False
        device.pipe = self

    # -- client -> device
    def write(self, data):
        if not self.closed:
            self.loop.call_soon(self._to_device, bytes(data))

    def _to_device(self, data):
        if not self.closed:
            self.device.data_received(data)

    def close(self):
        if not self.closed:
            self.closed = True
            self.client_closed = True
            self.loop.call_soon(self.proto.connection_lost, None)

    abort = close

    def is_closing(self):
        return self.closed

    def can_write_eof(self):
        return False

    def get_extra_info(self, name, default=None):
        if name == "socket":
            return FakeSock()
        if name == "peername":
            return ("10.0.0.2", 7000)
        if name == "sockname":
            return ("10.0.0.1", 50000)
        return default

    # -- device -> client
    def to_client(self, data):
        if not self.closed:
            self.loop.call_soon(self._deliver, bytes(data))

    def _deliver(self, data):
        if not self.closed:
            self.proto.data_received(data)

    def device_disconnect(self, exc):
        if not self.closed:
            self.closed = True
            self.loop.call_soon(self.proto.connection_lost, exc)


class Plan:
    """Which reply of the exchange is faulted and how.  Reply numbers count every reply the device
    would send on this connection, starting at 0."""

    def __init__(self, index=None, kind=None, sub=None, garbage=b"", hold=False):
        self.index = index
        self.kind = kind
        self.sub = sub
        self.garbage = garbage
        self.hold = hold              # cancellation: the reply is withheld and `blocked` is set
        self.count = 0
        self.hit = False
        self.blocked = False
        self.names = []

    def next(self, name):
        """-> True when this reply is the faulted one."""
        n = self.count
        self.count += 1
        self.names.append(name)
        if self.index is not None and n == self.index:
            self.hit = True
            if self.hold:
                self.blocked = True
            return True
        return False


class Device:
    """Shared reply path: honest reply -> (maybe) fault -> wire."""
    pipe = None
    plan = None

    def emit(self, name, honest):
        """honest: protocol-level reply object (see subclasses)."""
        plan = self.plan
        if not plan.next(name):
            self.pipe.to_client(self.encode(honest))
            return
        if plan.hold or plan.kind == "drop":
            return
        if plan.kind == "disconnect":
            self.pipe.device_disconnect(ConnectionResetError("reset by peer") if plan.sub == "reset" else None)
            return
        if plan.kind == "garbage" and plan.sub == "wire":
            self.pipe.to_client(plan.garbage)
            return
        mutated = self.mutate(name, honest, plan)
        if mutated is None:
            plan.hit = False          # this fault does not apply to this reply (e.g. no such field)
            mutated = honest
        self.pipe.to_client(self.encode(mutated))


def tlv_without(tlv, field):
    from pyatv.auth.hap_tlv8 import read_tlv, write_tlv
    d = read_tlv(tlv)
    if field not in d:
        return None
    del d[field]
    return write_tlv(d)


def tlv_tampered(tlv, field, how):
    from pyatv.auth.hap_tlv8 import read_tlv, write_tlv
    d = read_tlv(tlv)
    if field not in d:
        return None
    v = bytes(d[field])
    if how == "flip":
        v = v[:-1] + bytes([v[-1] ^ 0x01]) if v else b"\x01"
    elif how == "truncate":
        v = v[: len(v) // 2]
    elif how == "empty":
        v = b""
    elif how == "short":
        v = v[:-1]
    elif how == "long":
        v = v + b"\x00"
    d[field] = v
    return write_tlv(d)


def tlv_tags(data):
    """Tags of a byte string read as TLV8 (own reader, tolerant)."""
    tags, pos = set(), 0
    while pos + 1 < len(data):
        tags.add(data[pos])
        pos += 2 + data[pos + 1]
    return tags


def error_tlv(seqno, code=2):
    from pyatv.auth.hap_tlv8 import TlvValue, write_tlv
    return write_tlv({TlvValue.SeqNo: bytes([seqno]), TlvValue.Error: bytes([code])})


def seq_of(tlv):
    from pyatv.auth.hap_tlv8 import TlvValue, read_tlv
    try:
        return read_tlv(tlv)[TlvValue.SeqNo][0]
    except Exception:  # noqa
        return 0


FIELD = {"Salt": 2, "PublicKey": 3, "Proof": 4, "EncryptedData": 5, "SeqNo": 6, "Identifier": 1, "Signature": 10}


def mutate_tlv(tlv, plan, reencrypt=None):
    """Common TLV-level mutations.  reencrypt(field_no, how) handles fields inside the encrypted
    part (sub = 'inner:<Field>')."""
    if plan.kind == "error":
        sub = str(plan.sub or "2")
        if sub.endswith("+fields"):       # the honest fields plus an error item
            from pyatv.auth.hap_tlv8 import TlvValue, read_tlv, write_tlv
            d = read_tlv(tlv)
            d[TlvValue.Error] = bytes([int(sub.split("+")[0])])
            return write_tlv(d)
        return error_tlv(seq_of(tlv), int(sub))
    if plan.kind == "garbage":       # sub == 'payload'
        return plan.garbage
    if plan.kind in ("missing", "tamper", "malformed"):
        sub = plan.sub or ""
        how = "flip"
        if plan.kind != "missing" and "/" in sub:
            sub, how = sub.split("/")
        if sub.startswith("inner:"):
            if reencrypt is None or sub[6:] not in FIELD:
                return None
            return reencrypt(FIELD[sub[6:]], how if plan.kind != "missing" else None)
        if sub not in FIELD:
            return None
        if plan.kind == "missing":
            return tlv_without(tlv, FIELD[sub])
        return tlv_tampered(tlv, FIELD[sub], how)
    return None


# ------------------------------------------------------------------------------------ MRP device

def make_mrp_device(plan):
    from pyatv.protocols.mrp import messages, protobuf
    from pyatv.protocols.mrp.server_auth import MrpServerAuth
    from pyatv.support.variant import read_variant, write_variant
    from pyatv.auth.hap_tlv8 import TlvValue, read_tlv, write_tlv
    from pyatv.auth.hap_srp import hkdf_expand
    from pyatv.support import chacha20

    class MrpDevice(MrpServerAuth, Device):
        def __init__(self):
            MrpServerAuth.__init__(self, "Fake MRP")
            self.plan = plan
            self.buf = b""
            self.setup_done = False
            self.verified = False

        def data_received(self, data):
            self.buf += data
            while self.buf:
                try:
                    length, raw = read_variant(self.buf)
                except Exception:  # noqa
                    return
                if len(raw) < length:
                    return
                body, self.buf = raw[:length], raw[length:]
                msg = protobuf.ProtocolMessage()
                msg.ParseFromString(body)
                if msg.type == protobuf.DEVICE_INFO_MESSAGE:
                    self.handle_device_info(msg, msg.inner())
                elif msg.type == protobuf.CRYPTO_PAIRING_MESSAGE:
                    try:
                        self.handle_crypto_pairing(msg, msg.inner())
                    except Exception:  # noqa  - a device that cannot process the request answers with an error
                        self.send_to_client(messages.crypto_pairing({TlvValue.SeqNo: b"\x00", TlvValue.Error: b"\x01"}))

        def send_to_client(self, message):
            if message.type == protobuf.DEVICE_INFO_MESSAGE:
                name = "device-info"
            else:
                tlv = read_tlv(message.inner().pairingData)
                seq = tlv.get(TlvValue.SeqNo, b"\x00")[0]
                name = ("pv-m%d" if (self.has_paired and self.setup_done) else "ps-m%d") % seq
                if seq == 6 and not self.setup_done and TlvValue.Error not in tlv:
                    self.setup_done = True
                    name = "ps-m6"
                if name == "pv-m4":
                    self.verified = True
            self.emit(name, message)

        def encode(self, message):
            if isinstance(message, bytes):
                return message
            s = message.SerializeToString()
            return write_variant(len(s)) + s

        def enable_encryption(self, output_key, input_key):
            pass

        def mutate(self, name, honest, plan):
            if name == "device-info":
                if plan.kind == "garbage":
                    s = plan.garbage
                    return write_variant(len(s)) + s
                return None
            tlv = honest.inner().pairingData

            def reencrypt(field, how):
                # fields inside the encrypted part of ps-m6 / pv-m2
                d = read_tlv(tlv)
                if TlvValue.EncryptedData not in d:
                    return None
                if name == "ps-m6":
                    key = hkdf_expand("Pair-Setup-Encrypt-Salt", "Pair-Setup-Encrypt-Info", binascii.unhexlify(self.session.key))
                    nonce = b"PS-Msg06"
                elif name == "pv-m2":
                    key = self._pv_session_key
                    nonce = b"PV-Msg02"
                else:
                    return None
                ch = chacha20.Chacha20Cipher8byteNonce(key, key)
                inner = ch.decrypt(bytes(d[TlvValue.EncryptedData]), nonce=nonce)
                inner2 = tlv_without(inner, field) if how is None else tlv_tampered(inner, field, how)
                if inner2 is None:
                    return None
                ch = chacha20.Chacha20Cipher8byteNonce(key, key)
                d[TlvValue.EncryptedData] = ch.encrypt(inner2, nonce=nonce)
                return write_tlv(d)

            new = mutate_tlv(tlv, plan, reencrypt)
            if new is None:
                return None
            m = protobuf.ProtocolMessage()
            m.CopyFrom(honest)
            m.inner().pairingData = new
            return m

        def _m1_verify(self, pairing_data):
            from cryptography.hazmat.primitives.asymmetric.x25519 import X25519PublicKey
            shared = self.keys.verify.exchange(X25519PublicKey.from_public_bytes(pairing_data[TlvValue.PublicKey]))
            self._pv_session_key = hkdf_expand("Pair-Verify-Encrypt-Salt", "Pair-Verify-Encrypt-Info", shared)
            self._pv_shared = shared
            self._pv_client_pub = bytes(pairing_data[TlvValue.PublicKey])
            MrpServerAuth._m1_verify(self, pairing_data)

        def _m3_verify(self, pairing_data):
            # an honest device checks the controller's signature (the shipped helper does not)
            ch = chacha20.Chacha20Cipher8byteNonce(self._pv_session_key, self._pv_session_key)
            ch.decrypt(bytes(pairing_data[TlvValue.EncryptedData]), nonce=b"PV-Msg03")
            MrpServerAuth._m3_verify(self, pairing_data)

    return MrpDevice()


# ------------------------------------------------------------------------------------ Companion device

def make_companion_device(plan):
    from pyatv.protocols.companion.server_auth import CompanionServerAuth
    from pyatv.protocols.companion.connection import FrameType
    from pyatv.auth.hap_tlv8 import TlvValue, read_tlv, write_tlv
    from pyatv.auth.hap_srp import hkdf_expand
    from pyatv.support import chacha20, opack

    class CompanionDevice(CompanionServerAuth, Device):
        def __init__(self):
            CompanionServerAuth.__init__(self, "Fake Companion")
            self.plan = plan
            self.buf = b""
            self.chacha = None
            self.paired = False

        def has_paired(self):
            self.paired = True

        def enable_encryption(self, output_key, input_key):
            self.chacha = chacha20.Chacha20Cipher(output_key, input_key, nonce_length=12)

        def data_received(self, data):
            self.buf += data
            while len(self.buf) >= 4:
                n = 4 + int.from_bytes(self.buf[1:4], "big")
                if len(self.buf) < n:
                    return
                header, payload, self.buf = self.buf[:4], self.buf[4:n], self.buf[n:]
                try:
                    ft = FrameType(header[0])
                    if self.chacha and payload:
                        payload = self.chacha.decrypt(payload, aad=header)
                    obj, _ = opack.unpack(payload)
                    self._verify_round = ft in (FrameType.PV_Start, FrameType.PV_Next)
                    self.handle_auth_frame(ft, obj)
                except Exception:  # noqa - a device that cannot process the request answers with an error
                    ft2 = FrameType.PV_Next if header[0] in (5, 6) else FrameType.PS_Next
                    self.send_to_client(ft2, {"_pd": error_tlv(0, 1)})

        def send_to_client(self, frame_type, data):
            seq = seq_of(data.get("_pd", b"")) if isinstance(data, dict) else 0
            name = ("pv-m%d" if frame_type == FrameType.PV_Next else "ps-m%d") % seq
            self.emit(name, (frame_type, data))

        def encode(self, reply):
            if isinstance(reply, bytes):
                return reply
            frame_type, data = reply
            body = opack.pack(data)
            n = len(body) + (16 if self.chacha and body else 0)
            header = bytes([frame_type.value]) + n.to_bytes(3, "big")
            if self.chacha and body:
                body = self.chacha.encrypt(body, aad=header)
            return header + body

        def mutate(self, name, honest, plan):
            frame_type, data = honest
            tlv = data["_pd"]

            def reencrypt(field, how):
                d = read_tlv(tlv)
                if TlvValue.EncryptedData not in d:
                    return None
                if name == "ps-m6":
                    key = hkdf_expand("Pair-Setup-Encrypt-Salt", "Pair-Setup-Encrypt-Info", binascii.unhexlify(self.session.key))
                    nonce = b"PS-Msg06"
                elif name == "pv-m2":
                    key = self._pv_session_key
                    nonce = b"PV-Msg02"
                else:
                    return None
                ch = chacha20.Chacha20Cipher(key, key)
                inner = ch.decrypt(bytes(d[TlvValue.EncryptedData]), nonce=nonce)
                inner2 = tlv_without(inner, field) if how is None else tlv_tampered(inner, field, how)
                if inner2 is None:
                    return None
                ch = chacha20.Chacha20Cipher(key, key)
                d[TlvValue.EncryptedData] = ch.encrypt(inner2, nonce=nonce)
                return write_tlv(d)

            if plan.kind == "error" and plan.sub == "_em":
                return (frame_type, {"_em": "device says no", "_pd": tlv})
            if plan.kind == "missing" and plan.sub == "_pd":
                return (frame_type, {k: v for k, v in data.items() if k != "_pd"})
            if plan.kind == "garbage" and plan.sub == "opack":
                n = len(plan.garbage)
                return bytes([frame_type.value]) + n.to_bytes(3, "big") + plan.garbage
            if plan.kind == "garbage" and plan.sub == "pd-type":
                return (frame_type, dict(data, _pd="not bytes"))
            new = mutate_tlv(tlv, plan, reencrypt)
            if new is None:
                return None
            return (frame_type, dict(data, _pd=new))

        def _m1_verify(self, pairing_data):
            from cryptography.hazmat.primitives.asymmetric.x25519 import X25519PublicKey
            shared = self.keys.verify.exchange(X25519PublicKey.from_public_bytes(pairing_data[TlvValue.PublicKey]))
            self._pv_session_key = hkdf_expand("Pair-Verify-Encrypt-Salt", "Pair-Verify-Encrypt-Info", shared)
            CompanionServerAuth._m1_verify(self, pairing_data)

    return CompanionDevice()


# ------------------------------------------------------------------------------------ AirPlay devices

class LegacySrpDevice:
    """Device side of AirPlay legacy (PIN) pairing: SRP-2048/SHA-1 with the Apple TV session key
    K = SHA1(S|0) + SHA1(S|1), then AES-GCM of the controller's Ed25519 public key.  Written against
    srptools/cryptography, independent of pyatv's client code except for the session-key rule."""

    def __init__(self, pin):
        self.pin = str(pin)
        self.session = None
        self.salt = None
        self.user = None

    def step1(self, user):
        from srptools import SRPContext, SRPServerSession, constants
        from pyatv.protocols.airplay.srp import AtvSRPContext
        self.user = user
        ctx = AtvSRPContext(user, self.pin, prime=constants.PRIME_2048, generator=constants.PRIME_2048_GEN)
        _, verifier, salt = ctx.get_user_data_triplet()
        sctx = AtvSRPContext(user, prime=constants.PRIME_2048, generator=constants.PRIME_2048_GEN)
        self.session = SRPServerSession(sctx, verifier)
        self.salt = salt
        return {"pk": binascii.unhexlify(self.session.public), "salt": binascii.unhexlify(salt)}

    def step2(self, pk, proof):
        self.session.process(binascii.hexlify(pk).decode(), self.salt)
        if not self.session.verify_proof(binascii.hexlify(proof)):
            return None
        return {"proof": binascii.unhexlify(self.session.key_proof_hash)}

    def step3(self, epk, tag):
        from cryptography.hazmat.primitives.ciphers.aead import AESGCM
        key = binascii.unhexlify(self.session.key)
        aes_key = hashlib.sha512(b"Pair-Setup-AES-Key" + key).digest()[:16]
        iv = bytearray(hashlib.sha512(b"Pair-Setup-AES-IV" + key).digest()[:16])
        iv[-1] = (iv[-1] + 1) % 256
        client_pub = AESGCM(aes_key).decrypt(bytes(iv), epk + tag, None)   # raises InvalidTag when wrong
        if len(client_pub) != 32:
            raise ValueError("bad controller key")
        iv[-1] = (iv[-1] + 1) % 256
        out = AESGCM(aes_key).encrypt(bytes(iv), b"\xaa" * 32, None)
        return {"epk": out[:-16], "authTag": out[-16:]}


def make_airplay_device(plan, legacy):
    from pyatv.protocols.airplay.server_auth import BaseAirPlayServerAuth
    from pyatv.support import http
    from pyatv.auth.hap_tlv8 import TlvValue, read_tlv, write_tlv
    from pyatv.auth.hap_srp import hkdf_expand
    from pyatv.support import chacha20

    class Router(BaseAirPlayServerAuth):
        def __init__(self):
            super().__init__("Fake AirPlay", pin=PIN)
            self.add_route("POST", "^/pair-setup-pin$", self.handle_pair_setup_pin)
            self.legacy = LegacySrpDevice(PIN)
            self.paired = False

        def has_paired(self):
            self.paired = True

        def enable_encryption(self, output_key, input_key):
            pass

        def handle_pair_setup_pin(self, request):
            body = request.body if isinstance(request.body, bytes) else request.body.encode("utf-8")
            req = plistlib.loads(body)
            if "method" in req:
                out = self.legacy.step1(req["user"])
            elif "proof" in req:
                out = self.legacy.step2(req["pk"], req["proof"])
                if out is None:
                    return http.HttpResponse(request.protocol, request.version, 470, "Connection Authorization Required", {}, b"")
            else:
                out = self.legacy.step3(req["epk"], req["authTag"])
                self.paired = True
            return http.HttpResponse(request.protocol, request.version, 200, "OK",
                                     {"Content-Type": "application/x-apple-binary-plist"},
                                     plistlib.dumps(out, fmt=plistlib.FMT_BINARY))

    class AirPlayDevice(http.BasicHttpServer, Device):
        def __init__(self):
            self.router = Router()
            http.BasicHttpServer.__init__(self, self.router)
            self.plan = plan
            self.transport = self     # BasicHttpServer writes to self.transport
            self.nreq = 0

        # BasicHttpServer -> "transport"
        def write(self, data):
            resp, _ = http.parse_response(data)
            resp = resp._replace(headers={k: v for k, v in resp.headers.items() if k.lower() != "content-length"})
            self.emit(self._name, resp)

        def data_received(self, data):
            # name the reply after the request that is being answered
            try:
                req, _ = http.parse_request(self._request_buffer + data)
            except Exception:  # noqa
                req = None
            self._name = self.reply_name(req)
            http.BasicHttpServer.data_received(self, data)

        def reply_name(self, req):
            if req is None:
                return "?"
            if req.path == "/pair-pin-start":
                return "pin-start"
            body = req.body if isinstance(req.body, bytes) else req.body.encode("utf-8")
            if req.path == "/pair-setup":
                return "ps-m%d" % (seq_of(body) + 1)
            if req.path == "/pair-setup-pin":
                try:
                    p = plistlib.loads(body)
                except Exception:  # noqa
                    return "legacy-?"
                return "legacy-step1" if "method" in p else ("legacy-step2" if "proof" in p else "legacy-step3")
            return req.path

        def encode(self, resp):
            if isinstance(resp, bytes):
                return resp
            return http.format_response(resp)

        def mutate(self, name, honest, plan):
            body = honest.body if isinstance(honest.body, bytes) else (honest.body or "").encode("utf-8")
            if plan.kind == "error" and (plan.sub or "").startswith("http"):
                code = int(plan.sub[4:])
                return honest._replace(code=code, message="Error", body=b"")
            if name.startswith("legacy") or name == "pin-start":
                if plan.kind == "error":
                    return honest._replace(code=470, message="Connection Authorization Required", body=b"")
                if plan.kind == "garbage":
                    return honest._replace(body=plan.garbage, headers=dict(honest.headers, **{"Content-Type": "application/x-apple-binary-plist"}))
                if plan.kind in ("missing", "tamper", "malformed") and body:
                    try:
                        d = plistlib.loads(body)
                    except Exception:  # noqa
                        return None
                    sub, how = (plan.sub.split("/") + ["flip"])[:2]
                    if sub == "not-a-dict":
                        return honest._replace(body=plistlib.dumps([1, 2, 3], fmt=plistlib.FMT_BINARY))
                    if sub not in d:
                        return None
                    if plan.kind == "missing":
                        del d[sub]
                    else:
                        v = d[sub]
                        d[sub] = {"flip": v[:-1] + bytes([v[-1] ^ 1]), "truncate": v[: len(v) // 2], "empty": b"", "short": v[:-1], "long": v + b"\x00"}[how]
                    return honest._replace(body=plistlib.dumps(d, fmt=plistlib.FMT_BINARY))
                return None

            def reencrypt(field, how):
                d = read_tlv(body)
                if TlvValue.EncryptedData not in d or name != "ps-m6":
                    return None
                key = hkdf_expand("Pair-Setup-Encrypt-Salt", "Pair-Setup-Encrypt-Info", binascii.unhexlify(self.router.session.key))
                ch = chacha20.Chacha20Cipher8byteNonce(key, key)
                inner = ch.decrypt(bytes(d[TlvValue.EncryptedData]), nonce=b"PS-Msg06")
                inner2 = tlv_without(inner, field) if how is None else tlv_tampered(inner, field, how)
                if inner2 is None:
                    return None
                ch = chacha20.Chacha20Cipher8byteNonce(key, key)
                d[TlvValue.EncryptedData] = ch.encrypt(inner2, nonce=b"PS-Msg06")
                return write_tlv(d)

            if plan.kind == "garbage" and plan.sub == "text-body":
                return honest._replace(body="plain text", headers={k: v for k, v in honest.headers.items() if k != "Content-Type"})
            new = mutate_tlv(body, plan, reencrypt)
            if new is None:
                return None
            return honest._replace(body=new)

    return AirPlayDevice()


# ------------------------------------------------------------------------------------ driver

def build_handler(handler, loop, old_service, old_settings):
    from pyatv import conf
    from pyatv.const import Protocol
    from pyatv.core import Core, MutableService, ProtocolStateDispatcher, CoreStateDispatcher
    from pyatv.settings import Settings, AirPlayVersion
    from pyatv.support.state_producer import StateProducer

    class SessionManager:
        session = None

        async def close(self):
            pass

    proto = {"mrp": Protocol.MRP, "companion": Protocol.Companion, "airplay_hap": Protocol.AirPlay,
             "airplay_legacy": Protocol.AirPlay, "raop": Protocol.RAOP, "raop_hap": Protocol.RAOP, "dmap": Protocol.DMAP}[handler]
    service = MutableService("fake-id", proto, 7000, {}, credentials=old_service)
    settings = Settings()
    setattr(getattr(settings.protocols, SETTINGS_ATTR[handler]), "credentials", old_settings)
    if handler in ("airplay_hap", "raop_hap"):
        settings.protocols.raop.protocol_version = AirPlayVersion.V2     # both pair() functions read the raop setting
    elif handler in ("airplay_legacy", "raop"):
        settings.protocols.raop.protocol_version = AirPlayVersion.V1
    config = conf.AppleTV("10.0.0.2", "Fake")
    core = Core(loop, config, service, settings, StateProducer(), SessionManager(), lambda *a: (lambda: None),
                ProtocolStateDispatcher(proto, CoreStateDispatcher()))
    if handler == "mrp":
        from pyatv.protocols.mrp import pair
    elif handler == "companion":
        from pyatv.protocols.companion import pair
    elif handler in ("airplay_hap", "airplay_legacy"):
        from pyatv.protocols.airplay import pair
    elif handler in ("raop", "raop_hap"):
        from pyatv.protocols.raop import pair
    else:
        raise ValueError(handler)
    return pair(core), service, settings


def make_device(handler, plan):
    if handler == "mrp":
        return make_mrp_device(plan)
    if handler == "companion":
        return make_companion_device(plan)
    return make_airplay_device(plan, legacy=handler in ("airplay_legacy", "raop"))


def exc_name(ex):
    return type(ex).__name__


WATCHDOG = 120.0


async def call(coro_factory, plan, cancel, cancel_after=None):
    """Run one API call; in cancel mode cancel it once the device is holding the chosen reply; with
    cancel_after=k cancel it after k turns of the event loop (wherever it happens to be)."""
    task = asyncio.ensure_future(coro_factory())
    if cancel_after is not None:
        for _ in range(cancel_after):
            if task.done():
                break
            await asyncio.sleep(0)
        if not task.done():
            task.cancel()
    elif cancel:
        for _ in range(400):
            if task.done() or plan.blocked:
                break
            await asyncio.sleep(0)
        if plan.blocked and not task.done():
            for _ in range(3):
                await asyncio.sleep(0)     # let the request reach the point where it waits
            task.cancel()
    # bounded in VIRTUAL time: the library's own timeouts are 5-10 s per request; a call that has not
    # returned after WATCHDOG virtual seconds (nothing else scheduled - the loop jumps straight to this
    # timer) never will
    if not task.done():
        await asyncio.wait({task}, timeout=WATCHDOG)
    if not task.done():
        task.cancel()
        try:
            await task
        except BaseException:  # noqa
            pass
        return "never-returned", None
    try:
        await task
        return "ok", None
    except asyncio.CancelledError:
        return "cancelled", None
    except BaseException as ex:  # noqa
        return "raised", ex


async def scenario(spec):
    """spec: handler, index, kind, sub, garbage(hex), pin, cancel(bool), cancel_after+phase, misuse, fresh.
    Returns the observation dict."""
    from pyatv import exceptions
    handler = spec["handler"]
    loop = asyncio.get_running_loop()
    old_service, old_settings = old_credentials(handler)
    if spec.get("fresh"):             # first-time pairing: nothing stored anywhere
        old_service, old_settings = None, None
    if spec.get("old"):               # what was stored before: see STORED_VARIANTS
        old_service, old_settings = stored_variant(handler, spec["old"])
    if spec.get("stored") == "settings-only":
        old_service = None
    elif spec.get("stored") == "service-only":
        old_settings = None
    plan = Plan(spec.get("index"), spec.get("kind"), spec.get("sub"), bytes.fromhex(spec.get("garbage", "")), hold=bool(spec.get("cancel")))
    devices = []

    async def create_connection(protocol_factory, host=None, port=None, **kw):
        if spec.get("kind") == "refused":
            plan.hit = True
            raise ConnectionRefusedError(111, "Connection refused")
        proto = protocol_factory()
        dev = make_device(handler, plan)
        devices.append(dev)
        pipe = Pipe(loop, proto, dev)
        proto.connection_made(pipe)
        return pipe, proto

    loop.create_connection = create_connection
    h, service, settings = build_handler(handler, loop, old_service, old_settings)
    sattr = SETTINGS_ATTR[handler]

    others = [p for p in ("airplay", "companion", "dmap", "mrp", "raop") if p != sattr]
    for p in others:
        getattr(settings.protocols, p).credentials = "other-protocol-" + p

    def snap():
        return {"service": service.credentials, "settings": getattr(settings.protocols, sattr).credentials, "has_paired": bool(h.has_paired)}

    def snap_others():
        return {p: getattr(settings.protocols, p).credentials for p in others}

    obs = {"before": snap(), "old": {"service": old_service, "settings": old_settings}}
    others_before = snap_others()
    misuse = spec.get("misuse")
    if spec.get("pin_before_begin") is not None:
        h.pin(spec["pin_before_begin"])       # the user may enter the PIN before begin() as well
    res_b, ex_b = ("skipped", None)
    if misuse != "no_begin":
        res_b, ex_b = await call(h.begin, plan, spec.get("cancel"), spec.get("cancel_after") if spec.get("phase") == "begin" else None)
    obs["begin"] = res_b if ex_b is None else "raised:" + exc_name(ex_b)
    obs["begin_msg"] = str(ex_b)[:200] if ex_b is not None else None
    obs["after_begin"] = snap()
    obs["replies_in_begin"] = len(plan.names)
    res_f, ex_f = ("skipped", None)
    if res_b in ("ok", "skipped"):
        if misuse != "no_pin":
            # pin() may be called several times before finish(): the LAST one set is the one to use
            pins = spec.get("pins")
            for pn in (pins if pins is not None else [spec.get("pin", PIN)]):
                h.pin(pn)
        res_f, ex_f = await call(h.finish, plan, spec.get("cancel"), spec.get("cancel_after") if spec.get("phase") == "finish" else None)
    obs["finish"] = res_f if ex_f is None else "raised:" + exc_name(ex_f)
    obs["finish_msg"] = str(ex_f)[:200] if ex_f is not None else None
    obs["after"] = snap()
    obs["other_protocols_changed"] = sorted(p for p, v in snap_others().items() if v != others_before[p])
    obs["replies"] = list(plan.names)
    obs["hit"] = plan.hit
    obs["hit_name"] = plan.names[plan.index] if (plan.hit and plan.index is not None and plan.index < len(plan.names)) else None
    allowed = (exceptions.PairingError, exceptions.ConnectionFailedError, exceptions.ConnectionLostError,
               exceptions.BackOffError, exceptions.NoCredentialsError)
    obs["exc_ok"] = True
    for which, ex in (("begin", ex_b), ("finish", ex_f)):
        if ex is None:
            continue
        ok = isinstance(ex, allowed) or (which == "begin" and handler.startswith(("airplay", "raop")) and isinstance(ex, OSError))
        if not ok:
            obs["exc_ok"] = False
    dev = devices[0] if devices else None
    obs["device_paired"] = bool(getattr(dev, "paired", False) or getattr(getattr(dev, "router", None), "paired", False)
                                or getattr(dev, "verified", False)) if dev else False
    # are the new credentials the ones of this device?
    obs["new_credentials_valid"] = None
    if obs["after"]["service"] != obs["before"]["service"] and obs["after"]["service"]:
        obs["new_credentials_valid"] = check_new_credentials(handler, obs["after"]["service"])
    try:
        await h.close()
    except Exception as ex:  # noqa
        obs["close"] = "raised:" + exc_name(ex)
    return obs


def check_new_credentials(handler, cred):
    from pyatv.auth.hap_pairing import parse_credentials
    from pyatv.auth.server_auth import PRIVATE_KEY, SERVER_IDENTIFIER
    from cryptography.hazmat.primitives.asymmetric.ed25519 import Ed25519PrivateKey
    from cryptography.hazmat.primitives import serialization
    try:
        c = parse_credentials(cred)
    except Exception:  # noqa
        return False
    if handler in ("airplay_legacy", "raop"):
        return len(c.ltsk) == 32 and len(c.client_id) == 8
    pub = Ed25519PrivateKey.from_private_bytes(PRIVATE_KEY).public_key().public_bytes(
        encoding=serialization.Encoding.Raw, format=serialization.PublicFormat.Raw)
    return bytes(c.ltpk) == pub and bytes(c.atv_id) == SERVER_IDENTIFIER.encode() and len(c.ltsk) == 32


# ------------------------------------------------------------------------------------ oracle

TRANSPORT_KINDS = ("drop", "disconnect", "refused")
EXCHANGE_REPLIES = {
    # replies whose CONTENT belongs to the pairing exchange.  Not in here: MRP's device-info reply and
    # Companion's connect-time pair-verify with the OLD credentials (connection set-up: the handler
    # needs nothing from their content), the body of the 200 OK to /pair-pin-start (there is none).
    "mrp": ("ps-m2", "ps-m4", "ps-m6", "pv-m2", "pv-m4"),
    "companion": ("ps-m2", "ps-m4", "ps-m6"),
    "airplay_hap": ("ps-m2", "ps-m4", "ps-m6"),
    "raop_hap": ("ps-m2", "ps-m4", "ps-m6"),
    "airplay_legacy": ("legacy-step1", "legacy-step2", "legacy-step3"),
    "raop": ("legacy-step1", "legacy-step2", "legacy-step3"),
}


def exchange_failed(spec, obs):
    """Did the pairing exchange fail, by the property text (wrong PIN, error reply, malformed or
    missing fields, timeout, disconnect)?  'tamper' (well-formed reply with altered bytes) is an
    authenticity question (C06) and is judged for consistency only."""
    if spec.get("misuse") or spec.get("kind") == "wrong_pin":
        return True
    kind = spec.get("kind")
    if not kind or not obs["hit"] or spec.get("cancel"):
        return False
    if kind in TRANSPORT_KINDS or (kind == "garbage" and spec.get("sub") == "wire") or (kind == "error" and str(spec.get("sub", "")).startswith("http")):
        return True
    if kind in ("error", "garbage", "missing", "malformed"):
        return obs.get("hit_name") in EXCHANGE_REPLIES[spec["handler"]]
    return False


NEVER_READ = ("Proof", "inner:Signature", "proof", "epk", "authTag")


def malformed_class(sub):
    """Key part for an accepted malformed item.  Items no handler ever reads (the device's SRP proof,
    the signature inside M6, the legacy step-2/3 answers) give one key per item; for items that ARE
    read, 'empty' and 'wrong length' are different checks and get different keys."""
    item, how = str(sub).split("/")
    name = item.replace("inner:", "inner-")
    if item in NEVER_READ:
        return name
    return name + ("-empty" if how == "empty" else "-length")


def judge(spec, obs):
    """-> list of (key, what).  Judges the property text on what was observed."""
    handler = spec["handler"]
    hk = "raop" if handler == "raop_hap" else handler
    out = []
    raised = obs["begin"].startswith("raised") or obs["finish"].startswith("raised")
    cancelled = "cancelled" in (obs["begin"], obs["finish"])
    success = obs["begin"] == "ok" and obs["finish"] == "ok"
    before, after = obs["before"], obs["after"]
    wrote = after["service"] != before["service"] or after["settings"] != before["settings"]
    where = "%s %s%s at %s%s" % (handler, spec.get("kind") or spec.get("misuse") or "fault-free", ("/" + str(spec.get("sub"))) if spec.get("sub") else "",
                                 obs.get("hit_name") or "-", (" (stored before: %s)" % spec["old"]) if spec.get("old") else "")
    ab = obs["after_begin"]
    if ab["service"] != before["service"] or ab["settings"] != before["settings"]:
        out.append(("C08:%s:credentials-written-on-failure" % hk, "%s: begin() alone changed the stored credentials: %s -> %s" % (where, before, ab)))
    if ab["has_paired"]:
        out.append(("C08:%s:has-paired-on-failure" % hk, "%s: has_paired is True after begin() alone" % where))
    if obs.get("other_protocols_changed"):
        out.append(("C08:%s:service-and-settings-disagree" % hk, "%s: credentials of OTHER protocols in the settings were changed: %s" % (where, obs["other_protocols_changed"])))
    if "never-returned" in (obs["begin"], obs["finish"]):
        which = "begin()" if obs["begin"] == "never-returned" else "finish()"
        out.append(("C08:%s:never-returns-on-silent-device:%s" % (hk, obs.get("hit_name") or spec.get("kind") or "fault-free"),
                    "%s: %s had not returned after %d virtual seconds with nothing else scheduled (it must raise a connection or pairing error)" % (where, which, WATCHDOG)))
        if wrote or after["has_paired"]:
            out.append(("C08:%s:credentials-written-on-failure" % hk, "%s: %s never returned, yet credentials/has_paired changed: %s -> %s" % (where, which, before, after)))
        return out
    if cancelled:
        if wrote or after["has_paired"]:
            at = ("while waiting for %s" % obs.get("hit_name")) if spec.get("cancel") else ("%s() after %s turns of the event loop" % (spec.get("phase"), spec.get("cancel_after")))
            out.append(("C08:%s:credentials-written-on-cancel" % hk, "%s: cancelled %s but credentials/has_paired changed: %s -> %s" % (handler, at, before, after)))
        return out
    if raised:
        if wrote:
            out.append(("C08:%s:credentials-written-on-failure" % hk, "%s: begin=%s finish=%s but credentials changed: %s -> %s" % (where, obs["begin"], obs["finish"], before, after)))
        if after["has_paired"]:
            out.append(("C08:%s:has-paired-on-failure" % hk, "%s: begin=%s finish=%s but has_paired is True" % (where, obs["begin"], obs["finish"])))
        if not obs["exc_ok"]:
            out.append(("C08:%s:wrong-exception" % hk, "%s: begin=%s finish=%s is neither a pairing nor a connection error" % (where, obs["begin"], obs["finish"])))
        if not spec.get("kind") and not spec.get("misuse") and not spec.get("old"):
            # (with unusual stored credentials - spec['old'] - a handler may refuse to pair; it must then
            #  refuse consistently, which is what has just been checked)
            out.append(("C08:%s:success-not-recorded" % hk, "fault-free exchange failed: begin=%s (%s) finish=%s (%s)" % (obs["begin"], obs["begin_msg"], obs["finish"], obs["finish_msg"])))
        return out
    if success:
        if exchange_failed(spec, obs):
            suffix = ":%s:%s" % (obs.get("hit_name") or spec.get("misuse") or "pin", spec.get("kind") or "misuse")
            if spec.get("kind") == "malformed":
                suffix += ":" + malformed_class(spec.get("sub"))
            if wrote or after["has_paired"]:
                out.append(("C08:%s:credentials-written-on-failure%s" % (hk, suffix),
                            "%s: the exchange failed but finish() returned normally; credentials %s -> %s, has_paired=%s" % (where, before, after, after["has_paired"])))
            else:
                out.append(("C08:%s:wrong-exception%s" % (hk, suffix), "%s: the exchange failed but neither begin() nor finish() raised" % where))
            return out
        # a completed exchange: everything must be recorded, consistently
        if not (after["service"] and after["service"] != obs["old"]["service"] and after["settings"] and after["settings"] != obs["old"]["settings"] and after["has_paired"]):
            out.append(("C08:%s:success-not-recorded" % hk, "%s: exchange completed but not everything was recorded: %s" % (where, after)))
        if after["service"] != after["settings"]:
            out.append(("C08:%s:service-and-settings-disagree" % hk, "%s: service has %r, settings have %r" % (where, after["service"], after["settings"])))
        if obs["new_credentials_valid"] is False and spec.get("kind") != "tamper":
            out.append(("C08:%s:success-not-recorded" % hk, "%s: stored credentials are not the ones negotiated with this device: %r" % (where, after["service"])))
        if not obs["device_paired"]:
            out.append(("C08:%s:credentials-written-on-failure" % hk, "%s: handler reports success but the device never completed the exchange" % where))
    return out


class SeededRandomness:
    """pyatv and srptools draw key material from os.urandom / SystemRandom.  For reproducible runs
    (and exact replays) all of it is drawn from one PRNG seeded by spec['rseed'] (default 1)."""

    def __init__(self, seed):
        self.rng = random.Random(seed)

    def urandom(self, n):
        return bytes(self.rng.randrange(256) for _ in range(n))

    def __enter__(self):
        import srptools.context as sc
        import pyatv.protocols.airplay.srp as asrp
        self.saved = (os.urandom, sc.random, asrp.urandom)
        os.urandom = self.urandom
        sc.random = lambda: self.rng
        asrp.urandom = self.urandom
        return self

    def __exit__(self, *a):
        import srptools.context as sc
        import pyatv.protocols.airplay.srp as asrp
        os.urandom, sc.random, asrp.urandom = self.saved


def run_coro(coro, spec):
    import logging
    logging.disable(logging.CRITICAL)
    try:
        with SeededRandomness(int(spec.get("rseed", 1))):
            return vloop.run(coro, spec)
    finally:
        logging.disable(logging.NOTSET)


def run_spec(spec):
    import logging
    logging.disable(logging.CRITICAL)
    try:
        with SeededRandomness(int(spec.get("rseed", 1))):
            return vloop.run(scenario, spec)
    finally:
        logging.disable(logging.NOTSET)


# ------------------------------------------------------------------------------------ fault matrix

def _malformed(items):
    """'present but empty' and 'present but wrong length' for every item of a reply.  Identifier
    has no fixed length, so only its empty form is malformed; EncryptedData likewise (a shorter one
    is a tampered one)."""
    out = []
    for it in items:
        out.append(("malformed", it + "/empty"))
        if it.split(":")[-1] not in ("Identifier", "EncryptedData"):
            out += [("malformed", it + "/short"), ("malformed", it + "/long"), ("malformed", it + "/truncate")]
    return out


CONTENT_FAULTS = {
    # reply name -> [(kind, sub)] beyond the faults applied to every reply
    #   missing   = item absent;  malformed = item present but empty / of the wrong length;
    #   tamper    = item well-formed (right length) but with a changed bit (authenticity, C06)
    "ps-m2": [("missing", "Salt"), ("missing", "PublicKey"), ("tamper", "Salt/flip"), ("tamper", "PublicKey/flip")] + _malformed(["Salt", "PublicKey"]),
    "ps-m4": [("missing", "Proof"), ("tamper", "Proof/flip")] + _malformed(["Proof"]),
    "ps-m6": [("missing", "EncryptedData"), ("missing", "inner:Identifier"), ("missing", "inner:Signature"), ("missing", "inner:PublicKey"),
              ("tamper", "EncryptedData/flip"), ("tamper", "EncryptedData/truncate"),
              ("tamper", "inner:Signature/flip"), ("tamper", "inner:PublicKey/flip"), ("tamper", "inner:Identifier/flip")]
             + _malformed(["EncryptedData", "inner:Identifier", "inner:PublicKey", "inner:Signature"]),
    "pv-m2": [("missing", "PublicKey"), ("missing", "EncryptedData"), ("missing", "inner:Identifier"), ("missing", "inner:Signature"),
              ("tamper", "PublicKey/flip"), ("tamper", "EncryptedData/flip"), ("tamper", "inner:Identifier/flip"), ("tamper", "inner:Signature/flip")]
             + _malformed(["PublicKey", "EncryptedData", "inner:Identifier", "inner:Signature"]),
    "pv-m4": [],
    "legacy-step1": [("missing", "pk"), ("missing", "salt"), ("missing", "not-a-dict"), ("tamper", "pk/flip"), ("tamper", "salt/flip")] + _malformed(["pk", "salt"]),
    "legacy-step2": [("missing", "proof"), ("missing", "not-a-dict"), ("tamper", "proof/flip")] + _malformed(["proof"]),
    "legacy-step3": [("missing", "epk"), ("missing", "authTag"), ("missing", "not-a-dict"), ("tamper", "epk/flip")] + _malformed(["epk", "authTag"]),
    "pin-start": [],
    "device-info": [],
}
WRONG_PINS = [1112, 0, 9999, 111, 1110, "11111"]


def matrix(handler, names, rng, thorough, extra=None, light=False):
    """All fault specs for one handler; names = replies of the fault-free run, in order.
    extra: merged into every spec (e.g. {"fresh": True}); light: transport faults + plain error only."""
    specs = []
    extra = extra or {}
    http = handler.startswith(("airplay", "raop"))
    tlv_based = not handler.endswith("legacy") and handler != "raop"

    def g(n, payload=False):
        # a garbage PAYLOAD must not accidentally be a TLV that carries one of the data items
        # (Salt, PublicKey, Proof, EncryptedData) - it would then be a different experiment
        while True:
            b = bytes(rng.randrange(256) for _ in range(n))
            if not payload or not (tlv_tags(b) & {2, 3, 4, 5}):
                return b.hex()

    for i, name in enumerate(names):
        faults = [("drop", None), ("disconnect", "clean"), ("disconnect", "reset"), ("garbage", "wire")]
        if http:
            faults += [("error", "http470"), ("error", "http500"), ("error", "http403")]
        if name not in ("device-info", "pin-start"):
            faults.append(("garbage", "payload"))
            if tlv_based:
                faults += [("error", "2"), ("error", "3"), ("error", "2+fields"), ("error", "6+fields")]
            if handler == "companion":
                faults += [("error", "_em"), ("missing", "_pd"), ("garbage", "opack"), ("garbage", "pd-type")]
            if handler in ("airplay_hap", "raop_hap"):
                faults.append(("garbage", "text-body"))
        elif name == "device-info":
            faults.append(("garbage", "payload"))
        faults += CONTENT_FAULTS.get(name, [])
        if light:
            faults = [f for f in faults if f in (("drop", None), ("disconnect", "clean"), ("error", "2"), ("error", "http470"), ("garbage", "payload"))]
        for kind, sub in faults:
            reps = 8 if (thorough and kind == "garbage") else 1
            for _ in range(reps):
                sp = {"handler": handler, "index": i, "kind": kind, "sub": sub}
                if kind == "garbage":
                    sp["garbage"] = g(rng.choice([1, 2, 5, 17, 40, 64]), payload=(sub != "wire"))
                specs.append(sp)
        specs.append({"handler": handler, "index": i, "cancel": True})
    specs.append({"handler": handler, "kind": "refused"})
    for pin in WRONG_PINS:
        specs.append({"handler": handler, "kind": "wrong_pin", "pin": pin})
    specs.append({"handler": handler, "misuse": "no_pin"})
    specs.append({"handler": handler, "misuse": "no_begin"})
    if not light:
        # pin() several times (also before begin()): the PIN used must be the last one set
        for pins in ([1112, PIN], [0, 9999, PIN], [PIN, PIN], ["1111"]):
            specs.append({"handler": handler, "pins": pins})
        for pins in ([PIN, 1112], [PIN, 0], [1112, PIN, 1110]):
            specs.append({"handler": handler, "kind": "wrong_pin", "pins": pins})
        specs.append({"handler": handler, "pin_before_begin": PIN, "pins": []})
        specs.append({"handler": handler, "pin_before_begin": 1112, "pins": [PIN]})
        specs.append({"handler": handler, "kind": "wrong_pin", "pin_before_begin": PIN, "pins": [1112]})
        specs.append({"handler": handler, "kind": "wrong_pin", "pin_before_begin": 1112, "pins": []})
    if light:
        specs = [sp for sp in specs if sp.get("kind") != "wrong_pin" or sp["pin"] == 1112]
    if thorough and not light:
        for _ in range(30):
            pin = rng.randrange(10000)
            if pin != PIN:
                specs.append({"handler": handler, "kind": "wrong_pin", "pin": pin})
    return [dict(sp, **extra) for sp in specs]


# ------------------------------------------------------------------------------------ DMAP

def dmap_code(guid_hex, pin):
    """Pairing code a remote sends (independent computation): MD5 of the 16 upper-case hex digits of
    the pairing guid followed by the four PIN digits, each followed by a NUL byte."""
    digits = "%04d" % pin
    raw = guid_hex.upper().encode("ascii") + b"".join(d.encode("ascii") + b"\x00" for d in digits)
    return hashlib.md5(raw).hexdigest()


DMAP_PINS = [0, 1, 7, 1234, 9999, None]


async def scenario_dmap(spec):
    """spec: pin (configured, may be None), code ('correct' | 'other:<pin>' | 'garbage:<text>' | 'upper' | 'missing'),
    with_begin (bool).  One pairing request, then finish()."""
    from pyatv import conf
    from pyatv.const import Protocol
    from pyatv.core import Core, MutableService, ProtocolStateDispatcher, CoreStateDispatcher
    from pyatv.settings import Settings
    from pyatv.support.state_producer import StateProducer
    from pyatv.protocols.dmap import pairing as dp
    from pyatv.protocols import dmap
    from pyatv.protocols.dmap import parser, tag_definitions

    class SessionManager:
        async def close(self):
            pass

    class Zc:
        def close(self):
            pass

    loop = asyncio.get_running_loop()
    old_service, old_settings = old_credentials("dmap")
    if spec.get("old") == "none":
        old_service, old_settings = None, None
    elif spec.get("old"):
        old_service, old_settings = stored_variant("dmap", spec["old"])
    service = MutableService("fake-id", Protocol.DMAP, 3689, {}, credentials=old_service)
    settings = Settings()
    settings.protocols.dmap.credentials = old_settings
    core = Core(loop, conf.AppleTV("10.0.0.2", "Fake"), service, settings, StateProducer(), SessionManager(), lambda *a: (lambda: None),
                ProtocolStateDispatcher(Protocol.DMAP, CoreStateDispatcher()))
    guid = spec.get("guid", "0x0123456789ABCDEF")
    h = dmap.pair(core, zeroconf=Zc(), addresses=["10.0.0.1"], pairing_guid=guid, name="verif")
    guid_hex = guid[2:].upper()
    pin = spec.get("pin")
    if pin is not None:
        h.pin(pin)

    def snap():
        return {"service": service.credentials, "settings": settings.protocols.dmap.credentials, "has_paired": bool(h.has_paired)}

    obs = {"before": snap()}
    published = []
    if spec.get("with_begin"):
        class Site:
            def __init__(self, *a, **k):
                pass

            async def start(self):
                pass

        async def publish(loop_, svc, zc):
            published.append(dict(svc.properties))

        saved = (dp.web.TCPSite, dp.mdns.publish)
        dp.web.TCPSite, dp.mdns.publish = Site, publish
        try:
            try:
                await h.begin()
                obs["begin"] = "ok"
            except Exception as ex:  # noqa
                obs["begin"] = "raised:" + exc_name(ex)
        finally:
            dp.web.TCPSite, dp.mdns.publish = saved
        obs["after_begin"] = snap()
        obs["published_guid"] = published[0].get("Pair") if published else None
    code = spec["code"]
    query = {"servicename": "remote"}
    if code == "correct":
        query["pairingcode"] = dmap_code(guid_hex, pin if pin is not None else 0)
    elif code == "upper":
        query["pairingcode"] = dmap_code(guid_hex, pin if pin is not None else 0).upper()
    elif code.startswith("other:"):
        query["pairingcode"] = dmap_code(guid_hex, int(code[6:]))
    elif code.startswith("garbage:"):
        query["pairingcode"] = code[8:]
    elif code == "otherguid":
        query["pairingcode"] = dmap_code("FEDCBA9876543210", pin if pin is not None else 0)

    qv = spec.get("query")
    if qv == "no-servicename":
        del query["servicename"]
    elif qv == "empty-servicename":
        query["servicename"] = ""
    elif qv == "extra":
        query.update({"foo": "bar", "pairingcode2": "x", "servicename2": ""})

    class Url:
        pass

    class Request:
        rel_url = Url()
    Request.rel_url.query = query
    try:
        resp = await h.handle_request(Request())
        obs["status"] = resp.status
        body = resp.body
        obs["body_guid"] = None
        if resp.status == 200 and body:
            parsed = parser.parse(bytes(body), tag_definitions.lookup_tag)
            obs["body_guid"] = parser.first(parsed, "cmpa", "cmpg")
    except Exception as ex:  # noqa
        obs["status"] = "raised:" + exc_name(ex)
    obs["after_request"] = snap()
    try:
        await h.finish()
        obs["finish"] = "ok"
    except Exception as ex:  # noqa
        obs["finish"] = "raised:" + exc_name(ex)
    obs["after"] = snap()
    obs["expected_credentials"] = "0x" + guid_hex
    try:
        await h.close()
    except Exception:  # noqa
        pass
    return obs


def judge_dmap(spec, obs):
    out = []
    pin = spec.get("pin")
    code = spec["code"]
    should_accept = (pin is None and code != "missing") or code in ("correct", "upper")
    guid_hex = obs["expected_credentials"][2:]
    guid_ok = 0 < len(guid_hex) <= 16 and all(c in "0123456789ABCDEF" for c in guid_hex)
    # can the request be answered at all?  (a request without 'servicename' MAY be answered - the field
    # is only logged -, so that case is judged by what the remote actually received)
    unanswerable = not guid_ok
    by_outcome = spec.get("query") in ("no-servicename", "empty-servicename")
    before, after = obs["before"], obs["after"]
    wrote = after["service"] != before["service"] or after["settings"] != before["settings"]
    desc = "configured PIN %r, pairing guid %s, request code %s%s" % (pin, obs["expected_credentials"], code, (" query " + spec["query"]) if spec.get("query") else "")
    if should_accept and (unanswerable or (by_outcome and obs["status"] != 200)):
        # the code was right but the remote did not get the pairing answer: the exchange failed
        if obs["status"] == 200:
            out.append(("C08:dmap:success-not-recorded", "%s: answered 200 although the pairing guid does not fit the cmpg field" % desc))
        if obs["after_request"]["has_paired"] or after["has_paired"]:
            out.append(("C08:dmap:has-paired-on-failure", "%s: the request was not answered (status=%s) but has_paired is True" % (desc, obs["status"])))
        if wrote:
            out.append(("C08:dmap:credentials-written-on-failure", "%s: the request was not answered (status=%s) but finish() changed the credentials %s -> %s" % (desc, obs["status"], before, after)))
        return out
    if spec.get("with_begin"):
        ab = obs.get("after_begin", before)
        if obs.get("begin") != "ok":
            out.append(("C08:dmap:wrong-exception", "begin() with the web server and mDNS faked failed: %s" % obs.get("begin")))
        if ab != before:
            out.append(("C08:dmap:credentials-written-on-failure", "begin() alone changed credentials/has_paired: %s -> %s" % (before, ab)))
    if obs["after_request"]["service"] != before["service"] or obs["after_request"]["settings"] != before["settings"]:
        out.append(("C08:dmap:credentials-written-on-failure", "%s: credentials written before finish()" % desc))
    if not should_accept:
        if obs["status"] == 200 or after["has_paired"] or wrote:
            out.append(("C08:dmap:wrong-pin-accepted", "%s: status=%s has_paired=%s credentials %s -> %s" % (desc, obs["status"], after["has_paired"], before, after)))
        if isinstance(obs["status"], str) and code != "missing" and spec.get("query") != "no-servicename":
            out.append(("C08:dmap:wrong-exception", "%s: handle_request %s" % (desc, obs["status"])))
    else:
        ok = (obs["status"] == 200 and after["has_paired"] and after["service"] == obs["expected_credentials"]
              and after["settings"] == obs["expected_credentials"] and obs["finish"] == "ok")
        if not ok:
            out.append(("C08:dmap:success-not-recorded", "%s: status=%s finish=%s after=%s (expected credentials %s)" % (desc, obs["status"], obs["finish"], after, obs["expected_credentials"])))
        elif after["service"] != after["settings"]:
            out.append(("C08:dmap:service-and-settings-disagree", "%s: %s" % (desc, after)))
        if obs["status"] == 200 and guid_ok and obs.get("body_guid") != int(obs["expected_credentials"], 16):
            out.append(("C08:dmap:success-not-recorded", "%s: reply carries pairing guid %r, credentials are %s" % (desc, obs.get("body_guid"), obs["expected_credentials"])))
    return out


def dmap_specs(rng, thorough):
    specs = []
    for pin in DMAP_PINS:
        codes = ["correct", "upper", "otherguid", "missing", "garbage:", "garbage:zz", "garbage:" + "0" * 32,
                 "garbage:" + "".join(rng.choice("0123456789abcdef") for _ in range(32))]
        others = [p for p in (0, 1, 7, 1234, 9999, 10, 70, 1000, 7000) if p != pin]
        codes += ["other:%d" % p for p in others]
        if thorough:
            codes += ["other:%d" % rng.randrange(10000) for _ in range(40)]
        for c in codes:
            if c.startswith("other:") and pin is not None and int(c[6:]) == pin:
                continue
            specs.append({"handler": "dmap", "pin": pin, "code": c, "with_begin": c == "correct"})
    # requests that pass the PIN check but lack / add query fields, and user-supplied pairing guids
    # (top bit set, short, wider than the 64-bit cmpg field, not hex, empty), each followed by finish()
    for pin in (0, 1234, None):
        for q in ("no-servicename", "empty-servicename", "extra"):
            specs.append({"handler": "dmap", "pin": pin, "code": "correct", "query": q})
            specs.append({"handler": "dmap", "pin": pin, "code": "other:4321", "query": q})
        for guid in ("0xFFFFFFFFFFFFFFFF", "0x8000000000000000", "0x12", "0x10000000000000000", "0x0123456789ABCDEF0123", "0xNOTHEXNOTHEXNOTH", "0x"):
            specs.append({"handler": "dmap", "pin": pin, "code": "correct", "guid": guid})
            specs.append({"handler": "dmap", "pin": pin, "code": "correct", "guid": guid, "query": "no-servicename"})
    # what was stored before x accepted / rejected / unanswerable request
    for old in ["none"] + STORED_VARIANTS:
        for sp in ({"code": "correct"}, {"code": "other:4321"}, {"code": "correct", "query": "no-servicename"}, {"code": "correct", "guid": "0x10000000000000000"}):
            specs.append(dict({"handler": "dmap", "pin": 1234, "old": old}, **sp))
    # a guid from the generator
    specs.append({"handler": "dmap", "pin": 1234, "code": "correct", "guid": "0x" + "%016X" % rng.getrandbits(64)})
    specs.append({"handler": "dmap", "pin": 1234, "code": "other:4321", "guid": "0x" + "%016X" % rng.getrandbits(64)})
    return specs


def run_dmap(spec):
    import logging
    logging.disable(logging.CRITICAL)
    try:
        return vloop.run(scenario_dmap, spec)
    finally:
        logging.disable(logging.NOTSET)


# ------------------------------------------------------------------------------------ several attempts on ONE handler object

async def scenario_multi(spec):
    """spec: handler, fresh, attempts = [ {index, kind, sub, garbage, pin, cancel} ... ].  All attempts
    run begin(); pin(); finish() on the SAME handler object; every attempt has its own fault plan
    (reply numbers count from 0 within the attempt).  A handler may refuse to be used again - then it
    must refuse loudly and leave everything as it was."""
    from pyatv import exceptions
    handler = spec["handler"]
    loop = asyncio.get_running_loop()
    old_service, old_settings = old_credentials(handler)
    if spec.get("fresh"):
        old_service, old_settings = None, None
    cur = {"plan": None, "att": None}
    devices = []

    async def create_connection(protocol_factory, host=None, port=None, **kw):
        if cur["att"].get("kind") == "refused":
            cur["plan"].hit = True
            raise ConnectionRefusedError(111, "Connection refused")
        proto = protocol_factory()
        dev = make_device(handler, cur["plan"])
        devices.append(dev)
        pipe = Pipe(loop, proto, dev)
        proto.connection_made(pipe)
        return pipe, proto

    loop.create_connection = create_connection
    h, service, settings = build_handler(handler, loop, old_service, old_settings)
    sattr = SETTINGS_ATTR[handler]
    allowed = (exceptions.PairingError, exceptions.ConnectionFailedError, exceptions.ConnectionLostError,
               exceptions.BackOffError, exceptions.NoCredentialsError)

    def snap():
        return {"service": service.credentials, "settings": getattr(settings.protocols, sattr).credentials, "has_paired": bool(h.has_paired)}

    def dev_paired():
        return any(bool(getattr(d, "paired", False) or getattr(getattr(d, "router", None), "paired", False) or getattr(d, "verified", False)) for d in devices)

    obs = {"old": {"service": old_service, "settings": old_settings}, "attempts": []}
    for att in spec["attempts"]:
        plan = Plan(att.get("index"), att.get("kind"), att.get("sub"), bytes.fromhex(att.get("garbage", "")), hold=bool(att.get("cancel")))
        cur["plan"], cur["att"] = plan, att
        for d in devices:
            d.plan = plan
            for o in (d, getattr(d, "router", None)):
                if o is not None and getattr(o, "paired", False) is True:
                    o.paired = False
            if hasattr(d, "verified"):
                d.verified = False
        a = {"before": snap()}
        res_b, ex_b = await call(h.begin, plan, att.get("cancel"))
        a["begin"] = res_b if ex_b is None else "raised:" + exc_name(ex_b)
        a["begin_msg"] = str(ex_b)[:160] if ex_b is not None else None
        a["after_begin"] = snap()
        res_f, ex_f = ("skipped", None)
        if res_b == "ok":
            h.pin(att.get("pin", PIN))
            res_f, ex_f = await call(h.finish, plan, att.get("cancel"))
        a["finish"] = res_f if ex_f is None else "raised:" + exc_name(ex_f)
        a["finish_msg"] = str(ex_f)[:160] if ex_f is not None else None
        a["after"] = snap()
        a["replies"] = list(plan.names)
        a["hit"] = plan.hit
        a["hit_name"] = plan.names[plan.index] if (plan.hit and plan.index is not None and plan.index < len(plan.names)) else None
        a["exc_ok"] = all(ex is None or isinstance(ex, allowed) or (w == "begin" and handler.startswith(("airplay", "raop")) and isinstance(ex, OSError))
                          for w, ex in (("begin", ex_b), ("finish", ex_f)))
        a["device_paired"] = dev_paired()
        a["new_credentials_valid"] = None
        if a["after"]["service"] != a["before"]["service"] and a["after"]["service"]:
            a["new_credentials_valid"] = check_new_credentials(handler, a["after"]["service"])
        obs["attempts"].append(a)
    try:
        await h.close()
    except Exception as ex:  # noqa
        obs["close"] = "raised:" + exc_name(ex)
    return obs


def judge_multi(spec, obs):
    """Every attempt is judged like a single one, relative to what was stored when it started; in
    addition, after an attempt that failed has_paired must be False even if an EARLIER attempt on
    the same object succeeded ('... raises, previously stored credentials are left untouched and
    has_paired stays false'), and an attempt that reports success must have recorded ITS credentials."""
    handler = spec["handler"]
    hk = "raop" if handler == "raop_hap" else handler
    out = []
    earlier_success = False
    seq = "+".join((a.get("kind") or ("cancel" if a.get("cancel") else "ok")) for a in spec["attempts"])
    for k, (att, a) in enumerate(zip(spec["attempts"], obs["attempts"])):
        where = "%s attempt %d of [%s] (%s%s at %s)" % (handler, k + 1, seq, att.get("kind") or ("cancel" if att.get("cancel") else "fault-free"),
                                                       ("/" + str(att["sub"])) if att.get("sub") else "", a.get("hit_name") or "-")
        before, after = a["before"], a["after"]
        failed = a["begin"].startswith("raised") or a["finish"].startswith("raised") or "cancelled" in (a["begin"], a["finish"]) or "never-returned" in (a["begin"], a["finish"])
        if "never-returned" in (a["begin"], a["finish"]):
            out.append(("C08:%s:never-returns-on-silent-device:%s" % (hk, a.get("hit_name") or att.get("kind") or "fault-free"),
                        "%s: begin=%s finish=%s after %d virtual seconds with nothing else scheduled" % (where, a["begin"], a["finish"], WATCHDOG)))
        wrote = after["service"] != before["service"] or after["settings"] != before["settings"]
        ab = a["after_begin"]
        if ab["service"] != before["service"] or ab["settings"] != before["settings"]:
            out.append(("C08:%s:credentials-written-on-failure" % hk, "%s: begin() alone changed the stored credentials" % where))
        if failed:
            if wrote:
                key = "credentials-written-on-cancel" if "cancelled" in (a["begin"], a["finish"]) else "credentials-written-on-failure"
                out.append(("C08:%s:%s" % (hk, key), "%s: begin=%s finish=%s but credentials changed: %s -> %s" % (where, a["begin"], a["finish"], before, after)))
            if after["has_paired"]:
                if earlier_success:
                    out.append(("C08:%s:has-paired-after-failed-retry:%s" % (hk, a.get("hit_name") or ("before-first-reply" if not a["replies"] else "after-replies")),
                                "%s: begin=%s (%s) finish=%s (%s) but has_paired is still True from the earlier successful attempt" % (where, a["begin"], a["begin_msg"], a["finish"], a["finish_msg"])))
                else:
                    out.append(("C08:%s:has-paired-on-failure" % hk, "%s: begin=%s finish=%s but has_paired is True" % (where, a["begin"], a["finish"])))
            if not a["exc_ok"]:
                out.append(("C08:%s:wrong-exception" % hk, "%s: begin=%s finish=%s is neither a pairing nor a connection error" % (where, a["begin"], a["finish"])))
        else:
            faulted = exchange_failed(dict(att, handler=handler), {"hit": a["hit"], "hit_name": a["hit_name"]})
            if faulted:
                out.append(("C08:%s:credentials-written-on-failure:%s:%s" % (hk, a.get("hit_name") or "pin", att["kind"]),
                            "%s: the exchange failed but finish() returned normally" % where))
            else:
                ok = (after["has_paired"] and after["service"] and after["service"] == after["settings"] and after["service"] != before["service"]
                      and after["settings"] != before["settings"] and a["new_credentials_valid"] is not False and a["device_paired"])
                if not ok:
                    key = "retry-not-recorded" if k > 0 else "success-not-recorded"
                    out.append(("C08:%s:%s" % (hk, key), "%s: begin()/finish() returned normally but this attempt's credentials were not recorded: before=%s after=%s device_completed=%s"
                                % (where, before, after, a["device_paired"])))
                earlier_success = True
    return out


def multi_specs(handler, names, rng, thorough):
    """Sequences of attempts on one handler object; names = replies of the fault-free run."""
    http = handler.startswith(("airplay", "raop"))
    fails = [{"kind": "refused"}, {"kind": "wrong_pin", "pin": 1112}]
    for i in range(len(names)):
        fails += [{"index": i, "kind": "drop", "sub": None}, {"index": i, "cancel": True}]
        if not thorough and i != len(names) - 1:
            continue                      # quick tier: disconnect / error reply only at the last reply
        fails.append({"index": i, "kind": "disconnect", "sub": "clean"})
        fails.append({"index": i, "kind": "error", "sub": "http470"} if (http and (handler in ("airplay_legacy", "raop") or names[i] == "pin-start")) else {"index": i, "kind": "error", "sub": "2"})
    fails = [f for f in fails if not (f.get("kind") == "error" and f.get("sub") == "2" and names[f["index"]] in ("device-info", "pin-start"))]
    seqs = [[{}, {}], [{}, {}, {}]]
    seqs += [[{}, f] for f in fails]                    # success, then a failing attempt
    seqs += [[f, {}] for f in fails[:: (1 if thorough else 2)]]      # failure, then a complete attempt
    seqs += [[{}, f, {}] for f in fails[:: (1 if thorough else 4)]]
    seqs += [[f, g] for f in fails[:: (4 if thorough else 7)] for g in fails[1:: (5 if thorough else 9)]]
    out = []
    for seq in seqs:
        out.append({"handler": handler, "attempts": [dict(a) for a in seq]})
        if thorough or handler == "companion":
            out.append({"handler": handler, "fresh": True, "attempts": [dict(a) for a in seq]})
    return out


async def scenario_dmap_multi(spec):
    """DMAP, one handler object: rounds = [ [codes...] ... ]; every round is begin() (server and mDNS
    faked); the pairing requests of that round; finish()."""
    from pyatv import conf
    from pyatv.const import Protocol
    from pyatv.core import Core, MutableService, ProtocolStateDispatcher, CoreStateDispatcher
    from pyatv.settings import Settings
    from pyatv.support.state_producer import StateProducer
    from pyatv.protocols.dmap import pairing as dp
    from pyatv.protocols import dmap

    class SessionManager:
        async def close(self):
            pass

    class Zc:
        def close(self):
            pass

    class Site:
        def __init__(self, *a, **k):
            pass

        async def start(self):
            pass

    async def publish(loop_, svc, zc):
        pass

    loop = asyncio.get_running_loop()
    old_service, old_settings = old_credentials("dmap")
    service = MutableService("fake-id", Protocol.DMAP, 3689, {}, credentials=old_service)
    settings = Settings()
    settings.protocols.dmap.credentials = old_settings
    core = Core(loop, conf.AppleTV("10.0.0.2", "Fake"), service, settings, StateProducer(), SessionManager(), lambda *a: (lambda: None),
                ProtocolStateDispatcher(Protocol.DMAP, CoreStateDispatcher()))
    guid = "0x0123456789ABCDEF"
    h = dmap.pair(core, zeroconf=Zc(), addresses=["10.0.0.1"], pairing_guid=guid, name="verif")
    pin = spec.get("pin")
    if pin is not None:
        h.pin(pin)

    def snap():
        return {"service": service.credentials, "settings": settings.protocols.dmap.credentials, "has_paired": bool(h.has_paired)}

    obs = {"rounds": [], "expected_credentials": "0x" + guid[2:]}
    saved = (dp.web.TCPSite, dp.mdns.publish)
    dp.web.TCPSite, dp.mdns.publish = Site, publish
    try:
        for codes in spec["rounds"]:
            r = {"before": snap(), "status": []}
            try:
                await h.begin()
                r["begin"] = "ok"
            except Exception as ex:  # noqa
                r["begin"] = "raised:" + exc_name(ex)
            r["after_begin"] = snap()
            for code in codes:
                query = {"servicename": "remote"}
                if code == "correct":
                    query["pairingcode"] = dmap_code(guid[2:], pin if pin is not None else 0)
                elif code.startswith("other:"):
                    query["pairingcode"] = dmap_code(guid[2:], int(code[6:]))
                else:
                    query["pairingcode"] = code

                class Url:
                    pass

                class Request:
                    rel_url = Url()
                Request.rel_url.query = query
                try:
                    resp = await h.handle_request(Request())
                    r["status"].append(resp.status)
                except Exception as ex:  # noqa
                    r["status"].append("raised:" + exc_name(ex))
            try:
                await h.finish()
                r["finish"] = "ok"
            except Exception as ex:  # noqa
                r["finish"] = "raised:" + exc_name(ex)
            r["after"] = snap()
            obs["rounds"].append(r)
    finally:
        dp.web.TCPSite, dp.mdns.publish = saved
    try:
        await h.close()
    except Exception:  # noqa
        pass
    return obs


def judge_dmap_multi(spec, obs):
    out = []
    earlier = False
    for k, (codes, r) in enumerate(zip(spec["rounds"], obs["rounds"])):
        accepted = any(c == "correct" for c in codes) or (spec.get("pin") is None and codes)
        desc = "dmap round %d of %s (PIN %r, codes %s): begin=%s statuses=%s" % (k + 1, spec["rounds"], spec.get("pin"), codes, r["begin"], r["status"])
        if r["begin"] != "ok":
            # the handler refuses to be started again: then nothing may have changed and has_paired must not claim success
            if r["after"]["service"] != r["before"]["service"] or r["after"]["settings"] != r["before"]["settings"]:
                out.append(("C08:dmap:credentials-written-on-failure", desc + ": begin() raised but credentials changed"))
            if r["after"]["has_paired"]:
                out.append(("C08:dmap:has-paired-after-failed-retry" if earlier else "C08:dmap:has-paired-on-failure", desc + ": begin() raised but has_paired is True"))
            continue
        if accepted:
            if not (r["after"]["has_paired"] and r["after"]["service"] == obs["expected_credentials"] == r["after"]["settings"]):
                out.append(("C08:dmap:retry-not-recorded" if k > 0 else "C08:dmap:success-not-recorded", desc + ": not recorded: %s" % r["after"]))
            earlier = True
        else:
            if r["after"]["service"] != r["before"]["service"] or r["after"]["settings"] != r["before"]["settings"]:
                out.append(("C08:dmap:wrong-pin-accepted", desc + ": no request of this round carried the right code but credentials changed %s -> %s" % (r["before"], r["after"])))
            if r["after"]["has_paired"]:
                out.append(("C08:dmap:has-paired-after-failed-retry" if earlier else "C08:dmap:wrong-pin-accepted",
                            desc + ": no request of this round carried the right code but has_paired is True"))
    return out


async def scenario_dmap_history(spec):
    """DMAP: begin(); then a history of user-side pin(x) calls and device-side pairing requests
    (code computed for some PIN, or garbage); then finish().
    history = [["pin", x] | ["req", <pin the code is computed for> | "garbage"] ...]"""
    from pyatv import conf
    from pyatv.const import Protocol
    from pyatv.core import Core, MutableService, ProtocolStateDispatcher, CoreStateDispatcher
    from pyatv.settings import Settings
    from pyatv.support.state_producer import StateProducer
    from pyatv.protocols.dmap import pairing as dp
    from pyatv.protocols import dmap

    class SessionManager:
        async def close(self):
            pass

    class Zc:
        def close(self):
            pass

    class Site:
        def __init__(self, *a, **k):
            pass

        async def start(self):
            pass

    async def publish(loop_, svc, zc):
        pass

    loop = asyncio.get_running_loop()
    old_service, old_settings = old_credentials("dmap")
    service = MutableService("fake-id", Protocol.DMAP, 3689, {}, credentials=old_service)
    settings = Settings()
    settings.protocols.dmap.credentials = old_settings
    core = Core(loop, conf.AppleTV("10.0.0.2", "Fake"), service, settings, StateProducer(), SessionManager(), lambda *a: (lambda: None),
                ProtocolStateDispatcher(Protocol.DMAP, CoreStateDispatcher()))
    guid = "0x0123456789ABCDEF"
    h = dmap.pair(core, zeroconf=Zc(), addresses=["10.0.0.1"], pairing_guid=guid, name="verif")

    def snap():
        return {"service": service.credentials, "settings": settings.protocols.dmap.credentials, "has_paired": bool(h.has_paired)}

    obs = {"before": snap(), "steps": [], "expected_credentials": "0x" + guid[2:]}
    saved = (dp.web.TCPSite, dp.mdns.publish)
    dp.web.TCPSite, dp.mdns.publish = Site, publish
    try:
        try:
            await h.begin()
            obs["begin"] = "ok"
        except Exception as ex:  # noqa
            obs["begin"] = "raised:" + exc_name(ex)
    finally:
        dp.web.TCPSite, dp.mdns.publish = saved
    for op, arg in spec["history"]:
        if op == "pin":
            h.pin(arg)
            obs["steps"].append({"op": "pin", "arg": arg})
            continue
        code = "zz" if arg == "garbage" else dmap_code(guid[2:], int(arg))

        class Url:
            pass

        class Request:
            rel_url = Url()
        Request.rel_url.query = {"servicename": "remote", "pairingcode": code}
        try:
            resp = await h.handle_request(Request())
            status = resp.status
        except Exception as ex:  # noqa
            status = "raised:" + exc_name(ex)
        obs["steps"].append(dict({"op": "req", "arg": arg, "status": status}, **snap()))
    try:
        await h.finish()
        obs["finish"] = "ok"
    except Exception as ex:  # noqa
        obs["finish"] = "raised:" + exc_name(ex)
    obs["after"] = snap()
    try:
        await h.close()
    except Exception:  # noqa
        pass
    return obs


def judge_dmap_history(spec, obs):
    """Every request is judged against the PIN set most recently (none set: any code pairs)."""
    out = []
    cur = None
    paired = False
    seen = []
    if obs.get("begin") != "ok":
        out.append(("C08:dmap:wrong-exception", "begin() with the web server and mDNS faked failed: %s" % obs.get("begin")))
    for (op, arg), st in zip(spec["history"], obs["steps"]):
        seen.append("%s(%s)" % (op, arg))
        if op == "pin":
            cur = arg
            continue
        accept = cur is None or (arg != "garbage" and "%04d" % int(arg) == str(cur).zfill(4))
        desc = "history %s: PIN in force %r, request carries the code for %s" % (" ".join(seen), cur, arg)
        if accept:
            paired = True
            if st["status"] != 200 or not st["has_paired"]:
                out.append(("C08:dmap:success-not-recorded:after-pin-change", "%s: status=%s has_paired=%s" % (desc, st["status"], st["has_paired"])))
        else:
            if st["status"] == 200 or (st["has_paired"] and not paired):
                out.append(("C08:dmap:wrong-pin-accepted:after-pin-change" if len([x for x in seen if x.startswith("pin")]) > 1 else "C08:dmap:wrong-pin-accepted",
                            "%s: status=%s has_paired=%s" % (desc, st["status"], st["has_paired"])))
        if st["service"] != obs["before"]["service"] or st["settings"] != obs["before"]["settings"]:
            out.append(("C08:dmap:credentials-written-on-failure", "%s: credentials written before finish()" % desc))
    b, a = obs["before"], obs["after"]
    if paired:
        if not (a["has_paired"] and a["service"] == obs["expected_credentials"] == a["settings"] and obs["finish"] == "ok"):
            out.append(("C08:dmap:success-not-recorded:after-pin-change", "history %s: a request was accepted but finish=%s after=%s" % (" ".join(seen), obs["finish"], a)))
    else:
        if a["has_paired"] or a["service"] != b["service"] or a["settings"] != b["settings"]:
            out.append(("C08:dmap:wrong-pin-accepted:after-pin-change", "history %s: no request carried the code of the PIN in force, yet after finish(): %s (before: %s)" % (" ".join(seen), a, b)))
    return out


def dmap_history_specs(rng, thorough):
    """All histories of length <= 4 over {pin(a), pin(b), req(a), req(b), req(garbage)} that contain a
    request (a request before any pin() is made with no PIN configured: any code pairs)."""
    import itertools
    out = []

    def gen(a, b, maxlen):
        ops = [["pin", a], ["pin", b], ["req", a], ["req", b], ["req", "garbage"]]
        for n in range(1, maxlen + 1):
            for seq in itertools.product(ops, repeat=n):
                if any(o[0] == "req" for o in seq):
                    out.append({"handler": "dmap", "history": [list(o) for o in seq]})

    gen(1111, 2222, 4)
    gen(0, 7, 3)                       # zero-padded PINs
    out.append({"handler": "dmap", "history": [["pin", 7], ["req", 7], ["pin", "0007"], ["req", 7]]})
    if thorough:
        for _ in range(4):
            a, b = rng.sample(range(10000), 2)
            gen(a, b, 4)
    return out


def dmap_multi_specs():
    out = []
    for pin in (0, 1234):
        for rounds in ([["correct"], ["other:1"]], [["other:1"], ["correct"]], [["correct"], ["correct"]], [["other:1", "correct"]], [["correct", "other:1"]],
                       [["other:1"], ["zz"]], [["correct"], []], [[], ["correct"]]):
            out.append({"handler": "dmap", "pin": pin, "rounds": rounds})
    return out


# ------------------------------------------------------------------------------------ entry points

def evaluate(spec):
    """-> (observation, [(key, what)]).  spec['tag'] (corpus witnesses of recorded findings) is
    appended to the keys so that such a finding has a key of its own."""
    if "history" in spec:
        obs = run_coro(scenario_dmap_history, spec)
        verdicts = judge_dmap_history(spec, obs)
    elif "rounds" in spec:
        obs = run_coro(scenario_dmap_multi, spec)
        verdicts = judge_dmap_multi(spec, obs)
    elif "attempts" in spec:
        obs = run_coro(scenario_multi, spec)
        verdicts = judge_multi(spec, obs)
    elif spec["handler"] == "dmap":
        obs = run_dmap(spec)
        verdicts = judge_dmap(spec, obs)
    else:
        obs = run_spec(spec)
        verdicts = judge(spec, obs)
    if spec.get("tag"):
        verdicts = [(k + ":" + spec["tag"], w) for k, w in verdicts]
    return obs, verdicts


def canon(spec):
    return tuple(sorted((k, str(v)) for k, v in spec.items() if k != "part"))


def brief(obs):
    if "attempts" in obs:
        return {"attempts": [{k: a[k] for k in ("begin", "begin_msg", "finish", "finish_msg", "hit_name", "before", "after")} for a in obs["attempts"]]}
    if "rounds" in obs or "steps" in obs:
        return obs
    keys = ("begin", "finish", "begin_msg", "finish_msg", "hit_name", "before", "after", "status", "after_request", "replies")
    return {k: obs[k] for k in keys if k in obs}


def _eval_safe(spec):
    try:
        return evaluate(spec)
    except BaseException as ex:  # noqa
        import traceback
        return ("driver-error", "%r\n%s" % (ex, traceback.format_exc()[-1500:]))


def run_part(ctx):
    import multiprocessing
    ctx.extra.setdefault("dyn", {})
    table = {}
    n_runs = 0
    swallowed_tamper = []
    samples, sampled = [], set()
    table_runs = []
    # every run is an independent function of its spec (fresh handler, fresh virtual-time loop), so the
    # runs are spread over a few worker processes; results are consumed in submission order
    workers = max(1, min(8, (os.cpu_count() or 2) // 2))
    pool = multiprocessing.get_context("fork").Pool(workers) if workers > 1 else None

    def many(specs, from_corpus=None):
        specs = [dict(sp, part="dyn") for sp in specs]
        results = pool.map(_eval_safe, specs, chunksize=4) if pool else [_eval_safe(sp) for sp in specs]
        out = []
        for idx, (spec, res) in enumerate(zip(specs, results)):
            out.append(record(spec, res, from_corpus[idx] if from_corpus else None))
        return out

    def record(spec, res, from_corpus):
        nonlocal n_runs
        if res[0] == "driver-error":   # the driver itself failed: the tie to the code is broken
            ctx.tie_broken("dyn:driver", json.dumps({"spec": spec, "error": res[1]}))
            return None
        obs, verdicts = res
        n_runs += 1
        h = spec["handler"]
        if "attempts" in spec or "rounds" in spec or "history" in spec:
            ctx.count("%s:%s" % (h, "pin-and-request-histories" if "history" in spec else "several-attempts"))
            if (h, "multi") not in sampled:
                sampled.add((h, "multi"))
                samples.append({"spec": spec, "observed": brief(obs)})
            ctx.case(canon(spec), nontrivial=True, sample=None)
            for key, what in verdicts:
                ctx.violation(key, what, dict(spec, observed=brief(obs), corpus_file=from_corpus))
            return obs
        kind = spec.get("kind") or spec.get("misuse") or ("cancel" if (spec.get("cancel") or "cancel_after" in spec) else ("code" if h == "dmap" else "fault-free"))
        ctx.count("%s:%s" % (h, kind))
        hit = obs.get("hit", True) or kind in ("fault-free", "wrong_pin", "no_pin", "no_begin", "code") or "cancel_after" in spec
        if (h, kind) not in sampled and len(samples) < 60:
            sampled.add((h, kind))
            samples.append({"spec": spec, "observed": brief(obs)})
        ctx.case(canon(spec), nontrivial=bool(hit), sample=None)
        if h != "dmap":
            outcome = obs["finish"] if obs["finish"] != "skipped" else "begin " + obs["begin"]
            label = kind + ("/" + str(spec["sub"]) if spec.get("sub") else "") + ("(fresh)" if spec.get("fresh") else "")
            if "cancel_after" not in spec:
                table.setdefault(h, {}).setdefault("%s@%s" % (label, obs.get("hit_name") or "-"), outcome)
            if kind == "tamper" and obs["begin"] == "ok" and obs["finish"] == "ok" and obs["hit"]:
                swallowed_tamper.append("%s %s at %s" % (h, spec.get("sub"), obs.get("hit_name")))
        for key, what in verdicts:
            ctx.violation(key, what, dict(spec, observed=brief(obs), corpus_file=from_corpus))
        if h != "dmap" and not verdicts:
            table_runs.append((spec, obs))
        return obs

    try:
        # 1. corpus first
        cspecs, cnames = [], []
        for fname, d in common.load_corpus("C08"):
            r = d.get("replay", d)
            if r.get("part") == "dyn" and r.get("handler"):
                cspecs.append({k: v for k, v in r.items() if k not in ("observed", "corpus_file")})
                cnames.append(fname)
        many(cspecs, cnames)
        ctx.count("corpus", len(cspecs))

        # 2. fault-free runs (stored credentials present / first-time pairing) give the message indices
        handlers = ["mrp", "companion", "airplay_hap", "airplay_legacy", "raop", "raop_hap"]
        bases = many([{"handler": h} for h in handlers] + [{"handler": h, "fresh": True} for h in handlers])
        specs = []
        sweeps = []
        multi = []
        for n, h in enumerate(handlers):
            base, fresh = bases[n], bases[n + len(handlers)]
            if base is not None and base["begin"] == "ok" and base["finish"] == "ok":
                specs += matrix(h, base["replies"], ctx.rng, ctx.thorough)
                sweeps += [(h, phase, {}) for phase in ("begin", "finish")]
                multi += multi_specs(h, base["replies"], ctx.rng, ctx.thorough)
            # first-time pairing (nothing stored before): Companion then skips its connect-time
            # pair-verify, so it gets the full matrix; the others a light one in the quick tier
            if fresh is not None and fresh["begin"] == "ok" and fresh["finish"] == "ok":
                specs += matrix(h, fresh["replies"], ctx.rng, ctx.thorough, extra={"fresh": True}, light=not (ctx.thorough or h == "companion"))
                if ctx.thorough or h == "companion":
                    sweeps += [(h, phase, {"fresh": True}) for phase in ("begin", "finish")]
                if ctx.thorough:      # credentials stored in only one of the two places
                    specs += matrix(h, fresh["replies"], ctx.rng, False, extra={"stored": "settings-only"}, light=True)
                    if base is not None and base["finish"] == "ok":
                        specs += matrix(h, base["replies"], ctx.rng, False, extra={"stored": "service-only"}, light=True)
            # (a fault-free run that fails is reported by the oracle as success-not-recorded)
        # 2b. the dimension "what was stored before": valid credentials of another kind and strings that
        #     do not parse, in service AND settings, crossed with the failure placements.  Whether a handler
        #     can pair at all from such a state is its business; after a FAILED attempt both stores must
        #     hold byte for byte what they held before.
        vspecs = [{"handler": h, "old": v} for h in handlers for v in STORED_VARIANTS]
        vbases = many(vspecs)
        for sp, vb in zip(vspecs, vbases):
            if vb is not None:
                specs += matrix(sp["handler"], vb["replies"], ctx.rng, False, extra={"old": sp["old"]}, light=True)
        if ctx.thorough:
            # fresh key material / salts per run (the quick tier uses one fixed stream, rseed 1)
            for sp in specs:
                sp["rseed"] = ctx.rng.randrange(2, 10 ** 6)
        specs += dmap_specs(ctx.rng, ctx.thorough)
        many(specs)
        # several attempts on ONE handler object (success then failure, failure then success, ...)
        many(multi + dmap_multi_specs())
        # DMAP: the user changes the PIN between device requests
        many(dmap_history_specs(ctx.rng, ctx.thorough))
        # 3. cancellation at EVERY scheduling point of begin() and of finish(), not only while a reply
        #    is awaited: cancel after k turns of the event loop, k = 0 .. until the call completes
        k0, width = 0, 16
        while sweeps and k0 < 96:
            batch = [dict({"handler": h, "cancel_after": k, "phase": phase}, **extra) for (h, phase, extra) in sweeps for k in range(k0, k0 + width)]
            res = many(batch)
            still = []
            for n, sw in enumerate(sweeps):
                last = res[n * width + width - 1]
                if last is not None and last[sw[1]] == "cancelled":
                    still.append(sw)
            sweeps = still
            k0 += width
    finally:
        if pool:
            pool.close()
            pool.join()
    model_correspondence(ctx, table_runs)
    ctx.exhaustive = True
    ctx.extra["dyn"]["outcome_table"] = table
    ctx.extra["dyn"]["samples"] = samples
    ctx.extra["dyn"]["runs_of_the_real_handlers"] = n_runs
    ctx.extra["dyn"]["tampered_replies_accepted_(authenticity,_C06,_not_judged_here)"] = sorted(set(swallowed_tamper))
    ctx.extra["dyn"]["exception_classes_promised"] = (
        "error_handler: OSError/TimeoutError -> ConnectionFailedError; BackOffError/NoCredentialsError pass through; anything else -> PairingError. "
        "AirPlay/RAOP begin() awaits http_connect() outside error_handler, so OSError may surface there. Accepted: PairingError, ConnectionFailedError, "
        "ConnectionLostError, BackOffError, NoCredentialsError (+OSError from AirPlay/RAOP begin).")
    ctx.trusted += [
        "fake devices of the fault enumeration (harness/c08_dyn.py): pyatv's own server-side helpers (mrp/companion/airplay server_auth.py) behind an in-memory "
        "pipe, a legacy AirPlay SRP device written on srptools/cryptography, fake aiohttp request objects for DMAP; single-fault model (one reply replaced, the rest honest)",
    ]
    ctx.assumptions += [
        "fault enumeration: replies outside the pairing exchange proper (MRP device-info, Companion connect-time pair-verify with the OLD credentials, body of the "
        "/pair-pin-start reply) may have content faults tolerated; transport faults there must still raise",
        "well-formed but altered replies (kind 'tamper': wrong proof, wrong signature) are an authenticity matter (C06) and only judged for consistency here",
    ]


def model_correspondence(ctx, runs):
    """Decision table of coq/C08/DynModel.v against the observed runs, evaluated inside Coq: which
    call (begin/finish) ends, how (raised/cancelled), and what is stored afterwards.  Runs that the
    oracle already reports (violations) and tolerated faults (see EXCHANGE_REPLIES, 'tamper') are
    not part of the table."""
    shape = {}
    for spec, obs in runs:
        if not spec.get("kind") and not spec.get("misuse") and not spec.get("cancel") and "cancel_after" not in spec and obs["finish"] == "ok":
            # Companion connects without pair-verify whenever the SERVICE carries no credentials
            key = (spec["handler"], len(obs["replies"]))
            shape.setdefault(key, (len(obs["replies"]), obs["replies_in_begin"], list(obs["replies"])))
    cc = common.CoqCases(ctx, "From PV Require Import Common.Cases C08.DynModel.", per_file=300)
    cc.group("dyn", "check_case", "obs")
    for spec, obs in runs:
        if spec.get("misuse") or "cancel_after" in spec or spec.get("old"):
            continue          # (with unusual stored credentials a handler may refuse to pair: not in the table)
        h = spec["handler"]
        cands = [v for (hh, _), v in shape.items() if hh == h]
        if not cands:
            continue
        kind = spec.get("kind")
        if not kind and not spec.get("cancel"):
            n, nb, names = len(obs["replies"]), obs["replies_in_begin"], obs["replies"]
            i, x = 0, "Good"
        else:
            # the exchange this run belongs to: the fault-free one whose replies start like this run's
            got = obs["replies"]
            match = [v for v in cands if v[2][:len(got)] == got] or [v for v in cands if got[:1] == v[2][:1]]
            if not match:
                continue
            n, nb, names = match[0]
            if spec.get("cancel"):
                if not obs["hit"]:
                    continue
                i, x = spec["index"], "Held"
            elif kind == "wrong_pin":
                rej = [k for k, nm in enumerate(names) if nm in ("ps-m4", "legacy-step2")]
                if not rej:
                    continue
                i, x = rej[0], "Bad"
            elif kind == "refused":
                i, x = 0, "Bad"
            elif kind == "malformed":
                continue          # a malformed value may only be noticed at a later step (e.g. an empty Salt at M4)
            elif exchange_failed(spec, obs):
                i, x = spec["index"], "Bad"
            else:
                continue
        if obs["begin"] not in ("ok", "skipped"):
            call, how = 1, (2 if obs["begin"] == "cancelled" else 1)
        elif obs["finish"] != "ok":
            call, how = 2, (2 if obs["finish"] == "cancelled" else 1)
        else:
            call, how = 0, 0
        b, a = obs["before"], obs["after"]
        term = ("{| o_n := %d; o_nb := %d; o_i := %d; o_x := %s; o_call := %d; o_how := %d; o_service := %s; o_settings := %s; o_paired := %s |}"
                % (n, nb, i, x, call, how, common.cbool(a["service"] != b["service"]), common.cbool(a["settings"] != b["settings"]), common.cbool(a["has_paired"])))
        cc.add("dyn", term, {"spec": spec, "observed": brief(obs), "model_input": term})
    bad = cc.run(timeout=300)
    for g, meta in bad[:5]:
        ctx.tie_broken("correspondence:dyn-decision-table", json.dumps(meta, default=repr))
    ctx.extra["dyn"]["decision_table_cases"] = sum(len(d["cases"]) for d in cc.groups.values())
    ctx.extra["dyn"]["decision_table_mismatches"] = len(bad)


def replay_part(ctx, r):
    spec = {k: v for k, v in r.items() if k not in ("observed", "corpus_file")}
    obs, verdicts = evaluate(spec)
    print(json.dumps({"spec": spec, "observed": obs, "verdicts": verdicts}, indent=1, default=repr))
    return 1 if verdicts else 0
