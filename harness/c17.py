"""C17 - buffered audio input is read without loss or duplication.

Theorems: coq/C17 (SemiSeekableBuffer, BufferedIOBaseWrapper, StreamReaderWrapper and the two
thin adapters, PatchedIceCastClient's buffer logic).  This file

  * drives the REAL classes with operation histories (exhaustive over tiny buffers, generated
    for sizes up to the production 64 KiB / 32 KiB),
  * judges the property on what comes out (the oracle: a reference byte stream with a cursor),
  * and hands every history with the observations made on the implementation to Coq, where
    the model is evaluated on the same history (`check_case`).

How returned bytes are identified: the code under test never looks at the content of a byte,
so every history is run up to three times on sources of identical shape whose byte at offset
o is digit 0, 1 or 2 of o in base 256; the digits of one returned byte give its source offset
exactly (lengths and all other results must be identical in the runs, which is checked).
"""
import io
import json
import os
import signal
import threading

import common

KEY = {"buf": "buffer", "bio": "bufferedio", "srw": "streamreader", "sio": "streamable-io", "ice2": "icecast", "race": "icecast",
       "ssw": "streamable-source", "ice": "icecast"}
COQKIND = {"buf": "KBuf", "bio": "KBio", "srw": "KSrw", "sio": "KSio", "ssw": "KSsw"}
KNOWN_BYPASS = "C17:streamreader:bypass-stale-position"
SIO_KEY = "C17:streamable-io:seek-reports-success-when-not-honoured"
ICE_KEY = "C17:icecast:chunk-larger-than-checked-room"
NEG_KEY = "C17:buffer:negative-seek-accepted"
ICE_LEN = 1 << 24          # the HTTP body never ends in the icecast cases
CASE_TIMEOUT = 60          # seconds of wall clock for one history on the implementation


# --------------------------------------------------------------------------- content

_CONTENT = {}


def content(length, digit):
    k = (length, digit)
    if k not in _CONTENT:
        if len(_CONTENT) > 64:
            _CONTENT.clear()
        sh = 8 * digit
        if digit == 0:
            b = (bytes(range(256)) * (length // 256 + 1))[:length]
        else:
            b = bytes((i >> sh) & 255 for i in range(length))
        _CONTENT[k] = b
    return _CONTENT[k]


def chunk_bytes(chunks, digit):
    sh = 8 * digit
    out = bytearray()
    for (o, l) in chunks:
        out += bytes(((o + i) >> sh) & 255 for i in range(l))
    return bytes(out)


def ndigits(maxoff):
    return 1 if maxoff <= 256 else (2 if maxoff <= 65536 else 3)


def rle(offsets):
    runs = []
    for o in offsets:
        if runs and runs[-1][0] + runs[-1][1] == o:
            runs[-1][1] += 1
        else:
            runs.append([o, 1])
    return [tuple(r) for r in runs]


# --------------------------------------------------------------------------- fakes

class Source:
    """The underlying non-seekable reader: read(n) returns min(n, left, cap) bytes."""

    def __init__(self, data):
        self.data = data
        self.cur = 0
        self.cap = None
        self.calls = 0          # calls made during the current wrapper operation

    def take(self, n):
        left = len(self.data) - self.cur
        if n is None or n < 0:
            k = left
        else:
            k = min(n, left)
            if self.cap is not None:
                # the limit varies from call to call within one operation (cap, cap/2, cap, ...), never below 1
                k = min(k, self.cap if self.calls % 2 == 0 else max(1, self.cap // 2))
        self.calls += 1
        r = self.data[self.cur:self.cur + k]
        self.cur += k
        return r


class FileSource(Source):
    def read(self, n=-1):
        return self.take(n)

    def seekable(self):
        return False


class StreamSource(Source):
    async def read(self, n=-1):
        return self.take(n)


class _Done:
    def __init__(self, v):
        self.v = v

    def result(self, timeout=None):
        return self.v


class AsyncioShim:
    """Stands in for the `asyncio` name inside audio_source while a StreamReaderWrapper is
    driven from this (single) thread: the coroutine handed to run_coroutine_threadsafe is run
    to completion on the spot."""

    def __init__(self, real):
        self._real = real

    def __getattr__(self, n):
        return getattr(self._real, n)

    def get_event_loop(self):
        return None

    def run_coroutine_threadsafe(self, coro, loop):
        try:
            coro.send(None)
        except StopIteration as e:
            return _Done(e.value)
        coro.close()
        raise RuntimeError("fake reader suspended")


_PATCHED = {}


def audio_source():
    import pyatv.protocols.raop.audio_source as A
    if "A" not in _PATCHED:
        import asyncio
        A.asyncio = AsyncioShim(asyncio)
        _PATCHED["A"] = A
    return A


# --------------------------------------------------------------------------- driver

class ImplError(Exception):
    pass


def build(kind, size, head, prot, length, digit):
    """Returns (object to drive, buffer, source)."""
    from pyatv.support.buffer import SemiSeekableBuffer
    buf = SemiSeekableBuffer(size, seekable_headroom=head, protected_headroom=prot)
    if kind == "buf":
        return buf, buf, None
    A = audio_source()
    data = content(length, digit)
    if kind in ("bio", "sio"):
        src = FileSource(data)
        w = A.BufferedIOBaseWrapper(src, buf)
        if kind == "sio":
            w = A.StreamableIOBaseWrapper(w)
        return w, buf, src
    src = StreamSource(data)
    w = A.StreamReaderWrapper(src, buf)
    if kind == "ssw":
        w = A.StreamableSourceWrapper(w, buf)
    return w, buf, src


def do_op(kind, w, buf, src, op, digit):
    """Execute one operation on the implementation; returns a raw result tuple."""
    import miniaudio
    t = op[0]
    if t in ("pbegin", "pend"):          # markers around a metadata probe (no call on the implementation)
        return ("none",)
    if t == "prot":
        from pyatv.exceptions import InvalidStateError
        try:
            buf.protected_headroom = op[1]
            return ("none",)
        except InvalidStateError:
            return ("raise",)
    if t == "add":
        return ("num", buf.add(chunk_bytes(op[1], digit)))
    if t == "get":
        return ("data", bytes(buf.get(op[1])))
    if t == "fits":
        return ("bool", bool(buf.fits(op[1])))
    if t == "seek":
        p, wh = op[1], whence(op[2])
        if kind == "buf":
            return ("bool", bool(buf.seek(p)))
        if kind in ("bio", "ssw"):
            return ("num", w.seek(p, (io.SEEK_SET, io.SEEK_CUR, io.SEEK_END)[wh]))
        org = miniaudio.SeekOrigin.START if wh == 0 else miniaudio.SeekOrigin.CURRENT   # miniaudio has no END
        return ("bool", bool(w.seek(p, org)))
    if t == "read":
        src.cap = op[2]
        src.calls = 0
        return ("data", bytes(w.read(op[1])))
    raise ValueError(op)


def whence(x):
    """Third field of a seek op: True = START/SEEK_SET, False = CURRENT/SEEK_CUR, 2 = SEEK_END."""
    return 0 if x is True else (1 if x is False else 2)


def snapshot(buf, src):
    return (buf.position, buf.size, buf.remaining, src.cur if src is not None else 0,
            bool(buf.protected_headroom))


def drain_ops(case, w, buf, src, digit, ops, raw, feeder=None):
    """After the scripted history: optionally rewind and un-protect (what BufferedIOBaseSource.open
    does after metadata probing), then read until nothing comes any more."""
    kind = case["kind"]

    def emit(op):
        ops.append(op)
        r = do_op(kind, w, buf, src, op, digit)
        raw.append((r, snapshot(buf, src)))
        return r

    if case.get("rewind"):
        r = emit(("seek", 0, True))
        ok = (r[1] is True) if r[0] == "bool" else (r[1] == 0)
        if ok and buf.position == 0:
            emit(("prot", False))
    n = case.get("drain", 0)
    if n <= 0:
        return
    empties = 0
    for _ in range(case.get("drain_max", 48)):
        r = emit(("get", n) if kind == "buf" else ("read", n, None))
        if len(r[1]) == 0:
            empties += 1
            if empties >= 2:
                break
        else:
            empties = 0


class FakeTag:
    title, artist, album, duration = "verif", None, None, 1.0


_PROBE = {"loop": None}


def do_probe(kind, w, buf, src, script, raises, emit):
    """Metadata probing as the library does it: the REAL get_buffered_io_metadata (audio_source) and the real
    get_metadata/_open_file (support.metadata) run on a recording stand-in for the wrapper; only TinyTag is
    replaced: its place is taken by a scripted sequence of reads and seeks (a tag parser is an arbitrary
    reader of the file object).  Every call that reaches the wrapper is recorded as an ordinary operation."""
    import asyncio as real_asyncio
    import pyatv.support.metadata as M
    A = audio_source()

    class Recorder(io.BufferedIOBase):
        name = "stream"

        def read(self, n=-1):
            return emit(("read", -1 if n is None else n, None))

        def seek(self, pos, origin=io.SEEK_SET):
            return emit(("seek", pos, {0: True, 1: False}.get(origin, 2)))

        def tell(self):
            return w.tell()

        def seekable(self):
            return True

        def readable(self):
            return True

    Tiny = scripted_tinytag(script, raises)
    emit(("pbegin", buf.position))
    empty = probe_with(Recorder(), Tiny)
    emit(("pend", empty))


def scripted_tinytag(script, raises):
    class Tiny:
        @staticmethod
        def get(filename=None, file_obj=None, **kw):
            for op in script:
                if op[0] == "read":
                    file_obj.read(op[1])
                else:
                    file_obj.seek(op[1], (io.SEEK_SET, io.SEEK_CUR, io.SEEK_END)[whence(op[2])])
            if raises:
                raise ValueError("no tag found")
            return FakeTag()
    return Tiny


def probe_with(file_obj, Tiny):
    """Run the real get_buffered_io_metadata on file_obj with TinyTag replaced; True when it returned EMPTY_METADATA."""
    import asyncio as real_asyncio
    import pyatv.support.metadata as M
    A = audio_source()
    if _PROBE["loop"] is None:
        _PROBE["loop"] = real_asyncio.new_event_loop()
    loop = _PROBE["loop"]
    old_tiny, M.TinyTag = M.TinyTag, Tiny
    old_log = (A.logging.exception, A.logging.warning)
    A.logging.exception = A.logging.warning = lambda *a, **k: None
    real_asyncio.set_event_loop(loop)
    try:
        md = loop.run_until_complete(A.get_buffered_io_metadata(file_obj))
    finally:
        real_asyncio.set_event_loop(None)
        M.TinyTag = old_tiny
        A.logging.exception, A.logging.warning = old_log
    return md.title is None


def run_impl(case):
    """Run the case on the implementation.  Returns (ops actually executed, observations) where an
    observation is dict(res=..., pos, size, rem, src, prot); data results are decoded to runs of
    source offsets.  Raises ImplError on behaviour outside the observation language."""
    kind, size, head, prot, length = case["kind"], case["size"], case["head"], case["prot"], case["len"]
    try:
        w, buf, src = build(kind, size, head, prot, length, 0)
    except ValueError:
        return [], None
    ops, raw = [], []
    feeder = 0
    maxoff = length
    try:
        def emit(op):
            ops.append(op)
            r = do_op(kind, w, buf, src, op, 0)
            raw.append((r, snapshot(buf, src)))
            return r[1] if len(r) > 1 else None

        for op in case["ops"]:
            if op[0] == "probe":
                do_probe(kind, w, buf, src, [tuple(x) for x in op[1]], op[2], emit)
                continue
            fed = op[0] == "addf"
            if fed:                             # offer the next n bytes of the feeder, honour the result
                op = ("add", [(feeder, op[1])])
            ops.append(op)
            r = do_op(kind, w, buf, src, op, 0)
            if op[0] == "add":
                for (o, l) in op[1]:
                    maxoff = max(maxoff, o + l)
                if fed:
                    feeder += r[1]
            raw.append((r, snapshot(buf, src)))
        drain_ops(case, w, buf, src, 0, ops, raw)
    except Exception as ex:  # the implementation raised something unexpected
        raise ImplError("%s: %r after %d ops" % (type(ex).__name__, ex, len(raw)), ops)
    runs = [raw]
    for digit in range(1, ndigits(maxoff)):
        w, buf, src = build(kind, size, head, prot, length, digit)
        rr = []
        try:
            for op in ops:
                r = do_op(kind, w, buf, src, op, digit)
                rr.append((r, snapshot(buf, src)))
        except Exception as ex:
            raise ImplError("%s: %r (digit run %d)" % (type(ex).__name__, ex, digit), ops)
        runs.append(rr)
    return ops, combine(runs)


def combine(runs):
    obs = []
    for i in range(len(runs[0])):
        r0, snap = runs[0][i]
        for rr in runs[1:]:
            r, s = rr[i]
            if s != snap or r[0] != r0[0] or (r0[0] == "data" and len(r[1]) != len(r0[1])) or \
                    (r0[0] != "data" and r != r0):
                raise ImplError("behaviour depends on the content of the bytes at op %d" % i, None)
        if r0[0] == "data":
            offs = list(r0[1])
            for d, rr in enumerate(runs[1:], 1):
                for j, b in enumerate(rr[i][0][1]):
                    offs[j] += b << (8 * d)
            res = ("data", rle(offs))
        else:
            res = r0
        obs.append({"res": res, "pos": snap[0], "size": snap[1], "rem": snap[2], "src": snap[3], "prot": snap[4]})
    return obs


# --------------------------------------------------------------------------- the oracle

def oracle(case, ops, obs):
    """The property, judged on the implementation's observable behaviour only.

    A reference stream with a cursor c: every read must return the bytes that follow the
    cursor (any amount up to the request), a seek that reports success moves the cursor to
    the requested offset, one that reports failure leaves it alone.  Returns None or
    (key, message, op index)."""
    kind = case["kind"]
    name = KEY[kind]
    length = case["len"]
    acc = []                  # kind == buf: offsets accepted by add(), in order
    c = 0
    prev_pos = 0
    pending_seek = None       # last successful seek not yet confirmed by a non-empty read
    taint = None              # set once a seek reported success in a situation of a recorded finding
    probe = None              # inside a metadata probe: cursor at its start, whether its rewind succeeded

    def fail(key, msg, i):
        if taint is not None:
            return (taint[0], taint[1] + "; then: " + msg, i)
        return (key, msg, i)

    prev_src = prev_size = 0
    for i, (op, ob) in enumerate(zip(ops, obs)):
        t = op[0]
        res = ob["res"]
        if t == "download":
            taken, stored = ob["src"] - prev_src, ob["size"] - prev_size
            if taint is None and stored < taken and op[1] > case["block"]:
                taint = (ICE_KEY, "download at op %d: fits(BLOCK_SIZE=%d) was checked but a chunk of %d bytes (icy-metaint) "
                         "was add()ed and only %d were stored" % (i, case["block"], taken, stored))
        elif t == "add":
            k = res[1]
            flat = [o + j for (o, l) in op[1] for j in range(l)]
            if k > len(flat):
                return fail("C17:%s:add-count" % name, "add() reports more bytes than offered", i)
            acc.extend(flat[:k])
        elif t == "pbegin":
            probe = {"before": c, "rewound": None, "i": i, "prot": ob["prot"], "maxpos": ob["pos"]}
        elif t == "pend":
            # the reader that follows the probe must find the stream where it was (or honestly rewound to 0)
            # (with an unprotected headroom a parser that reads past the headroom discards it itself: no way back)
            if probe is not None and (probe["prot"] or probe["maxpos"] < case["head"]) and c not in (probe["before"], 0):
                return fail("C17:%s:probe-moved-position" % name, "metadata probe started at offset %d and left the stream at "
                            "offset %d: the bytes in between are lost for the reader that follows"
                            % (probe["before"], c), i)
            if probe is not None and probe["rewound"] is False and not op[1]:
                return fail("C17:%s:probe-without-rewind" % name, "metadata returned although the stream could not be "
                            "rewound", i)
            probe = None
        elif t == "seek":
            p, wh = op[1], whence(op[2])
            start = wh == 0
            stream_len = len(acc) if kind == "buf" else length
            target = (p, c + p, stream_len + p)[wh]
            if res[0] == "bool":
                ok = res[1]
            else:
                ok = res[1] == target
            if ok and target < 0:
                # no byte of the source has a negative offset: this seek cannot be honoured
                msg = "seek(%d, %s) at op %d reports success for offset %d (buffer.position is now %d)" % (
                    p, ("START", "CURRENT", "END")[wh], i, target, ob["pos"])
                if ob["pos"] < 0:
                    return fail(NEG_KEY, msg, i)           # the buffer itself accepted a negative position
                if kind == "sio":
                    return fail(SIO_KEY, msg, i)           # the adapter says True, the wrapped reader did not move there
                return fail("C17:%s:seek-true-for-negative-offset" % name, msg, i)
            if probe is not None and probe["rewound"] is None:
                probe["rewound"] = bool(ok) and target == 0        # the helper's first call: seek(0)
            if ok:
                if taint is None and kind in ("srw", "ssw") and prev_pos != c:
                    # the listed finding covers absolute (START) seeks, and the io-style wrapper whose relative seeks go
                    # through the same stale position; StreamReaderWrapper refuses relative seeks, so one that reports
                    # success from a stale position is a different history and is reported under its own key
                    taint = (KNOWN_BYPASS if (wh == 0 or kind != "srw") else "C17:%s:relative-seek-from-stale-position" % name, "seek(%d) at op %d reported success while buffer.position (%d) was stale "
                             "after reads that bypassed the buffer (true offset %d)" % (p, i, prev_pos, c))
                if taint is None and kind == "sio" and ob["pos"] != target:
                    taint = (SIO_KEY, "StreamableIOBaseWrapper.seek(%d, %s) at op %d returned True although the wrapped "
                             "BufferedIOBaseWrapper did not move (position %d)"
                             % (p, ("START", "CURRENT", "END")[wh], i, ob["pos"]))
                if target != c or pending_seek is not None:
                    pending_seek = i
                c = target
        elif t in ("read", "get"):
            n = op[1]
            runs = res[1]
            total = sum(l for (_, l) in runs)
            if n >= 0 and total > n:
                return fail("C17:%s:over-read" % name, "read(%d) returned %d bytes" % (n, total), i)
            if total and probe is not None and probe["rewound"] is False:
                return fail("C17:%s:probe-consumes-without-rewind" % name, "the stream could not be rewound (seek(0) at op %d "
                            "was refused) but the metadata probe went on and consumed %d bytes at offset %d"
                            % (probe["i"] + 1, total, c), i)
            if total:
                if kind == "buf":
                    exp = rle(acc[c:c + total]) if c + total <= len(acc) else None
                else:
                    exp = [(c, total)] if c + total <= length else None
                if runs != exp:
                    first = runs[0][0]
                    if pending_seek is not None:
                        return fail("C17:%s:seek-true-not-repositioned" % name,
                                    "seek at op %d reported success; next read returned %r, expected offset %d"
                                    % (pending_seek, runs[:3], c), i)
                    if exp is not None and first > c:
                        what = "lost-bytes"
                    elif first < c:
                        what = "duplicated-bytes"
                    else:
                        what = "wrong-bytes"
                    return fail("C17:%s:%s" % (name, what), "read returned %r, reference stream continues at offset %d"
                                % (runs[:3], c), i)
                pending_seek = None
                c += total
            elif n > 0:
                if kind == "buf":
                    if c < len(acc):
                        return fail("C17:buffer:lost-bytes", "get(%d) returned nothing although %d accepted bytes "
                                    "were never returned" % (n, len(acc) - c), i)
                elif c < length and not (ob["prot"] and ob["rem"] == 0):
                    # end of stream reported although the source has more (allowed only in the documented
                    # protected-and-full situation)
                    return fail("C17:%s:premature-eof" % name, "read(%d) returned nothing at offset %d of %d "
                                "(protected=%s, remaining=%d)" % (n, c, length, ob["prot"], ob["rem"]), i)
        prev_pos = ob["pos"]
        prev_src, prev_size = ob["src"], ob["size"]
        if probe is not None:
            probe["maxpos"] = max(probe["maxpos"], ob["pos"])
    return None


# --------------------------------------------------------------------------- Coq terms

def cnum(n):
    assert n >= 0
    return str(n)            # the generated files open N_scope


def c_optN(n):
    return "None" if n is None or n < 0 else "(Some %s)" % cnum(n)


def c_data(runs):
    return "[" + "; ".join("(%s, %s)" % (cnum(o), cnum(l)) for (o, l) in runs) + "]"


def c_op(op):
    t = op[0]
    if t == "add":
        return "OAdd %s" % c_data(op[1])
    if t == "get":
        return "OGet %s" % cnum(op[1])
    if t == "fits":
        return "OFits %s" % cnum(op[1])
    if t == "seek":
        if op[1] < 0 or whence(op[2]) == 2:
            return "OSeekX (%d)%%Z %d" % (op[1], whence(op[2]))
        return "OSeek %s %s" % (cnum(op[1]), common.cbool(op[2]))
    if t == "prot":
        return "OProt %s" % common.cbool(op[1])
    if t == "read":
        return "ORead %s %s" % (c_optN(op[1]), c_optN(op[2]))
    raise ValueError(op)


def c_res(res):
    t = res[0]
    if t == "num":
        return "RNum %s" % cnum(res[1])
    if t == "data":
        return "RData %s" % c_data(res[1])
    if t == "bool":
        return "RBool %s" % common.cbool(res[1])
    if t == "none":
        return "RNone"
    if t == "raise":
        return "RRaise"
    raise ValueError(res)


def c_obs(ob):
    return "mkobs (%s) %s %s %s %s" % (c_res(ob["res"]), cnum(ob["pos"]), cnum(ob["size"]),
                                      cnum(ob["rem"]), cnum(ob["src"]))


def coq_case(case, ops, obs):
    if obs:
        keep = [j for j, o in enumerate(ops) if o[0] not in ("pbegin", "pend")]
        ops, obs = [ops[j] for j in keep], [obs[j] for j in keep]
    return "(%s, %s, %s, %s, %s,\n  [%s],\n  [%s])" % (
        COQKIND[case["kind"]], cnum(case["size"]), cnum(case["head"]), common.cbool(case["prot"]),
        cnum(case["len"]), "; ".join(c_op(o) for o in ops),
        "; ".join(c_obs(o) for o in (obs or [])))


# --------------------------------------------------------------------------- icecast

class StopDriver(BaseException):       # not an Exception: must pass through `except Exception` of the code under test
    pass


def run_ice_once(case, digit):
    """Drive PatchedIceCastClient._download_stream and .read/.seek deterministically from one
    thread: consumer operations of the script are executed whenever the download loop reaches
    one of its two waiting points (sleep while the block does not fit, read of the HTTP body)."""
    A = audio_source()
    from pyatv.support.buffer import SemiSeekableBuffer
    import miniaudio
    from pyatv.exceptions import InvalidStateError
    block, size, head, prot, meta = case["block"], case["size"], case["head"], case["prot"], case["meta"]
    buf = SemiSeekableBuffer(size, seekable_headroom=head, protected_headroom=prot)
    cli = object.__new__(A.PatchedIceCastClient)        # no download thread, no network
    cli.url = "http://verif.invalid/stream"
    cli.error_message = None
    cli._stop_stream = False
    cli._buffer = buf
    cli._buffer_lock = threading.Lock()
    cli.BLOCK_SIZE = block
    script = list(case["ops"])
    ops, raw = [], []
    # "slice": a download marker of the script has been consumed and the download loop is about
    # to use it (one fits() check and, if the block fits, one iteration)
    state = {"i": 0, "audio": 0, "pending": None, "slice": False}
    sh = 8 * digit

    def audio(n):
        a = state["audio"]
        state["audio"] = a + n
        return bytes(((a + j) >> sh) & 255 for j in range(n))

    def record(op, r):
        ops.append(op)
        raw.append((r, (buf.position, buf.size, buf.remaining, state["audio"], bool(buf.protected_headroom))))

    def finalize():
        # the chunk handed out at the previous waiting point has been add()ed by now
        if state["pending"] is not None:
            record(state["pending"], ("none",))
            state["pending"] = None

    def consumer_until_download():
        """Run scripted consumer ops up to (and including) the next download marker."""
        while True:
            if state["i"] >= len(script):
                raise StopDriver()
            op = script[state["i"]]
            state["i"] += 1
            if op[0] == "download":
                return
            if op[0] == "read":
                n = min(op[1], len(buf))           # a larger read would wait for the download thread
                record(("read", n, None), ("data", bytes(cli.read(n))))
            elif op[0] == "seek":
                record(("seek", op[1], True), ("bool", bool(cli.seek(op[1], miniaudio.SeekOrigin.START))))
            elif op[0] == "prot":
                try:
                    buf.protected_headroom = op[1]
                    record(op, ("none",))
                except InvalidStateError:
                    record(op, ("raise",))

    class Raw:
        headers = {"icy-metaint": str(meta)} if meta else {}

        def __init__(self):
            self.left = b""         # physical bytes of the current meta interval not yet handed out
            self.calls = 0

        def read(self, n):
            self.calls += 1
            if self.calls > 200000:
                raise ImplError("more than 200000 raw.read() calls in one history", None)
            if not meta:
                finalize()
                if not state["slice"]:
                    consumer_until_download()
                state["slice"] = False
                k = n if case.get("short") is None else max(1, min(n, case["short"]))
                state["pending"] = ("download", k)
                return audio(k)
            # ICY framing: `meta` bytes of audio, then one length byte 0 (= no metadata)
            if not self.left:
                finalize()
                if not state["slice"]:
                    consumer_until_download()
                state["slice"] = False
                state["pending"] = ("download", meta)
                self.left = audio(meta) + b"\x00"
            d = self.left[:n]
            self.left = self.left[n:]
            return d

    class Handle:
        status_code = 200
        reason = "OK"
        headers = Raw.headers

        def __init__(self):
            self.raw = Raw()

        def __enter__(self):
            return self

        def __exit__(self, *a):
            return False

    class Requests:
        @staticmethod
        def get(url, stream=True, timeout=None):
            return Handle()

    class Time:
        @staticmethod
        def monotonic():
            return 0.0

        @staticmethod
        def sleep(x):
            # the block does not fit: the download loop waits
            finalize()
            if state["slice"]:
                record(("download", meta or block), ("none",))     # the marker was used up by a failed fits()
                state["slice"] = False
            consumer_until_download()
            state["slice"] = True

    old = (A.requests, A.time)
    A.requests, A.time = Requests, Time
    try:
        try:
            cli._download_stream()
        except StopDriver:
            pass
    finally:
        A.requests, A.time = old
    return ops, raw


def run_ice(case):
    try:
        ops, raw = run_ice_once(case, 0)
        runs = [raw]
        maxoff = max([r[1][3] for r in raw] + [0])
        for digit in range(1, ndigits(maxoff)):
            ops2, raw2 = run_ice_once(case, digit)
            if ops2 != ops:
                raise ImplError("behaviour depends on the content of the bytes", ops)
            runs.append(raw2)
    except ImplError:
        raise
    except Exception as ex:
        raise ImplError("%s: %r" % (type(ex).__name__, ex), None)
    return ops, combine(runs)


def c_iop(op):
    t = op[0]
    if t == "download":
        return "IDownload %s" % cnum(op[1])
    if t == "read":
        return "IRead %s" % cnum(op[1])
    if t == "seek":
        return "ISeek %s" % cnum(op[1])
    return "IProt %s" % common.cbool(op[1])


def coq_ice_case(case, ops, obs):
    return "(%s, %s, %s, %s, %s,\n  [%s],\n  [%s])" % (
        cnum(case["block"]), cnum(case["size"]), cnum(case["head"]), common.cbool(case["prot"]),
        cnum(ICE_LEN), "; ".join(c_iop(o) for o in ops), "; ".join(c_obs(o) for o in obs))


def gen_ice_case(rng, size, head, block, meta, nops):
    ops = []
    for _ in range(nops):
        r = rng.random()
        if r < 0.5:
            ops.append(("download",))
        elif r < 0.85:
            ops.append(("read", rng.choice([1, 2, head, block, size, rng.randint(1, size + 1)])))
        elif r < 0.95:
            ops.append(("seek", rng.choice([0, 0, 1, head - 1, head, rng.randint(0, size)])))
        else:
            ops.append(("prot", rng.random() < 0.3))
    # finish: rewind when possible, un-protect, drain what is stored
    ops += [("seek", 0), ("prot", False)] + [("read", max(1, size // 3))] * 5 + [("download",)] * 2 + \
           [("read", max(1, size // 3))] * 4 + [("download",)]
    return {"kind": "ice", "size": size, "head": head, "prot": rng.random() < 0.6, "block": block, "meta": meta,
            "short": rng.choice([None, None, None, 1, max(1, block // 2)]) if not meta else None,
            "len": ICE_LEN, "ops": ops}


def real_reader_run(case):
    """The same StreamReaderWrapper history with nothing substituted: a real asyncio.StreamReader
    served by an event loop running in another thread (as in production, where read() is called
    from executor threads).  Returns raw results with (position, size, remaining)."""
    import asyncio as real_asyncio
    import miniaudio
    from pyatv.support.buffer import SemiSeekableBuffer
    A = audio_source()
    loop = real_asyncio.new_event_loop()
    t = threading.Thread(target=loop.run_forever, daemon=True)
    t.start()
    shim = A.asyncio
    A.asyncio = real_asyncio
    try:
        buf = SemiSeekableBuffer(case["size"], seekable_headroom=case["head"], protected_headroom=case["prot"])
        data = content(case["len"], 0)

        async def make():
            reader = real_asyncio.StreamReader()
            reader.feed_data(data)
            reader.feed_eof()
            return A.StreamReaderWrapper(reader, buf)

        w = real_asyncio.run_coroutine_threadsafe(make(), loop).result(10)
        out = []
        for op in case["ops"]:
            if op[0] == "read":
                r = ("data", bytes(w.read(op[1])))
            elif op[0] == "seek":
                r = ("bool", bool(w.seek(op[1], miniaudio.SeekOrigin.START if op[2] else miniaudio.SeekOrigin.CURRENT)))
            else:
                r = do_op("srw", w, buf, None, op, 0)
            out.append((r, (buf.position, buf.size, buf.remaining)))
        return out
    finally:
        A.asyncio = shim
        loop.call_soon_threadsafe(loop.stop)
        t.join(10)
        loop.close()


def real_reader_cross_check(ctx, count):
    """Validates the synchronous substitute for run_coroutine_threadsafe against the real thing."""
    rng = ctx.rng
    bad = 0
    for _ in range(count):
        size, head = rng.choice(SMALL + MEDIUM)
        case = gen_wrapper_case(rng, "srw", size, head, rng.randint(1, 12))
        case["ops"] = [(o[0], o[1], None) if o[0] == "read" else o for o in case["ops"]]   # StreamReader: no short reads here
        w, buf, src = build("srw", case["size"], case["head"], case["prot"], case["len"], 0)
        a = []
        for op in case["ops"]:
            r = do_op("srw", w, buf, src, op, 0)
            a.append((r, (buf.position, buf.size, buf.remaining)))
        b = real_reader_run(case)
        ctx.count("real-streamreader-thread-runs")
        if a != b:
            bad += 1
            ctx.tie_broken("driver:streamreader-shim-differs-from-real-loop", json.dumps({"case": case}, default=list)[:2000])
    return bad


# --------------------------------------------------------------------------- icecast, producer side in detail

SPIN_KEY = "C17:icecast:end-of-body-spins-tail-lost"
OVERREAD_KEY = "C17:icecast:readall-overreads-on-short-read"
SPIN_LIMIT = 40            # consecutive empty raw.read() results after the end of the body = the loop spins
RAW_CALL_LIMIT = 20000     # hard guard on the number of raw.read() calls of one case


class Spins(BaseException):
    pass


def name_byte(n):
    """Wire value of a named byte (see Model.v name_value)."""
    if n < 1000:
        return (16 + n) % 256
    if n < 2000:
        return n - 1000
    return 240 + (n - 2000)


def byte_name(b):
    if b < 16:
        return 1000 + b
    if b < 240:
        return b - 16
    return 2000 + (b - 240)


def ice2_body(case):
    """The HTTP body as a list of names: audio in intervals of `meta` bytes, each complete interval
    followed by a length byte and a metadata block of 16*length bytes (lengths cycle through case['metas'])."""
    audio, meta = case["audio"], case["meta"]
    assert audio <= 200
    if not meta:
        return list(range(audio))
    out, i, k = [], 0, 0
    while i < audio:
        n = min(meta, audio - i)
        out += list(range(i, i + n))
        i += n
        if n == meta and not (i >= audio and case.get("cut_after_audio")):
            ln = case["metas"][k % len(case["metas"])]
            k += 1
            out.append(1000 + ln)
            out += [2000 + j for j in range(16 * ln)]
    return out


def ice2_complete_audio(case):
    """Audio bytes in complete frames of the body (interval + length byte + metadata block all present)."""
    audio, meta = case["audio"], case["meta"]
    if not meta:
        return audio
    full = audio // meta
    if full and audio % meta == 0 and case.get("cut_after_audio"):
        full -= 1
    return full * meta


def run_ice2(case):
    """Drive the REAL _download_stream synchronously: requests.get returns a fake response whose
    raw.read(n) serves the body with scripted short reads; the reader side (read/seek/protect) is
    executed at the download loop's waiting points.  Guards: the fake raw raises after SPIN_LIMIT
    empty reads in a row (the spinning _readall) and after RAW_CALL_LIMIT calls in total."""
    A = audio_source()
    from pyatv.support.buffer import SemiSeekableBuffer
    import miniaudio
    from pyatv.exceptions import InvalidStateError
    block, size, head, prot, meta = case["block"], case["size"], case["head"], case["prot"], case["meta"]
    names = ice2_body(case)
    body = bytes(name_byte(n) for n in names)
    caps = list(case["caps"])
    buf = SemiSeekableBuffer(size, seekable_headroom=head, protected_headroom=prot)
    cli = object.__new__(A.PatchedIceCastClient)
    cli.url = "http://verif.invalid/stream"
    cli.error_message = None
    cli._stop_stream = False
    cli._buffer = buf
    cli.BLOCK_SIZE = block
    script = list(case["ops"])
    ops, obs = [], []
    st = {"i": 0, "q": 0, "ci": 0, "empties": 0, "calls": 0, "slice": False, "in_iter": False,
          "consumer": False, "spin": False, "short": False, "gets": 0, "ranged": 0, "fault": False, "fatal": None}
    fault = case.get("fault")             # {"at": physical offset, "exc": name}: the first connection breaks there

    def record(op, r):
        if r[0] == "data":
            r = ("data", rle([byte_name(b) for b in r[1]]))
        ops.append(op)
        obs.append({"res": r, "pos": buf.position, "size": buf.size, "rem": buf.remaining, "src": st["q"],
                    "prot": bool(buf.protected_headroom), "stop": bool(cli._stop_stream), "spin": st["spin"],
                    "short": st["short"], "gets": st["gets"], "ranged": st["ranged"], "fault": st["fault"]})

    def consumer_op(op):
        st["consumer"] = True
        try:
            if op[0] == "read":
                n = op[1] if cli._stop_stream else min(op[1], len(buf))   # otherwise read() would wait for data
                record(("read", n, None), ("data", bytes(cli.read(n))))
            elif op[0] == "seek":
                record(("seek", op[1], True), ("bool", bool(cli.seek(op[1], miniaudio.SeekOrigin.START))))
            elif op[0] == "prot":
                try:
                    buf.protected_headroom = op[1]
                    record(op, ("none",))
                except InvalidStateError:
                    record(op, ("raise",))
            elif op[0] == "probe":
                # InternetSource.open: get_buffered_io_metadata(StreamableSourceWrapper(client, buffer))
                class Client:
                    def read(self, n):
                        k = n if cli._stop_stream else min(n, len(buf))
                        d = bytes(cli.read(k))
                        record(("read", k, None), ("data", d))
                        return d

                    def seek(self, off, origin):
                        r = bool(cli.seek(off, origin))
                        record(("seek", off, True), ("bool", r))
                        return r
                record(("pbegin", buf.position), ("none",))
                empty = probe_with(A.StreamableSourceWrapper(Client(), buf, name=cli.url),
                                   scripted_tinytag([tuple(x) for x in op[1]], op[2]))
                record(("pend", empty), ("none",))
        finally:
            st["consumer"] = False

    def consumer_until_download():
        while True:
            if st["i"] >= len(script):
                raise StopDriver()
            op = script[st["i"]]
            st["i"] += 1
            if op[0] == "download":
                return
            consumer_op(op)

    class Lock:
        def __enter__(self):
            return self

        def __exit__(self, *a):
            if not st["consumer"]:            # the download loop has add()ed its chunk: iteration over
                st["in_iter"] = False
                record(("download",), ("none",))
            return False

    cli._buffer_lock = Lock()

    class Raw:
        headers = {"icy-metaint": str(meta)} if meta else {}

        def __init__(self):
            self.conn = st["gets"]
            self.end = fault["at"] if (fault and self.conn == 1) else len(body)
            if self.conn > 1:
                st["q"] = 0                   # a new GET without an offset is answered from the start of the body

        def read(self, n):
            st["calls"] += 1
            if st["calls"] > RAW_CALL_LIMIT:
                st["fatal"] = "more than %d raw.read() calls" % RAW_CALL_LIMIT
                raise StopDriver()
            if not st["in_iter"]:             # first read of an iteration: the block fitted
                if not st["slice"]:
                    consumer_until_download()
                st["slice"] = False
                st["in_iter"] = True
            k = min(n, self.end - st["q"])
            if k <= 0 and n > 0 and self.end < len(body):
                # the connection is lost here
                import requests as real_requests
                st["fault"] = True
                exc = {"ConnectionError": real_requests.exceptions.ConnectionError,
                       "ChunkedEncodingError": real_requests.exceptions.ChunkedEncodingError,
                       "OSError": OSError}[fault["exc"]]
                raise exc("connection reset by peer (scripted)")
            if k > 0:
                cap = caps[st["ci"]] if st["ci"] < len(caps) else None
                st["ci"] += 1
                if cap is not None:
                    if max(1, cap) < k:
                        st["short"] = True           # fewer bytes than asked for although the body has them
                    k = min(k, max(1, cap))
                st["empties"] = 0
            else:
                if st["ci"] < len(caps) and n > 0:
                    st["ci"] += 1
                st["empties"] += 1
                if st["empties"] > SPIN_LIMIT:
                    raise Spins()
            d = body[st["q"]:st["q"] + k]
            st["q"] += k
            return d

    class Handle:
        status_code = 200
        reason = "OK"
        headers = Raw.headers

        def __init__(self):
            self.raw = Raw()

        def __enter__(self):
            return self

        def __exit__(self, *a):
            return False

    import requests as real_requests

    class Requests:
        exceptions = real_requests.exceptions
        RequestException = real_requests.RequestException
        ConnectionError = real_requests.ConnectionError

        @staticmethod
        def get(url, stream=True, timeout=None, headers=None, **kw):
            st["gets"] += 1
            if headers and any(h.lower() == "range" for h in headers):
                st["ranged"] += 1
            return Handle()

    class Time:
        @staticmethod
        def monotonic():
            return 0.0

        @staticmethod
        def sleep(x):
            if st["consumer"]:
                st["fatal"] = "read() waits although enough data is buffered or the stream has stopped"
                raise StopDriver()
            if st["slice"]:
                record(("download",), ("none",))     # the marker was used up by a failed fits()
                st["slice"] = False
            consumer_until_download()
            st["slice"] = True

    old = (A.requests, A.time)
    A.requests, A.time = Requests, Time
    try:
        try:
            cli._stream_wrapper()              # what the download thread runs: _download_stream + error handling
            if st["in_iter"]:
                # the loop ended in the middle of an iteration (connection lost): that turn is over
                st["in_iter"] = False
                st["slice"] = False
                record(("download",), ("none",))
        except StopDriver:
            if st["fatal"]:
                raise ImplError(st["fatal"], ops)
            return ops, obs
        except Spins:
            st["spin"] = True
            st["in_iter"] = False
            record(("download",), ("none",))
        # the download loop is over (returned or stuck for ever): the rest of the script runs without it
        if st["slice"]:
            # a marker was consumed but the loop ended instead of iterating: it is a no-op marker
            record(("download",), ("none",))
            st["slice"] = False
        while st["i"] < len(script):
            op = script[st["i"]]
            st["i"] += 1
            if op[0] == "download":
                record(("download",), ("none",))
            else:
                consumer_op(op)
    except ImplError:
        raise
    except Exception as ex:
        raise ImplError("%s: %r after %d ops" % (type(ex).__name__, ex, len(ops)), ops)
    finally:
        A.requests, A.time = old
    return ops, obs


def oracle_ice2(case, ops, obs):
    """What the reader gets must be exactly the audio bytes of the body, in order, once each; the end of the
    stream may be signalled (_stop_stream with an empty buffer) only when all audio has been delivered, and
    once the body has been read completely it must be signalled."""
    audio = case["audio"]
    c = 0
    pending_seek = None
    taint = None
    probe = None
    short_seen = False

    def fail(key, msg, i):
        if taint is not None:
            return (taint[0], taint[1] + "; then: " + msg, i)
        return (key, msg, i)

    prev_src = prev_size = 0
    for i, (op, ob) in enumerate(zip(ops, obs)):
        t = op[0]
        if probe is not None:
            probe["maxpos"] = max(probe["maxpos"], ob["pos"])
        short_seen = ob["short"]
        if t == "download" and taint is None and case["meta"] > case["block"] and not ob["spin"] \
                and ob["src"] > prev_src and ob["size"] - prev_size < case["meta"] and ob["rem"] == 0:
            # a whole meta interval was read from the body after fits(BLOCK_SIZE), but the buffer had room for less
            taint = (ICE_KEY, "download at op %d: fits(BLOCK_SIZE=%d) was checked but a chunk of %d bytes (icy-metaint) was "
                     "add()ed and only %d were stored (buffer full)" % (i, case["block"], case["meta"], ob["size"] - prev_size))
        prev_src, prev_size = ob["src"], ob["size"]
        if case["meta"] and short_seen and taint is None:
            taint = (OVERREAD_KEY, "op %d: a raw.read() in ICY mode returned fewer bytes than asked for; _readall asks for "
                     "the full size again, returns more than it was asked for and the framing is lost" % i)
        if t == "pbegin":
            probe = {"before": c, "rewound": None, "i": i, "prot": ob["prot"], "maxpos": ob["pos"]}
        elif t == "pend":
            if probe is not None and (probe["prot"] or probe["maxpos"] < case["head"]) and c not in (probe["before"], 0):
                return fail("C17:icecast:probe-moved-position", "metadata probe started at offset %d and left the stream at "
                            "offset %d" % (probe["before"], c), i)
            if probe is not None and probe["rewound"] is False and not op[1]:
                return fail("C17:icecast:probe-without-rewind", "metadata returned although the stream could not be "
                            "rewound", i)
            probe = None
        elif t == "seek":
            if probe is not None and probe["rewound"] is None:
                probe["rewound"] = bool(ob["res"][1]) and op[1] == 0
            if ob["res"][1]:
                if op[1] != c or pending_seek is not None:
                    pending_seek = i
                c = op[1]
        elif t == "read":
            runs = ob["res"][1]
            total = sum(l for _, l in runs)
            if total > op[1]:
                return fail("C17:icecast:over-read", "read(%d) returned %d bytes" % (op[1], total), i)
            if total and probe is not None and probe["rewound"] is False:
                return fail("C17:icecast:probe-consumes-without-rewind", "the stream could not be rewound but the metadata "
                            "probe consumed %d bytes at offset %d" % (total, c), i)
            if total:
                if any(o >= 1000 for (o, l) in runs):
                    if case["meta"] and short_seen and taint is None:
                        taint = (OVERREAD_KEY, "short read in ICY mode: _readall asks for the full size again and returns "
                                 "more than it was asked for; framing is lost")
                    return fail("C17:icecast:metadata-leaks-into-audio",
                                "read returned non-audio bytes %r (1000+v: length byte, 2000+i: metadata)" % (runs[:4],), i)
                exp = [(c, total)]
                if runs != exp or c + total > audio:
                    if case["meta"] and short_seen and taint is None:
                        taint = (OVERREAD_KEY, "short read in ICY mode: _readall over-reads; framing is lost")
                    if pending_seek is not None:
                        return fail("C17:icecast:seek-true-not-repositioned", "seek at op %d reported success; next read "
                                    "returned %r, expected offset %d" % (pending_seek, runs[:3], c), i)
                    first = runs[0][0]
                    what = "lost-bytes" if first > c else ("duplicated-bytes" if first < c else "wrong-bytes")
                    return fail("C17:icecast:%s" % what, "read returned %r, audio continues at offset %d" % (runs[:3], c), i)
                pending_seek = None
                c += total
            elif op[1] > 0 and ob["stop"] and c < audio and not (ob["prot"] and ob["rem"] == 0) and pending_seek is None \
                    and not ob.get("fault"):
                if case["meta"] and short_seen and taint is None:
                    taint = (OVERREAD_KEY, "short read in ICY mode: _readall over-reads; framing is lost")
                return fail("C17:icecast:premature-eof", "end of stream signalled (stopped, nothing buffered) at audio "
                            "offset %d of %d" % (c, audio), i)
    last = obs[-1] if obs else None
    if last is not None and last.get("gets", 0) - last.get("ranged", 0) > 1:
        # the connection was lost and the client asked for the stream again from its start: whatever it does with the
        # answer, the body starts over
        return fail("C17:icecast:reconnect-restarts-stream", "%d GET requests without a Range/offset for one stream (the "
                    "connection was lost after %d body bytes); reader had got %d audio bytes"
                    % (last["gets"] - last["ranged"], (case.get("fault") or {}).get("at", -1), c), len(obs) - 1)
    if last is not None and last.get("fault"):
        return None                      # after a lost connection any in-order prefix followed by the end is fine
    if last is not None and last["spin"]:
        # The recorded finding explains exactly this: the loop never returns, the end is never signalled and
        # what follows the last COMPLETE frame (interval + length byte + metadata) is never add()ed.
        # Anything else that is missing is a loss of its own.
        drained = case.get("complete") and last["size"] == 0 and pending_seek is None \
            and not (last["prot"] and last["rem"] == 0)
        if drained and c < ice2_complete_audio(case):
            return fail("C17:icecast:lost-bytes", "download loop over, buffer drained, reader got %d audio bytes although "
                        "%d were in complete frames" % (c, ice2_complete_audio(case)), len(obs) - 1)
        if taint is not None:
            return fail("C17:icecast:end-not-signalled", "the download loop never returns", len(obs) - 1)
        return (SPIN_KEY, "the body has ended and _readall keeps reading b'' (icy-metaint %d): the download loop never "
                "returns, _stop_stream is never set; reader got %d of %d audio bytes (complete frames hold %d)"
                % (case["meta"], c, audio, ice2_complete_audio(case)), len(obs) - 1)
    if last is not None and case.get("complete"):
        # the script gave the download loop enough turns to read the whole body and drained the buffer
        if last["src"] >= len(ice2_body(case)) and not last["stop"] and not last["spin"]:
            return fail("C17:icecast:end-not-signalled", "the whole body was read but _stop_stream is not set", len(obs) - 1)
        if (last["stop"] or last["spin"]) and last["size"] == 0 and c < audio and pending_seek is None \
                and not (last["prot"] and last["rem"] == 0):
            if case["meta"] and short_seen and taint is None:
                taint = (OVERREAD_KEY, "short read in ICY mode: _readall over-reads; framing is lost")
            key = "C17:icecast:premature-eof" if last["stop"] else "C17:icecast:lost-bytes"
            return fail(key, "download loop over, buffer drained, reader got %d of %d audio bytes" % (c, audio), len(obs) - 1)
    return None


def c_obs2(ob):
    return "mkobs2 (%s) %s %s %s %s %s %s" % (c_res(ob["res"]), cnum(ob["pos"]), cnum(ob["size"]), cnum(ob["rem"]),
                                              cnum(ob["src"]), common.cbool(ob["stop"]), common.cbool(ob["spin"]))


def c_iop2(op):
    return "IDownload 0" if op[0] == "download" else c_iop(op)


def coq_ice2_case(case, ops, obs):
    if case.get("fault"):
        body = rle(ice2_body(case)[:case["fault"]["at"]])      # for the model a lost connection is a body that ends there
    else:
        body = rle(ice2_body(case))
    return _coq_ice2(case, ops, obs, body)


def _coq_ice2(case, ops, obs, body):
    keep = [j for j, o in enumerate(ops) if o[0] not in ("pbegin", "pend")]
    ops, obs = [ops[j] for j in keep], [obs[j] for j in keep]
    return "(%s, %s, %s, %s, %s,\n  %s,\n  [%s],\n  [%s],\n  [%s])" % (
        cnum(case["block"]), cnum(case["meta"]), cnum(case["size"]), cnum(case["head"]), common.cbool(case["prot"]),
        c_data(body), "; ".join(c_optN(x) for x in case["caps"]),
        "; ".join(c_iop2(o) for o in ops), "; ".join(c_obs2(o) for o in obs))


def gen_ice2_case(rng, size, head, block, meta, exact):
    audio = rng.choice([0, 1, block, 2 * block + 1, 3 * (meta or block), 3 * (meta or block) + 1,
                        rng.randint(0, min(200, 6 * max(block, meta or 1) + 3))])
    audio = min(audio, 200)
    metas = [rng.choice([0, 0, 1]) for _ in range(rng.randint(1, 3))]
    ncaps = 0 if exact else rng.randint(1, 40)
    caps = [rng.choice([None, 1, 1, 2, max(1, block - 1), max(1, (meta or block) - 1), rng.randint(1, 8)])
            for _ in range(ncaps)]
    ops = []
    for _ in range(rng.randint(0, 10)):
        r = rng.random()
        if r < 0.5:
            ops.append(("download",))
        elif r < 0.85:
            ops.append(("read", rng.choice([1, 2, head, block, size, rng.randint(1, size + 1)])))
        elif r < 0.95:
            ops.append(("seek", rng.choice([0, 0, 1, head - 1, head, rng.randint(0, size)])))
        else:
            ops.append(("prot", rng.random() < 0.3))
        if rng.random() < 0.15:
            sc = [x for x in gen_probe(rng, size, head, audio)[1] if x[1] >= 0]
            ops.append(("probe", sc, rng.random() < 0.25))
    # finish: rewind when possible, un-protect, then alternate download turns and draining reads until everything
    # must have come through
    physical = audio + (audio // meta) * 17 if meta else audio
    turns = physical // 1 + 6 if not exact else physical // max(1, min(block, meta or block)) + 6
    turns = min(turns, 3 * 230)
    ops += [("seek", 0), ("prot", False)]
    for _ in range(turns):
        ops += [("download",), ("read", size)]
    ops += [("download",), ("read", size), ("read", size)]
    case = {"kind": "ice2", "size": size, "head": head, "prot": rng.random() < 0.5, "block": block, "meta": meta,
            "audio": audio, "metas": metas, "caps": caps, "cut_after_audio": rng.random() < 0.2,
            "len": audio, "ops": ops, "complete": True}
    physical = len(ice2_body(case))
    if physical > 1 and rng.random() < 0.35:
        # the connection is lost after `at` bytes of the body: at a block boundary, inside a block, inside an ICY frame
        unit = meta + 1 if meta else block
        at = rng.choice([unit, 2 * unit, unit + 1, max(1, unit - 1), 3 * unit + (meta or 0) // 2 + 1,
                         rng.randint(0, physical - 1), rng.randint(0, physical - 1)])
        case["fault"] = {"at": max(0, min(at, physical - 1)),
                         "exc": rng.choice(["ConnectionError", "ChunkedEncodingError", "OSError"])}
    return case


# --------------------------------------------------------------------------- icecast, two threads on one buffer

class Blocked(Exception):
    """The party that is running needs _buffer_lock while the other party holds it."""


class StopTurn(BaseException):
    pass


def run_race(case):
    """Explicit schedules for PatchedIceCastClient's two threads.

    The buffer is a subclass of the real SemiSeekableBuffer whose mutable attributes (_buffer,
    _position, _has_headroom_data, _protected) are properties: every load and store made by the real
    methods is a scheduling point.  One TURN of the real download loop (one call of _download_stream cut at
    the next waiting point; the loop carries no state from one iteration to the next) and one reader
    operation are raced: the first party runs until its k-th access to the shared state, then the other party
    runs completely, then the first finishes.  _buffer_lock is a proxy: a party that needs the lock while the
    other holds it cannot run there; it runs as soon as the lock is released (what a blocked thread does).
    Everything happens in one OS thread, so a schedule is exactly reproducible."""
    A = audio_source()
    from pyatv.support.buffer import SemiSeekableBuffer
    import miniaudio
    from pyatv.exceptions import InvalidStateError
    block, size, head, prot, meta = case["block"], case["size"], case["head"], case["prot"], case["meta"]
    names = ice2_body(case)
    body = bytes(name_byte(n) for n in names)
    caps = list(case["caps"])
    st = {"q": 0, "ci": 0, "empties": 0, "calls": 0, "party": None, "holder": None, "arm": None,
          "deferred": None, "log": None, "spin": False, "short": False, "quiet": False, "turn_added": False,
          "race_result": None}
    ops, obs, logs = [], [], []

    def hook(attr, kind):
        party = st["party"]
        if party is None:
            return
        arm = st["arm"]
        if arm is not None and arm["party"] == party and not arm["fired"]:
            if arm["count"] == arm["k"]:
                arm["fired"] = True
                run_other(arm["nested"], "before %s %s of %s" % (kind, attr, party))
            arm["count"] += 1
        if st["log"] is not None:
            st["log"].append("%s %s %s" % ("loop  " if party == "P" else "reader", kind, attr))

    def shared(name):
        key = "_v" + name

        def fget(self):
            hook(name, "load")
            return self.__dict__[key]

        def fset(self, value):
            hook(name, "store")
            self.__dict__[key] = value
        return property(fget, fset)

    class SteppedBuffer(SemiSeekableBuffer):
        _buffer = shared("_buffer")
        _position = shared("_position")
        _has_headroom_data = shared("_has_headroom_data")
        _protected = shared("_protected")

    buf = SteppedBuffer(size, seekable_headroom=head, protected_headroom=prot)
    cli = object.__new__(A.PatchedIceCastClient)
    cli.url = "http://verif.invalid/stream"
    cli.error_message = None
    cli._stop_stream = False
    cli._buffer = buf
    cli.BLOCK_SIZE = block

    def record(op, r):
        party, st["party"] = st["party"], None
        try:
            if r[0] == "data":
                r = ("data", rle([byte_name(b) for b in r[1]]))
            ops.append(op)
            obs.append({"res": r, "pos": buf.position, "size": buf.size, "rem": buf.remaining, "src": st["q"],
                        "prot": bool(buf.protected_headroom), "stop": bool(cli._stop_stream), "spin": st["spin"],
                        "short": st["short"]})
        finally:
            st["party"] = party

    def run_other(fn, where):
        """Run the other party's operation here; if it needs the lock we hold, it runs when we release it."""
        outer = st["party"]
        saved = (st["q"], st["ci"], st["empties"], st["short"], st["turn_added"])
        if st["log"] is not None:
            st["log"].append("-- switch %s" % where)
        try:
            fn()
        except Blocked:
            st["q"], st["ci"], st["empties"], st["short"], st["turn_added"] = saved
            st["deferred"] = fn
            if st["log"] is not None:
                st["log"].append("-- blocked on _buffer_lock, switch back")
        finally:
            st["party"] = outer
            if st["log"] is not None:
                st["log"].append("-- back to %s" % ("loop" if outer == "P" else "reader"))

    class Lock:
        def __enter__(self):
            p = st["party"]
            if st["holder"] is not None and st["holder"] != p:
                raise Blocked()
            st["holder"] = p
            if st["log"] is not None:
                st["log"].append("%s acquire _buffer_lock" % ("loop  " if p == "P" else "reader"))
            return self

        def __exit__(self, *a):
            p = st["party"]
            st["holder"] = None
            if st["log"] is not None:
                st["log"].append("%s release _buffer_lock" % ("loop  " if p == "P" else "reader"))
            if a[0] is None and st["deferred"] is not None:
                fn, st["deferred"] = st["deferred"], None
                run_other(fn, "after release of _buffer_lock")
            return False

    cli._buffer_lock = Lock()

    class Raw:
        headers = {"icy-metaint": str(meta)} if meta else {}

        def read(self, n):
            st["calls"] += 1
            if st["calls"] > RAW_CALL_LIMIT:
                raise ImplError("more than %d raw.read() calls" % RAW_CALL_LIMIT, None)
            if st["turn_added"]:
                raise StopTurn()                   # the next iteration of the loop would start here
            k = min(n, len(body) - st["q"])
            if k > 0:
                cap = caps[st["ci"]] if st["ci"] < len(caps) else None
                st["ci"] += 1
                if cap is not None:
                    if max(1, cap) < k:
                        st["short"] = True
                    k = min(k, max(1, cap))
                st["empties"] = 0
            else:
                if st["ci"] < len(caps) and n > 0:
                    st["ci"] += 1
                st["empties"] += 1
                if st["empties"] > SPIN_LIMIT:
                    raise Spins()
            d = body[st["q"]:st["q"] + k]
            st["q"] += k
            return d

    class Handle:
        status_code = 200
        reason = "OK"
        headers = Raw.headers

        def __init__(self):
            self.raw = Raw()

        def __enter__(self):
            return self

        def __exit__(self, *a):
            return False

    class Requests:
        @staticmethod
        def get(url, stream=True, timeout=None):
            return Handle()

    class Time:
        @staticmethod
        def monotonic():
            return 0.0

        @staticmethod
        def sleep(x):
            if st["party"] == "C":
                raise ImplError("read() waits although enough data is buffered or the stream has stopped", None)
            raise StopTurn()                       # the block does not fit: the loop waits

    def producer_turn():
        """One pass of the download loop (nothing if the loop has ended or is stuck)."""
        prev = st["party"]
        if not (cli._stop_stream or st["spin"]):
            st["party"] = "P"
            st["turn_added"] = False
            orig_add = buf.add

            def add(data):
                r = orig_add(data)
                st["turn_added"] = True
                return r
            buf.__dict__["add"] = add
            try:
                cli._download_stream()
            except StopTurn:
                pass
            except Spins:
                st["spin"] = True
            finally:
                del buf.__dict__["add"]
                st["party"] = prev
        if not st["quiet"]:
            record(("download",), ("none",))

    def consumer_op(op):
        prev = st["party"]
        n = None
        if op[0] == "read":
            st["party"] = None
            n = op[1] if cli._stop_stream else min(op[1], len(buf))
        st["party"] = "C"
        try:
            if op[0] == "read":
                done, r = ("read", n, None), ("data", bytes(cli.read(n)))
            elif op[0] == "seek":
                done, r = ("seek", op[1], True), ("bool", bool(cli.seek(op[1], miniaudio.SeekOrigin.START)))
            else:
                try:
                    buf.protected_headroom = op[1]
                    done, r = ("prot", op[1]), ("none",)
                except InvalidStateError:
                    done, r = ("prot", op[1]), ("raise",)
        finally:
            st["party"] = prev
        if st["quiet"]:
            st["race_result"] = (done, r)
        else:
            record(done, r)

    def race(first, k, cop):
        st["quiet"] = True
        st["log"] = []
        st["race_result"] = None
        pt, co = producer_turn, (lambda: consumer_op(cop))
        outer, nested = (pt, co) if first == "P" else (co, pt)
        st["arm"] = {"party": first, "k": k, "count": 0, "fired": False, "nested": nested}
        try:
            outer()
            if not st["arm"]["fired"]:
                st["arm"]["fired"] = True
                st["log"].append("-- %s finished before its access #%d: the other party runs afterwards" % (first, k))
                nested()
            if st["deferred"] is not None:           # never released the lock it was blocked on
                raise ImplError("operation still blocked on _buffer_lock after the other party finished", None)
        finally:
            st["arm"] = None
            st["quiet"] = False
            log, st["log"] = st["log"], None
        done, r = st["race_result"]
        logs.append((len(ops), log))
        record(("race", first, k, done), r)

    old = (A.requests, A.time)
    A.requests, A.time = Requests, Time
    try:
        for op in case["ops"]:
            if op[0] == "download":
                producer_turn()
            elif op[0] == "race":
                race(op[1], op[2], tuple(op[3]))
            else:
                consumer_op(op)
    except ImplError:
        raise
    except Exception as ex:
        raise ImplError("%s: %r after %d ops" % (type(ex).__name__, ex, len(ops)), ops)
    finally:
        A.requests, A.time = old
    case["_schedules"] = logs
    return ops, obs


def flat_race_ops(ops):
    """For the oracle a race record is the reader operation it contains."""
    return [op[3] if op[0] == "race" else op for op in ops]


def c_rop(op):
    if op[0] == "race":
        return "RRace (%s)" % c_iop2(op[3])
    return "RPlain (%s)" % c_iop2(op)


def coq_race_case(case, ops, obs):
    return "(%s, %s, %s, %s, %s,\n  %s,\n  [%s],\n  [%s],\n  [%s])" % (
        cnum(case["block"]), cnum(case["meta"]), cnum(case["size"]), cnum(case["head"]), common.cbool(case["prot"]),
        c_data(rle(ice2_body(case))), "; ".join(c_optN(x) for x in case["caps"]),
        "; ".join(c_rop(o) for o in ops), "; ".join(c_obs2(o) for o in obs))


RACE_CONFIGS = [(8, 2, 2), (8, 4, 3), (16, 4, 4)]
RACE_PREFIXES = [
    [],                                                           # nothing buffered yet
    [("download",), ("download",)],                               # data buffered, nothing read
    [("download",), ("download",), ("read", 1)],                  # inside the headroom
    [("download",), ("download",), ("download",), ("read", 5)],   # headroom crossed (discarded when unprotected)
]


RACE_COPS = [("read", 2), ("read", 16), ("seek", 0), ("read", 1), ("seek", 1)]


def race_cases(kmax, cops):
    """One download turn raced with one reader operation at every scheduling point, from several states."""
    for (size, head, block) in RACE_CONFIGS:
        for prot in (False, True):
            for prefix in RACE_PREFIXES:
                for first in ("P", "C"):
                    for k in range(7 if first == "P" else kmax):    # a loop turn makes 4-5 accesses, a get() up to 17
                        for cop in cops:
                            ops = list(prefix) + [("race", first, k, cop)]
                            ops += [("seek", 0), ("prot", False)]
                            for _ in range(24 // block + 3):
                                ops += [("download",), ("read", size)]
                            ops += [("read", size)]
                            yield {"kind": "race", "size": size, "head": head, "prot": prot, "block": block, "meta": 0,
                                   "audio": 24, "metas": [0], "caps": [], "cut_after_audio": False, "len": 24,
                                   "ops": ops, "complete": True}


def gen_race_case(rng, size, head, block):
    """Random history in which several turns of the loop are raced with reader operations."""
    audio = rng.randint(block, 60)
    ops = []
    for _ in range(rng.randint(2, 12)):
        r = rng.random()
        cop = rng.choice([("read", 1), ("read", rng.randint(1, size)), ("read", size), ("seek", 0),
                          ("seek", rng.randint(0, size)), ("prot", rng.random() < 0.4)])
        if r < 0.55:
            ops.append(("race", rng.choice("PC"), rng.randint(0, 14), cop))
        elif r < 0.8:
            ops.append(("download",))
        else:
            ops.append(cop)
    ops += [("seek", 0), ("prot", False)]
    ncaps = rng.randint(0, 20)
    for _ in range(audio // block + 6 + ncaps):
        ops += [("download",), ("read", size)]
    ops += [("read", size)]
    return {"kind": "race", "size": size, "head": head, "prot": rng.random() < 0.5, "block": block, "meta": 0,
            "audio": audio, "metas": [0], "caps": [rng.choice([None, 1, 2]) for _ in range(ncaps)],
            "cut_after_audio": False, "len": audio, "ops": ops, "complete": True}


# --------------------------------------------------------------------------- generation

SMALL = [(2, 1), (2, 2), (3, 1), (3, 2), (3, 3), (4, 2), (5, 3), (8, 4), (8, 8), (16, 4), (16, 16), (7, 1)]
MEDIUM = [(64, 32), (100, 1), (256, 128), (300, 299), (1024, 512)]
LARGE = [(8192, 1024), (65536, 32768), (65536, 65536), (65536, 1)]


def pick_n(rng, size, head, pos):
    r = rng.random()
    if r < 0.07:
        return -1
    if r < 0.10:
        return 0
    cands = [1, 2, 3, head - 1, head, head + 1, size - 1, size, size + 1, 2 * size + 1,
             max(1, size // 2), max(1, head - pos), max(1, size - pos), rng.randint(1, 2 * size + 2)]
    return max(1, rng.choice(cands))


def pick_p(rng, size, head, pos):
    cands = [0, 0, 1, pos, pos, max(0, pos - 1), pos + 1, head - 1, head, size - 1, size,
             rng.randint(0, size + 1), rng.randint(0, max(0, pos))]
    return max(0, rng.choice(cands))


def pick_cap(rng, size):
    r = rng.random()
    if r < 0.75:
        return None
    if r < 0.85:
        return 1
    return rng.randint(1, max(1, size))


def gen_probe(rng, size, head, length):
    """What a tag parser does with the file object: a few reads and seeks (TinyTag starts with seek(0, END))."""
    script = []
    if rng.random() < 0.5:
        script += [("seek", 0, 2), ("seek", 0, True)]
    for _ in range(rng.randint(0, 5)):
        if rng.random() < 0.65:
            script.append(("read", rng.choice([1, 2, 4, head, size, size + 1, max(1, head - 1), rng.randint(1, 2 * size)]), None))
        else:
            script.append(("seek", rng.choice([0, 1, head - 1, head, size, rng.randint(0, size + 2), -1, -4]),
                           rng.choice([True, True, False, 2])))
    return ("probe", script, rng.random() < 0.25)


def probe_cases():
    """Metadata probing at position 0, inside the headroom, at its end, past it and past the buffer; with parsers
    that read nothing, a little, more than the buffer, or look at the end first; once and twice in a row."""
    for kind in ("bio", "ssw"):
        for (size, head) in ((4, 2), (8, 4), (8, 8)):
            for prot in (False, True):
                for first in (0, 1, head, head + 1, size + 1):
                    for script in ([], [("read", 1, None)], [("read", size + 2, None)],
                                   [("seek", 0, 2), ("seek", 0, True), ("read", head, None), ("read", 1, None)]):
                        for raises in (False, True):
                            for twice in (False, True):
                                ops = [("read", first, None)] if first else []
                                ops += [("probe", script, raises)] * (2 if twice else 1)
                                yield {"kind": kind, "size": size, "head": head, "prot": prot, "len": 3 * size + 1,
                                       "ops": ops, "rewind": prot, "drain": 3, "drain_max": 24}


def real_tinytag_check(ctx):
    """get_buffered_io_metadata with the real TinyTag on a WAV stream through both io-style wrappers, the way
    BufferedIOBaseSource.open uses it (64 KiB / 32 KiB, protected) and on an unprotected wrapper past its headroom:
    the reader that follows must get the source from where it was (or from 0 after an honest rewind)."""
    import asyncio as real_asyncio
    import struct
    A = audio_source()
    from pyatv.support.buffer import SemiSeekableBuffer
    payload = bytes((i * 13 + (i >> 8)) & 255 for i in range(150000))
    source = (b"RIFF" + struct.pack("<I", 36 + len(payload)) + b"WAVEfmt " + struct.pack("<IHHIIHH", 16, 1, 2, 44100, 176400, 4, 16)
              + b"data" + struct.pack("<I", len(payload)) + payload)
    if _PROBE["loop"] is None:
        _PROBE["loop"] = real_asyncio.new_event_loop()
    loop = _PROBE["loop"]
    old_log = (A.logging.exception, A.logging.warning)
    A.logging.exception = A.logging.warning = lambda *a, **k: None
    try:
        for kind in ("bio", "ssw"):
            for (size, head, prot, first) in ((65536, 32768, True, 0), (65536, 32768, True, 1000), (65536, 32768, True, 40000),
                                              (65536, 32768, False, 0), (65536, 32768, False, 40960), (256, 128, False, 200)):
                buf = SemiSeekableBuffer(size, seekable_headroom=head, protected_headroom=prot)
                if kind == "bio":
                    w = A.BufferedIOBaseWrapper(FileSource(source), buf)
                else:
                    w = A.StreamableSourceWrapper(A.StreamReaderWrapper(StreamSource(source), buf), buf)
                c = 0
                while c < first:
                    d = w.read(min(4096, first - c))
                    if not d:
                        break
                    c += len(d)
                if w.tell() != c:
                    # StreamReaderWrapper served the sequential reads past the drained buffer itself: tell() is stale
                    ctx.violation(KNOWN_BYPASS, "after %d bytes read in 4096-byte reads through StreamableSourceWrapper("
                                  "StreamReaderWrapper) tell() is %d; a metadata probe from here rewinds and restores to "
                                  "the stale position" % (c, w.tell()),
                                  {"case": {"kind": kind, "size": size, "head": head, "prot": prot, "len": len(source)},
                                   "note": "real TinyTag flow; sequential reads of 4096 bytes, then get_buffered_io_metadata"})
                    continue
                real_asyncio.set_event_loop(loop)
                try:
                    loop.run_until_complete(A.get_buffered_io_metadata(w))
                    loop.run_until_complete(A.get_buffered_io_metadata(w))
                finally:
                    real_asyncio.set_event_loop(None)
                ctx.count("real-tinytag-probes", 2)
                pos = w.tell()
                replay = {"case": {"kind": kind, "size": size, "head": head, "prot": prot, "len": len(source)},
                          "note": "real TinyTag on a WAV stream, %d bytes read before two probes" % c}
                if pos not in (c, 0):
                    ctx.violation("C17:%s:probe-moved-position" % KEY[kind], "real TinyTag probe at offset %d left the "
                                  "stream at %d" % (c, pos), replay)
                    continue
                got = w.read(3000)
                if prot and buf.remaining == 0 and not got:
                    continue
                if got != source[pos:pos + len(got)] or not got:
                    ctx.violation("C17:%s:wrong-bytes" % KEY[kind], "after a real TinyTag probe at offset %d (position now %d) "
                                  "the next read does not continue there" % (c, pos), replay)
    finally:
        A.logging.exception, A.logging.warning = old_log


def gen_wrapper_case(rng, kind, size, head, nops):
    prot = rng.random() < 0.6
    length = rng.choice([0, 1, head, size, size + 1, 2 * size, 2 * size + 3, 3 * size + 1,
                         rng.randint(0, 3 * size + 4)])
    ops = []
    pos = 0            # rough guess of the position, only to bias the choices
    for _ in range(nops):
        r = rng.random()
        if r < 0.62:
            n = pick_n(rng, size, head, pos)
            ops.append(("read", n, pick_cap(rng, size)))
            if n > 0:
                pos += n
        elif r < 0.90:
            p = pick_p(rng, size, head, pos)
            r2 = rng.random()
            if r2 < 0.72:
                ops.append(("seek", p, True))
                if p < head:
                    pos = p
            elif r2 < 0.80:       # absolute, before the start of the stream
                ops.append(("seek", -rng.choice([1, 1, 2, pos, pos + 1, size, rng.randint(1, 2 * size)]) or -1, True))
            elif r2 < 0.92:       # relative to the current position: back (also to before the start), nowhere, forward
                ops.append(("seek", rng.choice([0, 0, 1, p, -1, -pos, -pos - 1, -(pos // 2) - 1, -rng.randint(1, 2 * size + 2),
                                                length, length + 1]), False))
            else:                 # relative to the end (io-style wrappers only; miniaudio has START and CURRENT)
                off = rng.choice([0, -1, -length, -length - 1, 1, -rng.randint(0, length + 2), pos - length])
                ops.append(("seek", off, 2 if kind in ("bio", "ssw") else False))
        else:
            ops.append(("prot", rng.random() < 0.3))
        if kind in ("bio", "ssw") and rng.random() < 0.12:
            ops.append(gen_probe(rng, size, head, length))
            if rng.random() < 0.3:
                ops.append(gen_probe(rng, size, head, length))          # twice in a row
    return {"kind": kind, "size": size, "head": head, "prot": prot, "len": length, "ops": ops,
            "rewind": rng.random() < 0.5, "drain": rng.choice([1, 2, 3, max(1, size // 2), size, size + 1]),
            "drain_max": 40}


def gen_buf_case(rng, size, head, nops):
    prot = rng.random() < 0.5
    ops = []
    pos = 0
    for _ in range(nops):
        r = rng.random()
        if r < 0.30:
            ops.append(("addf", rng.choice([1, 2, head, size, size + 1, rng.randint(1, size + 2)])))
        elif r < 0.36:
            # arbitrary content, result of add() not honoured by the caller
            k = rng.randint(1, 3)
            ops.append(("add", [(rng.randint(0, 1000), rng.randint(0, max(1, size // 2 + 1))) for _ in range(k)]))
        elif r < 0.66:
            n = max(0, pick_n(rng, size, head, pos))
            ops.append(("get", n))
            pos += n
        elif r < 0.88:
            p = pick_p(rng, size, head, pos)
            if rng.random() < 0.15:
                p = -rng.choice([1, 1, 2, max(1, pos), size, rng.randint(1, 2 * size)])
            ops.append(("seek", p, True))
            if 0 <= p < head:
                pos = p
        elif r < 0.94:
            ops.append(("prot", rng.random() < 0.4))
        else:
            ops.append(("fits", rng.choice([0, 1, size, rng.randint(0, size + 1)])))
    return {"kind": "buf", "size": size, "head": head, "prot": prot, "len": 0, "ops": ops,
            "rewind": rng.random() < 0.5, "drain": rng.choice([1, 2, size, size + 1]), "drain_max": 40}


def exhaustive_cases(kind, size, head, prot, maxlen):
    """Every history up to maxlen over a small alphabet, for a tiny buffer."""
    if kind == "buf":
        alpha = [("addf", 1), ("addf", size), ("addf", size + 1), ("get", 1), ("get", 2), ("get", size + 1),
                 ("seek", 0, True), ("seek", 1, True), ("seek", -1, True), ("prot", False)]
    else:
        alpha = [("read", 1, None), ("read", 2, None), ("read", size + 1, None), ("read", 3, 1), ("read", -1, None),
                 ("seek", 0, True), ("seek", 1, True), ("seek", size, True), ("seek", -1, True),
                 ("seek", -1, False), ("prot", False)]
    length = 2 * size + 3
    frontier = [[]]
    for _ in range(maxlen):
        nxt = []
        for h in frontier:
            for a in alpha:
                nxt.append(h + [a])
        for h in nxt:
            yield {"kind": kind, "size": size, "head": head, "prot": prot, "len": length, "ops": h,
                   "rewind": prot, "drain": 2, "drain_max": 12}
        frontier = nxt


# --------------------------------------------------------------------------- evaluation

def judge(case, ops, obs):
    if case["kind"] == "ice2":
        return oracle_ice2(case, ops, obs)
    if case["kind"] == "race":
        return oracle_ice2(case, flat_race_ops(ops), obs)
    return oracle(case, ops, obs)


def run_any(case):
    if case["kind"] == "ice":
        return run_ice(case)
    if case["kind"] == "ice2":
        return run_ice2(case)
    if case["kind"] == "race":
        return run_race(case)
    return run_impl(case)


def evaluate(ctx, case, origin, coq_items):
    """Run one case: implementation, oracle, registration for the Coq comparison."""
    def on_alarm(signum, frame):
        raise ImplError("no result after %d s (the implementation does not terminate on this history?)" % CASE_TIMEOUT, None)

    old = signal.signal(signal.SIGALRM, on_alarm)
    signal.setitimer(signal.ITIMER_REAL, CASE_TIMEOUT)
    try:
        ops, obs = run_any(case)
    except ImplError as ex:
        ctx.violation("C17:%s:exception" % KEY[case["kind"]], str(ex.args[0]), {"case": case})
        return
    finally:
        signal.setitimer(signal.ITIMER_REAL, 0)
        signal.signal(signal.SIGALRM, old)
    schedules = case.pop("_schedules", None)
    ctx.count("kind:" + case["kind"])
    ctx.count("origin:" + origin)
    if obs is None:
        ctx.count("constructor-raises")
        coq_items.append((case, ops, obs))
        ctx.case(("ctor", case["size"], case["head"]), nontrivial=False)
        return
    err = judge(case, ops, obs)
    if err:
        key, msg, idx = err
        if case["kind"] == "race":
            msg += "; schedule of the first race: " + "; ".join((schedules or [(0, [])])[0][1])
        ctx.violation(key, msg, {"case": case, "ops_executed": ops, "failing_op": idx,
                                 "observed": [o["res"] for o in obs[max(0, idx - 3):idx + 1]]})
        ctx.count("oracle:" + key)
    nbytes = sum(sum(l for _, l in o["res"][1]) for o in obs if o["res"][0] == "data")
    seeks = sum(1 for op, o in zip(ops, obs) if op[0] == "seek")
    ctx.count("ops", len(ops))
    for op in ops:
        ctx.count("op:" + op[0])
    ctx.count("size:%s" % ("tiny" if case["size"] <= 16 else "medium" if case["size"] <= 1024 else "production"))
    canon = (case["kind"], case["size"], case["head"], case["prot"], case["len"], case.get("block"), case.get("meta"),
             tuple_deep(case.get("caps", ())), tuple(map(tuple_deep, ops)))
    ctx.case(canon, nontrivial=nbytes > 0,
             sample={"kind": case["kind"], "size": case["size"], "headroom": case["head"], "protected": case["prot"],
                     "source_len": case["len"], "ops": [list(o) for o in ops[:14]],
                     "returned": [o["res"][1] if o["res"][0] == "data" else o["res"][-1] for o in obs[:14]]})
    # quick tier: the exhaustive tiny-buffer histories are all judged by the oracle, every second one is also
    # compared with the model in Coq (they share prefixes heavily); thorough compares all of them
    if case.get("fault") and case.get("meta"):
        return          # a connection lost inside an ICY frame has no counterpart in the model: judged by the oracle only
    negative = any(o["pos"] < 0 or o["size"] < 0 or o["rem"] < 0 or (o["res"][0] == "num" and o["res"][1] < 0) for o in obs)
    if negative:
        if not err:
            ctx.tie_broken("correspondence:%s" % KEY[case["kind"]], "negative position/size observed: " + json.dumps(
                {"case": case, "ops_executed": ops}, default=list)[:2000])
        return
    if ctx.thorough or origin != "exhaustive" or case["kind"] == "race" or ctx.evaluations % 2 == 0 or err:
        coq_items.append((case, ops, obs))


def tuple_deep(x):
    if isinstance(x, (list, tuple)):
        return tuple(tuple_deep(y) for y in x)
    return x


def coq_compare(ctx, all_items, per=1400):
    items = []
    hdr = ("From Coq Require Import List NArith ZArith. Import ListNotations.\n"
           "From PV Require Import Common.Cases C17.Model.\nLocal Open Scope N_scope.\n")
    fams = [
        ([c for c in all_items if c[0]["kind"] not in ("ice", "ice2", "race")], coq_case, "check_case",
         "kind * N * N * bool * N * list op * list obs", per),
        ([c for c in all_items if c[0]["kind"] == "ice"], coq_ice_case, "check_ice",
         "N * N * N * bool * N * list iop * list obs", per),
        ([c for c in all_items if c[0]["kind"] == "ice2"], coq_ice2_case, "check_ice2",
         "N * N * N * N * bool * data * list (option N) * list iop * list obs2", 200),
        ([c for c in all_items if c[0]["kind"] == "race"], coq_race_case, "check_race",
         "N * N * N * N * bool * data * list (option N) * list rop * list obs2", 300),
    ]
    coq_items = []
    for fam, printer, fn, ty, n in fams:
        for i in range(0, len(fam), n):
            chunk = fam[i:i + n]
            txt = hdr + ("Definition cases : list (%s) := [\n%s\n].\nEval vm_compute in (bad_indices %s cases).\n"
                         % (ty, ";\n".join(printer(*c) for c in chunk), fn))
            items.append(("cases_%06d" % len(coq_items), txt))
            coq_items.extend(chunk)
    res = common.coq_run_many(items, ctx.pid, timeout=900, par=14)
    nbad = 0
    for name, (rc, out) in sorted(res.items()):
        bad = common.parse_eval_nat_list(out) if rc == 0 else None
        if bad is None:
            ctx.tie_broken("correspondence:" + name, out)
        elif bad:
            base = int(name.split("_")[1])
            for b in bad[:3]:
                case, ops, obs = coq_items[base + b]
                nbad += 1
                ctx.tie_broken("correspondence:%s" % KEY[case["kind"]], json.dumps(
                    {"case": case, "ops_executed": ops, "impl_observations": obs}, default=list)[:3000])
    return nbad


def run(ctx):
    ctx.build_property()
    ctx.note("coq build done %.1fs" % (__import__("time").time() - ctx.t0))
    if ctx.thorough:
        ctx.coqchk()
    rng = ctx.rng
    coq_items = []
    # 1. corpus
    for fname, d in common.load_corpus(ctx.pid):
        case = case_from_json(d["case"])
        evaluate(ctx, case, "corpus", coq_items)
    # 2. exhaustive over tiny buffers
    maxlen = 4 if ctx.thorough else 3
    for kind in ("buf", "bio", "srw"):
        for (size, head) in ((2, 1), (2, 2), (3, 2)):
            for prot in (False, True):
                for case in exhaustive_cases(kind, size, head, prot, maxlen):
                    evaluate(ctx, case, "exhaustive", coq_items)
    # 3. generated histories, tiny to production sizes
    mult = 8 if ctx.thorough else 1
    plan = [(SMALL, 1800 * mult, 14), (MEDIUM, 560 * mult, 14), (LARGE, 140 * mult, 12)]
    for sizes, count, nops in plan:
        for j in range(count):
            size, head = sizes[j % len(sizes)]
            kind = ("bio", "srw", "buf", "bio", "srw", "sio", "ssw")[j % 7]
            n = rng.randint(1, nops)
            if kind == "buf":
                case = gen_buf_case(rng, size, head, n)
            else:
                case = gen_wrapper_case(rng, kind, size, head, n)
            if size > 1024:
                case["drain"] = rng.choice([4096, 8192, 1000, 16384, size, size // 2 + 1])
                case["drain_max"] = 30
            evaluate(ctx, case, "generated", coq_items)
    # 3b. metadata probing (get_buffered_io_metadata) as an operation of the histories
    for case in probe_cases():
        evaluate(ctx, case, "exhaustive", coq_items)
    real_tinytag_check(ctx)
    # 4. PatchedIceCastClient: download loop and reader interleaved deterministically
    ice_plan = [(4, 1, 2), (4, 2, 1), (8, 4, 2), (8, 3, 3), (16, 8, 4), (64, 32, 8), (65536, 32768, 8192)]
    for j in range(350 * mult):
        size, head, block = ice_plan[j % len(ice_plan)]
        meta = 0 if j % 3 else rng.choice([1, block - 1, block, block]) or 1     # chunk <= BLOCK_SIZE
        if j % 10 == 9:
            meta = rng.choice([block + 1, 2 * block - 1, min(size, 2 * block)])      # the recorded finding
        case = gen_ice_case(rng, size, head, block, meta, rng.randint(2, 14))
        evaluate(ctx, case, "generated", coq_items)
    # 5. the REAL _download_stream with scripted short reads of the HTTP body, with and without icy-metaint
    ice2_plan = [(8, 4, 2), (8, 3, 3), (8, 4, 4), (16, 8, 4), (16, 4, 5), (64, 32, 8), (64, 16, 16), (7, 1, 1)]
    for j in range(360 * mult):
        size, head, block = ice2_plan[j % len(ice2_plan)]
        sel = j % 10
        if sel < 5:          # no icy-metaint: arbitrary short reads (1 byte, n-1, exact)
            case = gen_ice2_case(rng, size, head, block, 0, exact=(sel == 0))
        elif sel < 8:        # icy-metaint, exact reads, empty and non-empty metadata blocks
            case = gen_ice2_case(rng, size, head, block, rng.choice([1, 2, block - 1, block, block]) or 1, exact=True)
        else:                # icy-metaint with short reads (recorded findings)
            case = gen_ice2_case(rng, size, head, block, rng.choice([2, block - 1, block, block]) or 1, exact=False)
        evaluate(ctx, case, "generated", coq_items)
    # 6. two threads on one buffer: one turn of the download loop raced with one reader operation at every
    #    scheduling point (every load/store of the buffer's mutable attributes), from several buffer states
    for case in race_cases(20, RACE_COPS if ctx.thorough else RACE_COPS[:3]):
        evaluate(ctx, case, "exhaustive", coq_items)
    for j in range(90 * mult):
        evaluate(ctx, gen_race_case(rng, *RACE_CONFIGS[j % len(RACE_CONFIGS)]), "generated", coq_items)
    # constructor guard
    for (size, head) in ((1, 2), (0, 1), (4, 5)):
        evaluate(ctx, {"kind": "buf", "size": size, "head": head, "prot": False, "len": 0, "ops": []}, "ctor", coq_items)
    ctx.note("implementation runs done: %d histories, %d to compare in Coq, %.1fs" % (ctx.evaluations, len(coq_items), __import__("time").time() - ctx.t0))
    real_reader_cross_check(ctx, 200 if ctx.thorough else 40)
    ctx.traces = len(coq_items)
    ctx.rule = ("operation histories (read/seek/protect for the wrappers; add/get/seek/protect/fits for the buffer) "
                "followed by an optional rewind+unprotect and a drain; exhaustive up to length %d over a 10-letter "
                "alphabet for buffers (2,1),(2,2),(3,2) x protected x {buffer, BufferedIOBaseWrapper, "
                "StreamReaderWrapper}; generated for %d size/headroom pairs up to (65536,32768) with short source "
                "reads, also through StreamableIOBaseWrapper and StreamableSourceWrapper; PatchedIceCastClient: generated "
                "interleavings of download iterations and read/seek/protect for 7 (size, headroom, BLOCK_SIZE) triples up "
                "to production, with and without icy-metaint; the real _download_stream on finite bodies (<= 200 audio bytes) "
                "served with scripted short reads (1 byte, n-1, exact), with/without icy-metaint, empty and 16-byte metadata "
                "blocks, bodies ending on and off a frame boundary; explicit two-party schedules: one turn of the real download "
                "loop raced with read/seek at every load/store of the shared buffer attributes (both nesting orders, 3 buffer "
                "configurations x protected x 4 states), outcome compared with the two serial orders; non-trivial = at least one byte was returned; "
                "distinct by (kind, sizes, executed history)"
                % (maxlen, len(SMALL) + len(MEDIUM) + len(LARGE)))
    coq_compare(ctx, coq_items)
    ctx.trusted += [
        "hand-written model coq/C17/Model.v of pyatv/support/buffer.py and of the wrappers in "
        "pyatv/protocols/raop/audio_source.py, tied by the differential run of this file evaluated in Coq by vm_compute "
        "(results, position, size, remaining and number of bytes taken from the source after every operation)",
        "fake non-seekable file / StreamReader with scripted short reads (the limit also varies between the calls of one "
        "operation, which StreamReaderWrapper._read_from_source must absorb); asyncio.run_coroutine_threadsafe replaced "
        "inside audio_source by a synchronous runner (harness/c17.py), cross-checked on every run against a real "
        "asyncio.StreamReader served by an event loop in another thread",
        "PatchedIceCastClient driven without its thread: requests.get and time.sleep/monotonic inside audio_source are "
        "replaced, the download loop and the reader are interleaved deterministically at the loop's two waiting points; "
        "two-thread schedules are executed in one OS thread: the buffer under test is a subclass of the real "
        "SemiSeekableBuffer whose four mutable attributes are properties (scheduling points), _buffer_lock is a proxy "
        "(a party that would block runs when the lock is released), one loop turn = one call of _download_stream cut at "
        "its next waiting point; schedules have one preemption (first party runs k accesses, the other runs completely)",
        "ICY metadata blocks are empty (length byte 0) in the production-size interleavings; the detailed producer "
        "runs name every body byte by its wire value (audio 16+offset, length byte < 16, metadata 240+i) so that a "
        "length or metadata byte reaching the reader is recognised; the fake raw.read raises after 40 consecutive "
        "empty reads (the spinning _readall) and after 20000 calls; every history runs under a 60 s alarm",
        "returned bytes are identified by running each history on up to three contents (base-256 digits of the "
        "offset); relies on the code not branching on byte values, which the runs cross-check",
    ]
    ctx.assumptions += [
        "sizes and offsets are non-negative; the only negative read size is -1",
        "buffer created with 1 <= headroom <= size (the constructor enforces headroom <= size)",
        "one wrapper is used from one thread at a time; PatchedIceCastClient: add() and get() are atomic (its lock)",
        "the source itself delivers its bytes in order (short reads allowed, a read of 0 bytes only at end of stream)",
    ]


def case_from_json(c):
    c = dict(c)
    c["ops"] = [tuple(tuple_deep(o)) if not isinstance(o, tuple) else o for o in c["ops"]]
    fixed = []
    for o in c["ops"]:
        if o[0] == "add":
            fixed.append(("add", [tuple(x) for x in o[1]]))
        else:
            fixed.append(tuple(o))
    c["ops"] = fixed
    return c


def replay(ctx, path):
    d = json.load(open(path))
    r = d.get("replay", d)
    if "case" not in r:
        print("this replay file records a broken proof obligation / correspondence, not an input:")
        print(json.dumps(d.get("broken", d), indent=1)[:3000])
        return 1
    if "ops" not in r["case"]:
        # a finding of the real-TinyTag flow: re-run that flow
        class Collect:
            found = []

            def violation(self, key, what, replay):
                self.found.append((key, what))

            def count(self, *a):
                pass
        c = Collect()
        real_tinytag_check(c)
        for key, what in c.found:
            print(key, "|", what)
        return 1 if any(k == d.get("key") for k, _ in c.found) else 0
    case = case_from_json(r["case"])
    try:
        ops, obs = run_any(case)
    except ImplError as ex:
        print("implementation raised:", ex.args[0])
        return 1
    if obs is None:
        print("constructor raised ValueError")
        return 0
    print("%s size=%d headroom=%d protected=%s source_len=%d%s" % (
        KEY[case["kind"]], case["size"], case["head"], case["prot"], case["len"],
        " BLOCK_SIZE=%d icy-metaint=%d" % (case["block"], case["meta"]) if case["kind"] in ("ice", "ice2", "race") else ""))
    if case["kind"] in ("ice2", "race"):
        print("  body (0..: audio offset, 1000+v: length byte, 2000+i: metadata): %r  short-read script: %r"
              % (rle(ice2_body(case)), case["caps"]))
    for op, ob in zip(ops, obs):
        print("  %-28s -> %-40s position=%d size=%d remaining=%d taken-from-source=%d" % (
            op, ob["res"][1:] if len(ob["res"]) > 1 else ob["res"][0], ob["pos"], ob["size"], ob["rem"], ob["src"]))
    err = judge(case, ops, obs)
    for (idx, log) in case.get("_schedules", []):
        print("  schedule of the race at op %d:" % idx)
        for line in log:
            print("      " + line)
    print("property-error=%s" % (err,))
    return 1 if err else 0
