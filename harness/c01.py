"""C01 - routing of API calls to the highest-priority implementing protocol.

Theorems: coq/C01 (arbitrary override table, registration, takeover state, histories).
Translator: gen(ctx) re-emits coq/C01/Gen.v from the working tree on every run
(priority lists by ast AND at run time, public members of the interfaces, the facade
table observed on the real facade classes, the override table of the real protocol
classes obtained from the five real setup() generators).
Correspondence: the real Relayer / FacadeAppleTV driven with recording stub instances
built from random override tables and from the real one; evaluated inside Coq.

c13.py imports the translator and the stub machinery from this module.
"""
import ast
import asyncio
import inspect
import itertools
import json
import os
import time
import warnings
from ipaddress import IPv4Address

import common
import vloop

PROTOS = ["MRP", "DMAP", "Companion", "AirPlay", "RAOP"]

# interface class name -> (Coq constructor, accessor on the device object)
IFACES = [
    ("Features", "IFeatures", "features"),
    ("RemoteControl", "IRemoteControl", "remote_control"),
    ("Metadata", "IMetadata", "metadata"),
    ("Power", "IPower", "power"),
    ("PushUpdater", "IPushUpdater", "push_updater"),
    ("Stream", "IStream", "stream"),
    ("Apps", "IApps", "apps"),
    ("UserAccounts", "IUserAccounts", "user_accounts"),
    ("Audio", "IAudio", "audio"),
    ("Keyboard", "IKeyboard", "keyboard"),
    ("TouchGestures", "ITouchGestures", "touch"),
]
ICOQ = {n: c for n, c, _ in IFACES}
IACC = {n: a for n, _, a in IFACES}
# the nine interfaces of the property text, plus PushUpdater (modelled special case)
NINE = ["RemoteControl", "Metadata", "Power", "Audio", "Apps", "UserAccounts", "Keyboard",
        "TouchGestures", "Stream"]
RELAYED = NINE + ["PushUpdater"]

# the orders of the PROPERTY TEXT (used by the oracle only; never read from the code)
TEXT_DEFAULT = ["MRP", "DMAP", "Companion", "AirPlay", "RAOP"]
TEXT_POWER = ["Companion", "MRP", "DMAP", "AirPlay", "RAOP"]


def text_order(iface):
    return TEXT_POWER if iface == "Power" else TEXT_DEFAULT


def quiet():
    warnings.showwarning = lambda *a, **k: None
    import logging
    logging.disable(logging.CRITICAL)


def P(name):
    from pyatv.const import Protocol
    return getattr(Protocol, name)


def iface_cls(name):
    from pyatv import interface
    return getattr(interface, name)


# ----------------------------------------------------------------------- members

def public_members(base):
    """Public members declared by the base interface: [(name, 'prop'|'async'|'sync')]."""
    out = []
    for n, v in base.__dict__.items():
        if n.startswith("_"):
            continue
        if isinstance(v, property):
            out.append((n, "prop"))
        elif inspect.isfunction(v):
            out.append((n, "async" if inspect.iscoroutinefunction(v) else "sync"))
    return out


def overrides_mro(cls, base, name):
    """Independent override test: the class that provides `name` along the MRO of cls is
    not the base interface (nor one of its ancestors)."""
    for k in cls.__mro__:
        if name in k.__dict__:
            return k not in base.__mro__
    return False


def dummy_args(fn):
    """Arguments for a public member, from its signature."""
    from enum import Enum
    args = []
    sig = inspect.signature(fn)
    for i, (n, p) in enumerate(sig.parameters.items()):
        if i == 0 and n == "self":
            continue
        if p.kind == p.VAR_POSITIONAL:
            args.append("x")
            continue
        if p.kind == p.VAR_KEYWORD or p.default is not p.empty:
            continue
        a = p.annotation
        if a is int:
            args.append(1)
        elif a is float:
            args.append(50.0)
        elif inspect.isclass(a) and issubclass(a, Enum):
            args.append(list(a)[0])
        else:
            args.append("x")
    return args


def string_kinds():
    """Kinds of values for string arguments that may name a resource: URLs, existing local files with an
    audio / video / unknown extension (created under build/), a path that does not exist."""
    d = os.path.join(common.BUILD, "argfiles")
    os.makedirs(d, exist_ok=True)
    out = ["http://127.0.0.1:9/verif.mp4", "https://127.0.0.1:9/verif.mp3"]
    for name in ("verif.mp3", "verif.mp4", "verif.bin"):
        path = os.path.join(d, name)
        if not os.path.exists(path):
            with open(path, "wb") as f:
                f.write(b"\0" * 64)
        out.append(path)
    out.append(os.path.join(d, "does-not-exist.wav"))
    return out


def _is_str_annotation(a):
    import typing
    if a is str:
        return True
    return typing.get_origin(a) is typing.Union and str in typing.get_args(a)


def arg_variants(fn):
    """Keyword-argument variations of a public member, one parameter at a time: every value of every
    enum-typed parameter (required or optional), both values of bool parameters, a non-default number, and
    for string parameters every KIND of value (see string_kinds).
    The first variant is {} (defaults / dummy_args)."""
    from enum import Enum
    out = [{}]
    sig = inspect.signature(fn)
    for i, (n, p) in enumerate(sig.parameters.items()):
        if (i == 0 and n == "self") or p.kind in (p.VAR_POSITIONAL, p.VAR_KEYWORD):
            continue
        if p.kind == p.POSITIONAL_ONLY and p.default is not p.empty:
            continue
        a = p.annotation
        d = p.default
        if _is_str_annotation(a) and (d is p.empty or isinstance(d, str)):
            out += [{n: v} for v in string_kinds()]
            continue
        if isinstance(d, Enum):
            vals = [v for v in type(d) if v != d]
        elif inspect.isclass(a) and issubclass(a, Enum):
            vals = list(a)[1:] if d is p.empty else [v for v in a if v != d]
        elif isinstance(d, bool):
            vals = [not d]
        elif isinstance(d, (int, float)) and d is not None:
            vals = [type(d)(d + 10)]
        else:
            continue
        out += [{n: v} for v in vals]
    return out


def show_kwargs(kw):
    return {k: (v.name if hasattr(v, "name") else v) for k, v in kw.items()}


def load_kwargs(fn, kw):
    """Inverse of show_kwargs for a replay."""
    from enum import Enum
    sig = inspect.signature(fn)
    out = {}
    for k, v in (kw or {}).items():
        p = sig.parameters.get(k)
        cls = None
        if p is not None:
            if isinstance(p.default, Enum):
                cls = type(p.default)
            elif inspect.isclass(p.annotation) and issubclass(p.annotation, Enum):
                cls = p.annotation
        out[k] = getattr(cls, v) if cls and isinstance(v, str) else v
    return out


# ----------------------------------------------------------------------- stubs

def _mk_member(name, kind):
    if kind == "prop":
        return property(lambda self: self._hit(name))
    if kind == "async":
        async def f(self, *a, **k):
            return self._hit(name)
        f.__name__ = name
        return f

    def g(self, *a, **k):
        return self._hit(name)
    g.__name__ = name
    return g


def _hit(self, name):
    self._log.append((self._proto, self._iface, name))
    return 50.0 if name == "volume" else None


def make_stub(iface, proto, ov, log, style="sub"):
    """Recording instance for interface `iface` overriding exactly the members in `ov`.
    style: 'sub' subclass of the base interface, 'falsy' subclass whose instances are falsy,
    'duck' not a subclass (members outside ov do not exist)."""
    base = iface_cls(iface)
    ns = {"_hit": _hit}
    for m, kind in public_members(base):
        if m in ov:
            ns[m] = _mk_member(m, kind)
    if style == "falsy":
        ns["__bool__"] = lambda self: False
    bases = (object,) if style == "duck" else (base,)
    cls = type("Stub%s%s" % (proto, iface), bases, ns)
    if getattr(cls, "__abstractmethods__", None):
        cls.__abstractmethods__ = frozenset()
    obj = cls.__new__(cls)
    if style != "duck":
        try:
            base.__init__(obj)
        except TypeError:
            pass
    obj._proto = proto
    obj._iface = iface
    obj._log = log
    obj._style = style
    obj._ov = set(ov)
    return obj


def inst_bits(obj, member):
    """(truthy, has_attr, overrides) as the model's `inst`, from how the stub was built."""
    if obj._style == "duck":
        return (True, member in obj._ov, member in obj._ov)
    return (obj._style != "falsy", True, member in obj._ov)


def make_features(states, log=None, proto=None, falsy=False):
    from pyatv import interface
    from pyatv.const import FeatureState

    class _F(interface.Features):
        def __init__(self):
            self.states = states

        def get_feature(self, feature_name):
            if log is not None:
                log.append((proto, "Features", feature_name.name))
            return interface.FeatureInfo(self.states.get(feature_name.name, FeatureState.Unsupported))

        def __bool__(self):
            return not falsy
    return _F()


def stub_setup(proto, interfaces, features=(), connects=True):
    from pyatv.core import SetupData
    from pyatv.const import FeatureName

    async def _connect():
        return connects

    return SetupData(P(proto), _connect, lambda: set(), lambda: {},
                     {iface_cls(k): v for k, v in interfaces.items()},
                     set(getattr(FeatureName, f) for f in features))


async def build_facade(setups):
    from pyatv import conf
    from pyatv.core import CoreStateDispatcher
    from pyatv.core.facade import FacadeAppleTV
    from pyatv.settings import Settings
    cfg = conf.AppleTV(IPv4Address("127.0.0.1"), "verif")
    atv = FacadeAppleTV(cfg, None, CoreStateDispatcher(), Settings())
    for sd in setups:
        atv.add_protocol(sd)
    await atv.connect()
    return atv


async def invoke(obj, name, kind, base, kwargs=None):
    """Call one public member (kwargs override/extend the placeholder arguments); returns exception class
    name or None."""
    try:
        if kind == "prop":
            getattr(obj, name)
        else:
            fn = getattr(obj, name)
            sig = inspect.signature(getattr(base, name))
            args = dummy_args(getattr(base, name))
            kw = dict(kwargs or {})
            # a required parameter given by keyword replaces its positional placeholder
            req = [n for i, (n, p) in enumerate(sig.parameters.items())
                   if not (i == 0 and n == "self") and p.default is p.empty and p.kind not in (p.VAR_KEYWORD,)]
            for k in list(kw):
                if k in req and req.index(k) < len(args):
                    args[req.index(k)] = kw.pop(k)
            r = fn(*args, **kw)
            if inspect.isawaitable(r):
                await r
        return None
    except Exception as ex:  # noqa
        return type(ex).__name__


def holder_of(atv, iface):
    """Relayer._takeover_protocol of the facade relayer (list of protocol names)."""
    r = atv._interfaces[iface_cls(iface)]
    return [p.name for p in r._takeover_protocol]


# ----------------------------------------------------------------------- translator

def parse_priorities_ast(path):
    """DEFAULT_PRIORITIES (module level) and FacadePower.OVERRIDE_PRIORITIES as written."""
    tree = ast.parse(open(path).read())

    def lit(node):
        if not isinstance(node, (ast.List, ast.Tuple)):
            raise ValueError("priority list is not a list literal")
        out = []
        for e in node.elts:
            if not (isinstance(e, ast.Attribute) and isinstance(e.value, ast.Name) and e.value.id == "Protocol"):
                raise ValueError("priority entry is not Protocol.<name>")
            if e.attr not in PROTOS:
                raise ValueError("unknown protocol %s" % e.attr)
            out.append(e.attr)
        return out

    res = {}
    for node in tree.body:
        if isinstance(node, ast.Assign) and len(node.targets) == 1 and isinstance(node.targets[0], ast.Name) \
                and node.targets[0].id == "DEFAULT_PRIORITIES":
            res["default"] = lit(node.value)
        if isinstance(node, ast.ClassDef) and node.name == "FacadePower":
            for n in node.body:
                if isinstance(n, ast.Assign) and len(n.targets) == 1 and isinstance(n.targets[0], ast.Name) \
                        and n.targets[0].id == "OVERRIDE_PRIORITIES":
                    res["power"] = lit(n.value)
    if set(res) != {"default", "power"}:
        raise ValueError("priority lists not found in facade.py: %s" % sorted(res))
    return res


async def real_setups():
    """Instantiate the five real setup() generators offline.  Returns ({proto: SetupData}, cleanup)."""
    from pyatv import conf
    from pyatv.core import MutableService, create_core
    from pyatv.protocols import PROTOCOLS
    out = {}
    cores = []
    for proto in PROTOS:
        props = {"features": "0x1"} if proto == "AirPlay" else {}
        svc = MutableService("verif-id", P(proto), 1234, props,
                             credentials="aa:bb" if proto == "Companion" else None)
        cfg = conf.AppleTV(IPv4Address("127.0.0.1"), "verif")
        cfg.add_service(svc)
        core = await create_core(cfg, svc)
        cores.append(core)
        for sd in PROTOCOLS[P(proto)].setup(core):
            if sd.protocol.name == proto and proto not in out:
                out[proto] = sd
    if sorted(out) != sorted(PROTOS):
        raise ValueError("setup() did not yield every protocol: %s" % sorted(out))

    async def cleanup():
        for c in cores:
            try:
                await c.session_manager.close()
            except Exception:  # noqa
                pass
    return out, cleanup


async def observe_rows():
    """The facade table, observed on the real facade classes: for every public member of every
    relayed interface, which name is passed to relay() with which explicit priority, whether the
    member broadcasts to every instance, and whether it is gated on its own feature."""
    from pyatv import interface
    from pyatv.const import FeatureState
    rows = []
    for iface in RELAYED:
        base = iface_cls(iface)
        for m, kind in public_members(base):
            obs = {}
            feat = getattr(getattr(base.__dict__[m], "fget", base.__dict__[m]), "_feature_name", None)
            # scenarios: every feature Available / none / only the member's own feature missing / only it present
            for scen in ("all", "none", "own-missing", "own-only"):
                log = []
                states = {}
                from pyatv.const import FeatureName
                names = [f.name for f in FeatureName]
                own = None
                if feat is not None:
                    idx = [i for i, v in interface._ALL_FEATURES.items() if v[0] == feat]
                    own = FeatureName(idx[0]).name if idx else None
                for n in names:
                    if scen == "all":
                        av = True
                    elif scen == "none":
                        av = False
                    elif scen == "own-missing":
                        av = n != own
                    else:
                        av = n == own
                    states[n] = FeatureState.Available if av else FeatureState.Unavailable
                setups = []
                for p in PROTOS:
                    ifs = {i: make_stub(i, p, [x for x, _ in public_members(iface_cls(i))], log) for i in RELAYED}
                    ifs["Features"] = make_features(states)
                    setups.append(stub_setup(p, ifs, names))
                atv = await build_facade(setups)
                fac = getattr(atv, IACC[iface])
                calls = []
                orig = fac.relay

                def rec(target, priority=None, _o=orig):
                    calls.append((target, None if priority is None else [x.name for x in priority]))
                    return _o(target, priority)
                fac.relay = rec
                exc = await invoke(fac, m, kind, base)
                obs[scen] = (tuple((c[0], tuple(c[1]) if c[1] is not None else None) for c in calls),
                             tuple(log), exc)
            a = obs["all"]
            if a[2] is not None:
                raise ValueError("facade member %s.%s raises %s with every protocol implementing it" % (iface, m, a[2]))
            if len(a[0]) == 1 and len(a[1]) == 1:
                target, arg = a[0][0]
                if obs["none"] == a:
                    k = "KRelay"
                elif (obs["none"][2] == "NotSupportedError" and not obs["none"][1] and not obs["none"][0]
                      and obs["own-missing"] == obs["none"] and obs["own-only"] == a):
                    k = "KGated"
                else:
                    raise ValueError("facade member %s.%s: unrecognised dependence on features" % (iface, m))
                if a[1][0][2] != target:
                    raise ValueError("relay(%s) executed %s" % (target, a[1][0][2]))
            elif len(a[0]) == 0 and [x[0] for x in a[1]] == PROTOS and len({x[2] for x in a[1]}) == 1 \
                    and obs["none"] == a:
                k, target, arg = "KBroadcast", a[1][0][2], None
            else:
                raise ValueError("facade member %s.%s: unrecognised shape relay=%s executed=%s" % (iface, m, a[0], a[1]))
            rows.append({"iface": iface, "member": m, "mkind": kind, "kind": k, "target": target,
                         "arg": list(arg) if arg is not None else None})
    return rows


async def collect(need_rows=True):
    """Everything the generated files are made of (need_rows=False: without the facade table, for C13)."""
    quiet()
    from pyatv import interface
    from pyatv.const import FeatureName
    from pyatv.core import facade
    t = {}
    pr = parse_priorities_ast(os.path.join(common.REPO, "pyatv", "core", "facade.py"))
    t["default_ast"], t["power_ast"] = pr["default"], pr["power"]
    t["default_rt"] = [p.name for p in facade.DEFAULT_PRIORITIES]
    t["power_rt"] = [p.name for p in facade.FacadePower.OVERRIDE_PRIORITIES]
    # facade relayers as constructed
    atv = await build_facade([stub_setup("MRP", {"Features": make_features({})})])
    keys = [k.__name__ for k in atv._interfaces]
    t["facade_ifaces"] = keys
    t["relayer_prios"] = {k.__name__: [p.name for p in v._priorities] for k, v in atv._interfaces.items()}
    t["members"] = {i: public_members(iface_cls(i)) for i in RELAYED}
    t["rows"] = await observe_rows() if need_rows else []
    # real protocol classes
    sds, cleanup = await real_setups()
    try:
        real = {}
        truthy = True
        subclass = True
        for p in PROTOS:
            real[p] = {}
            for k, inst in sds[p].interfaces.items():
                name = k.__name__
                if name not in ICOQ:
                    raise ValueError("protocol %s registers unknown interface %s" % (p, name))
                truthy = truthy and bool(inst)
                subclass = subclass and isinstance(inst, k)
                real[p][name] = [m for m, _ in public_members(k) if overrides_mro(type(inst), k, m)]
        t["real"] = real
        t["real_truthy"] = truthy
        t["real_subclass"] = subclass
        t["real_features"] = {p: sorted(f.name for f in sds[p].features) for p in PROTOS}
    finally:
        await cleanup()
    # features -> members
    feats = []
    for f in FeatureName:
        ent = interface._ALL_FEATURES.get(f.value)
        mems = []
        if ent is not None:
            for cname in ["Playing"] + RELAYED:
                cls = getattr(interface, cname)
                for m, _ in public_members(cls):
                    v = cls.__dict__[m]
                    fn = v.fget if isinstance(v, property) else v
                    if getattr(fn, "_feature_name", None) == ent[0]:
                        mems.append(("Metadata", "playing") if cname == "Playing" else (cname, m))
        feats.append({"name": f.name, "index": f.value, "members": mems})
    t["features"] = feats
    return t


def coq_str(s):
    assert '"' not in s
    return '"%s"' % s


def coq_protos(l):
    return "[" + "; ".join(l) + "]"


def emit_c01(t):
    L = []
    A = L.append
    A("(* GENERATED by harness/c01.py gen() from %s - do not edit; re-emitted on every run *)" % "the working tree of pyatv")
    A("From Coq Require Import List String.")
    A("From PV Require Import C01.Model.")
    A("Import ListNotations.")
    A("Open Scope string_scope.")
    A("")
    A("(* pyatv/core/facade.py: DEFAULT_PRIORITIES, FacadePower.OVERRIDE_PRIORITIES - as parsed (ast) and as imported (rt) *)")
    for k in ("default_ast", "default_rt", "power_ast", "power_rt"):
        A("Definition %s : list proto := %s." % (k, coq_protos(t[k])))
    A("")
    A("(* keys of FacadeAppleTV._interfaces, in dict order *)")
    A("Definition facade_ifaces : list iface := %s." % coq_protos([ICOQ[k] for k in t["facade_ifaces"]]))
    A("(* Relayer._priorities of each facade relayer as constructed *)")
    A("Definition relayer_prio (i : iface) : list proto :=\n  match i with")
    for n, c, _ in IFACES:
        A("  | %s => %s" % (c, coq_protos(t["relayer_prios"][n])))
    A("  end.")
    A("")
    A("(* public members of the base interfaces (pyatv/interface.py) *)")
    A("Definition members : list (iface * list string) := [")
    A(";\n".join("  (%s, [%s])" % (ICOQ[i], "; ".join(coq_str(m) for m, _ in t["members"][i])) for i in RELAYED))
    A("].")
    A("")
    A("(* the facade table observed on the real facade classes *)")
    A("Definition rows : list row := [")
    A(";\n".join("  {| r_iface := %s; r_member := %s; r_kind := %s; r_target := %s; r_arg := %s |}" % (
        ICOQ[r["iface"]], coq_str(r["member"]), r["kind"], coq_str(r["target"]),
        "None" if r["arg"] is None else "Some " + coq_protos(r["arg"])) for r in t["rows"]))
    A("].")
    A("")
    A("(* members of the base interface overridden by the class each real protocol registers in setup() *)")
    A("Definition real_impl : list (proto * iface * list string) := [")
    A(";\n".join("  (%s, %s, [%s])" % (p, ICOQ[i], "; ".join(coq_str(m) for m in t["real"][p][i]))
                 for p in PROTOS for i in t["real"][p]))
    A("].")
    A("(* every instance registered by a real setup() is truthy / an instance of the base interface *)")
    A("Definition real_truthy : bool := %s." % common.cbool(t["real_truthy"]))
    A("Definition real_subclass : bool := %s." % common.cbool(t["real_subclass"]))
    return "\n".join(L) + "\n"


def write_if_changed(path, text):
    os.makedirs(os.path.dirname(path), exist_ok=True)
    old = open(path).read() if os.path.exists(path) else None
    if old != text:
        with open(path, "w") as f:
            f.write(text)


def gen(ctx):
    """Translator step.  Raises on anything outside the supported shape (fail closed)."""
    t = vloop.run(collect)
    write_if_changed(os.path.join(common.COQ, "C01", "Gen.v"), emit_c01(t))
    return t


# ----------------------------------------------------------------------- oracle (property text)

def expected_route(iface, member, holder, impl):
    """The property text: the protocol that must execute the call, or None (= not supported).
    impl: {proto: bool} - the protocol is connected with this interface and implements the member."""
    order = ([holder] if holder else []) + text_order(iface)
    for p in order:
        if impl.get(p):
            return p
    return None


def judge_route(row, holder, impl, gate, regd, called, exc):
    """Returns (key, what) for a violation of the property text, or None."""
    k = row["kind"]
    if k == "KBroadcast":
        # documented special case (push updates are not one of the nine interfaces): every instance
        if exc is not None or called != regd:
            return ("C01:push_updater:broadcast", "start/stop did not reach every registered push updater exactly once")
        return None
    exp = expected_route(row["iface"], row["member"], holder, impl)
    if k == "KGated" and not gate:
        # the features interface does not report PlayUrl as available: refusing is the documented
        # behaviour; sending it anywhere else than the right protocol would still be wrong
        if called and called != [exp]:
            return ("C01:route:wrong-protocol", "gated member executed by %s, expected %s" % (called, exp))
        if exc not in (None, "NotSupportedError"):
            return ("C01:route:unexpected-exception", "gated member raised %s" % exc)
        return None
    if exp is None:
        if called:
            return ("C01:route:sent-to-non-implementing", "no connected protocol implements the member but %s executed it" % called)
        if exc is None:
            return ("C01:route:silently-dropped", "no connected protocol implements the member and no error was raised")
        if exc != "NotSupportedError":
            return ("C01:route:wrong-error", "no connected protocol implements the member; raised %s instead of NotSupportedError" % exc)
        return None
    if len(called) > 1:
        return ("C01:route:multiple-protocols", "executed by %s, expected only %s" % (called, exp))
    if called == [exp] and exc is None:
        return None
    if called and called != [exp]:
        return ("C01:route:wrong-protocol", "executed by %s, expected %s" % (called[0], exp))
    if exc == "NotSupportedError":
        return ("C01:route:not-supported-although-implemented", "%s implements the member but the call failed with NotSupportedError" % exp)
    if exc is None:
        return ("C01:route:silently-dropped", "%s implements the member but nothing was executed and no error raised" % exp)
    return ("C01:route:unexpected-exception", "raised %s, expected execution by %s" % (exc, exp))


# ----------------------------------------------------------------------- drivers

def subsets():
    out = []
    for n in range(1, 6):
        for c in itertools.combinations(PROTOS, n):
            out.append(list(c))
    return out


def random_table(rng, members, density):
    """{proto: {iface: {"style":..., "ov":[...]}}} for every relayed interface (presence decided per subset)."""
    tab = {}
    for p in PROTOS:
        tab[p] = {}
        for i in RELAYED:
            if rng.random() < 0.15:
                continue           # this protocol does not register the interface at all
            r = rng.random()
            style = "sub"
            if i != "PushUpdater":
                if r < 0.04:
                    style = "duck"
                elif r < 0.08:
                    style = "falsy"
            d = rng.choice(density)
            ov = [m for m, _ in members[i] if rng.random() < d]
            if i == "PushUpdater":
                # start/stop are abstract in the base interface: every instantiable class overrides them
                ov = sorted(set(ov) | {"start", "stop"}, key=[m for m, _ in members[i]].index)
            tab[p][i] = {"style": style, "ov": ov}
    return tab


def real_table(t):
    tab = {}
    for p in PROTOS:
        tab[p] = {}
        for i, ov in t["real"][p].items():
            if i in RELAYED:
                tab[p][i] = {"style": "sub", "ov": list(ov)}
    return tab


FSTATES = ["Available", "Unavailable", "Unknown", "Unsupported"]


async def facade_for(tab, subset, log, feat_sets, feat_states, conn=None):
    """subset: protocols in the order their SetupData is added (a protocol may occur twice);
    conn[k]: what connect() of the k-th SetupData returns (default True).
    Returns (device object, [(proto, connect result, {iface: stub})] per position)."""
    from pyatv.const import FeatureState
    setups = []
    units = []
    for k, p in enumerate(subset):
        ok = True if conn is None else bool(conn[k])
        ifs = {}
        for i, d in tab[p].items():
            ifs[i] = make_stub(i, p, d["ov"], log, d["style"])
        units.append((p, ok, dict(ifs)))
        if feat_sets.get(p) is not None:
            ifs["Features"] = make_features({k_: getattr(FeatureState, v) for k_, v in feat_states[p].items()})
        setups.append(stub_setup(p, ifs, feat_sets.get(p) or (), ok))
    atv = await build_facade(setups)
    return atv, units


def set_up_units(units):
    """Independent bookkeeping of the property text: the SetupData that take part = for each protocol the
    first one whose connect() returned True."""
    out, seen = [], set()
    for p, ok, ifs in units:
        if p in seen or not ok:
            continue
        seen.add(p)
        out.append((p, ifs))
    return out


async def drive_routes(tab, order, rows, feat_sets, feat_states, holders, only=None, conn=None, variants=True):
    """One facade (SetupData added in `order`, connect() results `conn`), every relayed member - with every
    variation of its enum/bool/number arguments - and every takeover holder in `holders` (None = no
    takeover).  Yields observation dicts."""
    from pyatv.const import FeatureName, FeatureState
    log = []
    atv, units = await facade_for(tab, order, log, feat_sets, feat_states, conn)
    eff = set_up_units(units)
    out = []
    for iface in RELAYED:
        base = iface_cls(iface)
        fac = getattr(atv, IACC[iface])
        regd = [p for p, ifs in eff if iface in ifs]
        stub = {p: ifs[iface] for p, ifs in eff if iface in ifs}
        for h in holders:
            tok, tk_exc = None, None
            if h:
                try:
                    tok = atv.takeover(P(h), base)
                except Exception as ex:  # noqa  (an observation, judged below)
                    tk_exc = type(ex).__name__
            take = holder_of(atv, iface)
            for n, row in enumerate(rows):
                if row["iface"] != iface or (only and (iface, row["member"]) not in only):
                    continue
                gate = atv.features.in_state(FeatureState.Available, FeatureName.PlayUrl)
                kws = [{}]
                if row["mkind"] != "prop" and variants is True:
                    kws = arg_variants(getattr(base, row["member"]))
                elif isinstance(variants, list):
                    kws = variants
                for kw in kws:
                    del log[:]
                    exc = await invoke(fac, row["member"], row["mkind"], base, kw)
                    called = [e[0] for e in log]
                    wrong = [e for e in log if e[1] != iface or e[2] != row["member"]]
                    out.append({"row": n, "iface": iface, "member": row["member"], "kwargs": show_kwargs(kw), "holder": h,
                                "takeover_exception": tk_exc, "take": take, "gate": gate, "regd": regd, "called": called, "exc": exc, "wrong": wrong,
                                "bits": {p: inst_bits(stub[p], row["member"]) for p in regd},
                                "added": [(p, ok, inst_bits(ifs[iface], row["member"]) if iface in ifs else None)
                                          for p, ok, ifs in units],
                                "conforming": all(ifs[iface]._style == "sub" for _, _, ifs in units if iface in ifs)})
            if tok:
                tok()
    return out


def coq_inst(b):
    return "mkI %s %s %s" % tuple(common.cbool(x) for x in b)


def coq_added(added):
    return "[" + "; ".join("(%s, %s, %s)" % (p, common.cbool(ok), "None" if b is None else "Some (%s)" % coq_inst(b))
                           for p, ok, b in added) + "]"


def coq_reg(bits, regd):
    return "[" + "; ".join("(%s, %s)" % (p, coq_inst(bits[p])) for p in regd) + "]"


def coq_callres(called, exc):
    if exc is None:
        return "Called " + coq_protos(called)
    if exc == "NotSupportedError" and not called:
        return "ENotSupported"
    if exc == "RuntimeError" and not called:
        return "ERuntime"
    return None


def coq_outcome(who, exc):
    if exc is None:
        return "Routed " + who
    return {"NotSupportedError": "NotSupported", "RuntimeError": "RuntimeErr"}.get(exc)


def relayer_cases(rng, n):
    """Bare Relayer objects: arbitrary priority lists, explicit priority argument, odd instances."""
    from pyatv.core.relayer import Relayer
    from pyatv import exceptions
    out = []
    base = iface_cls("Apps")
    for _ in range(n):
        k = rng.randint(0, 5)
        prios = rng.sample(PROTOS, k)
        if rng.random() < 0.2 and prios:
            prios = prios + [rng.choice(prios)]
        rel = Relayer(base, [P(p) for p in prios])
        log = []
        bits = {}
        regd = []
        objs = {}
        for p in rng.sample(PROTOS, rng.randint(0, 5)):
            style = rng.choice(["sub", "sub", "sub", "duck", "falsy"])
            ov = [m for m in ("app_list", "launch_app") if rng.random() < 0.5]
            o = make_stub("Apps", p, ov, log, style)
            before = [x.name for x in rel._interfaces]
            try:
                rel.register(o, P(p))
                ok = True
            except RuntimeError:
                ok = False
            out.append({"kind": "register", "prios": prios, "proto": p, "before": before,
                        "after": [x.name for x in rel._interfaces] if ok else None})
            if ok:
                if p not in regd:
                    regd.append(p)
                objs[p] = o
                bits[p] = inst_bits(o, "app_list")
        take = []
        r = rng.random()
        if r < 0.6:
            h = rng.choice(PROTOS)
            rel.takeover(P(h))
            take = [h]
            if rng.random() < 0.3:
                try:
                    rel.takeover(P(rng.choice(PROTOS)))
                    second = True
                except exceptions.InvalidStateError:
                    second = False
                if second:
                    out.append({"kind": "second-takeover-accepted", "prios": prios})
            if rng.random() < 0.15:
                rel.release()
                take = []
        if [p.name for p in rel._takeover_protocol] != take:
            out.append({"kind": "takeover-state", "prios": prios, "take": take})
        mp = rel.main_protocol
        out.append({"kind": "main", "prios": prios, "take": take, "regd": [x.name for x in rel._interfaces],
                    "main": mp.name if mp else None})
        a = rng.random()
        arg = None if a < 0.5 else ([] if a < 0.6 else rng.sample(PROTOS, rng.randint(1, 5)))
        try:
            if arg is None:
                inst = rel._find_instance("app_list", itertools.chain(rel._takeover_protocol, rel._priorities)) \
                    if rng.random() < 0.5 else None
                if inst is None:
                    rel.relay("app_list")
                    # which instance? relay returns the bound attribute; find by identity of __self__
                    inst = rel.relay("app_list").__self__
            else:
                inst = rel.relay("app_list", priority=[P(p) for p in arg]).__self__
            who, exc = inst._proto, None
        except Exception as ex:  # noqa
            who, exc = None, type(ex).__name__
        out.append({"kind": "relay", "prios": prios, "take": take, "arg": arg, "regd": regd, "bits": bits,
                    "who": who, "exc": exc})
    return out


IFLIST = [n for n, _, _ in IFACES]


async def connect_via_pyatv(order, log):
    """The REAL pyatv.connect() with pyatv.PROTOCOLS replaced by fake protocol-method objects (no network):
    every fake setup() keeps the Core it is given and yields recording stubs that implement every member of
    every relayed interface.  Returns (device object, {protocol name: Core}, restore())."""
    import pyatv
    from pyatv import conf
    from pyatv.core import SetupData
    from pyatv.support import http as http_mod
    cores = {}

    class SM:
        session = None

        async def close(self):
            return None

    async def create_session(session=None):
        return SM()

    def mk_setup(p):
        def setup(core):
            cores[p] = core

            async def _connect():
                return True
            ifs = {iface_cls(i): make_stub(i, p, [m for m, _ in public_members(iface_cls(i))], log) for i in RELAYED}
            yield SetupData(P(p), _connect, lambda: set(), lambda: {}, ifs, set())
        return setup

    class PM:
        def __init__(self, setup):
            self.setup = setup

    saved = dict(pyatv.PROTOCOLS)
    saved_cs = http_mod.create_session
    pyatv.PROTOCOLS.clear()
    for p in order:
        pyatv.PROTOCOLS[P(p)] = PM(mk_setup(p))
    http_mod.create_session = create_session

    def restore():
        pyatv.PROTOCOLS.clear()
        pyatv.PROTOCOLS.update(saved)
        http_mod.create_session = saved_cs
    try:
        cfg = conf.AppleTV(IPv4Address("127.0.0.1"), "verif")
        for p in order:
            cfg.add_service(conf.ManualService("id-" + p, P(p), 1000 + len(p), {}))
        atv = await pyatv.connect(cfg, asyncio.get_event_loop())
    except BaseException:
        restore()
        raise
    return atv, cores, restore


async def drive_history(ops, via_connect=None):
    """ops: list of ("T", proto, [iface name | None ...]) / ("R", k).  Runs them on a real FacadeAppleTV in
    which every protocol registers every relayed interface implementing everything; after every op every
    interface is probed with one call.  Returns per-op results, per-op holder lists and per-op probe results.
    via_connect = list of protocols: the device object is built by the real pyatv.connect() from fake
    protocols (in that order) and every takeover is made through the core.takeover callable that
    connect() handed to THAT protocol (ops of protocols outside the list must not occur)."""
    from pyatv import exceptions
    log = []
    restore = None
    if via_connect is None:
        tab = {p: {i: {"style": "sub", "ov": [m for m, _ in public_members(iface_cls(i))]} for i in RELAYED} for p in PROTOS}
        atv, stubs = await facade_for(tab, PROTOS, log, {}, {})
    else:
        atv, cores, restore = await connect_via_pyatv(via_connect, log)
    try:
        return await _drive_history(ops, atv, log, None if via_connect is None else cores)
    finally:
        if restore:
            restore()


async def _drive_history(ops, atv, log, cores):
    from pyatv import exceptions
    toks = []
    res, states, probes = [], [], []

    class Unknown:  # a key that is not in FacadeAppleTV._interfaces
        pass
    probe_member = {i: public_members(iface_cls(i))[0] for i in RELAYED}

    async def probe():
        pr = {}
        for i in RELAYED:
            m, kind = probe_member[i]
            del log[:]
            exc = await invoke(getattr(atv, IACC[i]), m, kind, iface_cls(i))
            pr[i] = [e[0] for e in log] if exc is None else exc
        return pr
    probes.append(await probe())       # before the first operation
    for o in ops:
        if o[0] == "T":
            keys = [iface_cls(i) if i else Unknown for i in o[2]]
            try:
                if cores is None:
                    toks.append(atv.takeover(P(o[1]), *keys))
                else:
                    toks.append(cores[o[1]].takeover(*keys))     # the callable connect() bound for this protocol
                res.append("RTaken")
            except exceptions.InvalidStateError:
                toks.append(None)
                res.append("RInvalidState")
            except Exception as ex:  # noqa  (an observation: judged as a refusal)
                toks.append(None)
                res.append("RRaised_" + type(ex).__name__)
        else:
            t = toks[o[1]] if o[1] < len(toks) else None
            if t:
                t()
            res.append("RReleased")
        states.append([holder_of(atv, i) for i in IFLIST])
        probes.append(await probe())
    return res, states, probes


def judge_history(ops, res, probes, connected=None):
    """The property text on a history: all-or-nothing takeover, single holder, release gives the interface
    back, the holder receives the calls.  Independent bookkeeping (no model code)."""
    holder = {i: None for i in IFLIST}
    toks = []
    used = set()
    connected = connected or PROTOS

    def default(i):
        return [p for p in text_order(i) if p in connected][0]
    if any(probes[0][i] != [default(i)] for i in RELAYED):
        return None        # routing without any takeover is already wrong: reported by the routing cases
    probes = probes[1:]
    for n, o in enumerate(ops):
        if o[0] == "T":
            known = [i for i in o[2] if i]
            free = all(holder[i] is None for i in known) and len(set(known)) == len(known)
            if free:
                for i in known:
                    holder[i] = o[1]
                toks.append((o[1], known))
                if res[n] != "RTaken":
                    return ("C01:takeover:refused-although-free", n)
            else:
                toks.append(None)
                if res[n] == "RTaken":
                    return ("C01:takeover:second-holder-accepted", n)
        else:
            k = o[1]
            if k < len(toks) and toks[k] and k not in used:
                for i in toks[k][1]:
                    holder[i] = None
            elif k < len(toks) and toks[k] and k in used:
                return None    # double release of a token: outside the property (side condition)
            used.add(k)
        for i in RELAYED:
            exp = holder[i] or default(i)
            if probes[n][i] != [exp]:
                if o[0] == "T" and res[n] == "RInvalidState":
                    return ("C01:takeover:no-rollback", n)
                return ("C01:takeover:wrong-holder", n)
    return None


def random_history(rng, maxlen, protos=PROTOS):
    ops = []
    ntok = 0
    released = []
    for _ in range(rng.randint(1, maxlen)):
        if ntok and rng.random() < 0.4:
            cand = [k for k in range(ntok) if k not in released]
            if cand and rng.random() < 0.9:
                k = rng.choice(cand)
            else:
                k = rng.randrange(ntok)       # possibly a double release
            released.append(k)
            ops.append(("R", k))
        else:
            n = rng.choice([1, 1, 2, 2, 3, 4])
            pool = rng.sample(IFLIST, min(len(IFLIST), 4))
            ifs = [rng.choice(pool) for _ in range(n)] if rng.random() < 0.3 else rng.sample(pool, min(n, len(pool)))
            ifs = [None if rng.random() < 0.08 else i for i in ifs]
            ops.append(("T", rng.choice(protos), ifs))
            ntok += 1
    return ops


def coq_op(o):
    if o[0] == "T":
        return "OTake %s [%s]" % (o[1], "; ".join("Some " + ICOQ[i] if i else "None" for i in o[2]))
    return "ORelease %d" % o[1]


def coq_history(ops, res, final):
    res = [r if not r.startswith("RRaised_") else "RInvalidState" for r in res]   # the model knows one kind of refusal
    return "([%s], [%s], [%s])" % ("; ".join(coq_op(o) for o in ops), "; ".join(res),
                                   "; ".join(coq_protos(x) for x in final))


def history_double_release(ops):
    seen = set()
    for o in ops:
        if o[0] == "R":
            if o[1] in seen:
                return True
            seen.add(o[1])
    return False


# ----------------------------------------------------------------------- run

def run_cases_in_coq(ctx, name, header, typ, check, cases, decode, per=1200):
    """cases: list of Coq terms.  Returns list of indices the model disagrees on."""
    items = []
    for i in range(0, len(cases), per):
        txt = (header + "Definition cases : list (%s) := [\n%s\n].\n"
               "Eval vm_compute in (bad_indices (%s) cases).\n" % (typ, ";\n".join(cases[i:i + per]), check))
        items.append(("%s_%03d" % (name, i // per), txt))
    res = common.coq_run_many(items, ctx.pid)
    bad_all = []
    for nm, (rc, out) in sorted(res.items()):
        bad = common.parse_eval_nat_list(out) if rc == 0 else None
        if bad is None:
            ctx.tie_broken("correspondence:" + nm, out)
        else:
            base = int(nm.rsplit("_", 1)[1]) * per
            for b in bad:
                bad_all.append(base + b)
    for b in bad_all[:5]:
        ctx.tie_broken("correspondence:" + name, json.dumps(decode(b), default=repr))
    return bad_all


HEADER = ("From Coq Require Import List String. Import ListNotations.\n"
          "From PV Require Import Common.Cases C01.Model C01.Gen.\n")


def route_replay(tab, order, o, feat_sets, feat_states, conn=None):
    return {"kind": "route", "connected_in_order": order, "connect_results": conn, "arguments": o.get("kwargs") or {},
            "interface": o["iface"], "member": o["member"],
            "takeover_holder": o["holder"], "executed_by": o["called"], "exception": o["exc"],
            "play_url_gate": o["gate"],
            "table": {p: {o["iface"]: tab[p][o["iface"]]} for p in order if o["iface"] in tab[p]},
            "feature_sets": {p: feat_sets.get(p) for p in order}, "feature_states": {p: feat_states.get(p) for p in order}}


def run(ctx):
    quiet()
    try:
        t = gen(ctx)
    except Exception as ex:  # noqa  fail closed
        import traceback
        ctx.tie_broken("translator", traceback.format_exc())
        t = fallback_tables()      # keep searching for a failing input of the property
    ctx.note("translator done %.1fs" % (time.time() - ctx.t0))
    ok = ctx.build_property()
    ctx.note("build done %.1fs" % (time.time() - ctx.t0))
    if ctx.thorough:
        ctx.coqchk()
    rng = ctx.rng
    rows = t["rows"]
    members = t["members"]
    ctx.rule = ("(a) real FacadeAppleTV with recording stubs: override tables = the real one + random ones (densities "
                "0.1..0.9, some interfaces unregistered, a few falsy / non-subclass instances), all 31 subsets of "
                "protocols (connect order shuffled; plus SetupData whose connect() returns False: protocols outside the "
                "subset, a failing first SetupData of a protocol, duplicates), every public member - called with every value "
                "of its enum/bool arguments - of the 9 interfaces + push updater, takeover "
                "holder none + each protocol (quick tier: two random ones for the random tables), random feature sets/states for the play_url gate; (b) bare Relayer "
                "objects with arbitrary priority lists and explicit priority argument; (c) takeover/release histories "
                "on the real FacadeAppleTV incl. failing takeovers, unknown keys, duplicate keys, double releases; "
                "(d) the real pyatv.connect() with PROTOCOLS replaced by fakes that keep their Core, all 31 subsets: every "
                "protocol takes over through ITS OWN core.takeover (the partial bound in connect()), a second one fails and "
                "must roll back, release; plus random histories; (e) the real AirPlayStream.play_url / RaopStream.stream_file "
                "on a real FacadeAppleTV with each collaborator named in their source failing: no takeover may be left; "
                "(f) per device profile and set of configured services, assembled as pyatv.connect does with the real objects: "
                "stream_file kept in flight (http_connect never returns), every member of the taken-over interfaces that the "
                "streaming protocol implements must be executed by it; (g) HISTORIES (all of length <= 3; thorough: 4) of streaming "
                "operations on one such device object - stream_file completes / fails after its takeover / is in flight / "
                "cancelled, the same for play_url, another protocol takes/releases through its core - judged after every step: "
                "the holder of every interface is exactly the protocol of an accepted operation still in flight (or live "
                "token), and probe calls go to the holder, then by priority. "
                "non-trivial = some instance executed the call / some takeover succeeded; distinct by canonical case")
    # ---------------------------------------------------------------- corpus first
    for fname, d in common.load_corpus(ctx.pid):
        r = d.get("replay", d)
        bad = vloop.run(replay_one, r, rows, False)
        ctx.count("corpus")
        ctx.case(("corpus", fname), nontrivial=True)
        if bad:
            ctx.violation(bad[0], bad[1], r)
    # ---------------------------------------------------------------- (a) facade routing
    ntab = 3 if not ctx.thorough else 24
    tables = [("real", real_table(t))] + [("rand%d" % i, random_table(rng, members, [0.1, 0.3, 0.5, 0.7, 0.9]))
                                          for i in range(ntab)]
    fcases, fmeta = [], []
    seen = set()
    for tname, tab in tables:
        for S in subsets():
            order = list(S)
            rng.shuffle(order)
            conn = [True] * len(order)
            # SetupData whose connect() returns False: protocols outside S (they must not take part), and
            # sometimes a first, failing SetupData of a protocol of S before the one that connects / a second
            # SetupData of an already set-up protocol (ignored)
            for q in PROTOS:
                if q not in S and rng.random() < 0.3:
                    k = rng.randint(0, len(order))
                    order.insert(k, q)
                    conn.insert(k, False)
            if rng.random() < 0.2:
                q = rng.choice(S)
                k = order.index(q)
                if rng.random() < 0.5:
                    order.insert(k, q)
                    conn.insert(k, False)
                else:
                    order.append(q)
                    conn.append(rng.random() < 0.5)
            ctx.count("setupdata-not-connecting", conn.count(False))
            feat_sets, feat_states = {}, {}
            for p in dict.fromkeys(order):
                if rng.random() < 0.85:
                    feat_sets[p] = [f["name"] for f in t["features"] if rng.random() < 0.5]
                    if rng.random() < 0.6:
                        feat_sets[p].append("PlayUrl")
                    feat_states[p] = {f: rng.choice(FSTATES) if rng.random() < 0.4 else "Available" for f in set(feat_sets[p])}
            holders = [None] + (PROTOS if (ctx.thorough or tname == "real") else rng.sample(PROTOS, 2))
            obs = vloop.run(drive_routes, tab, order, rows, feat_sets, feat_states, holders, None, conn)
            for o in obs:
                ctx.traces += 1
                row = rows[o["row"]]
                impl = {p: (b[0] and b[1] and b[2]) for p, b in o["bits"].items()}
                if o.get("takeover_exception"):
                    ctx.violation("C01:takeover:refused-although-free",
                                  "takeover of the free interface %s by %s raised %s" % (o["iface"], o["holder"], o["takeover_exception"]),
                                  route_replay(tab, order, o, feat_sets, feat_states, conn))
                elif o["wrong"]:
                    ctx.violation("C01:route:other-member-executed", "call of %s.%s executed %s" % (o["iface"], o["member"], o["wrong"]),
                                  route_replay(tab, order, o, feat_sets, feat_states, conn))
                elif o["conforming"]:
                    v = judge_route(row, o["holder"], impl, o["gate"], o["regd"], o["called"], o["exc"])
                    if v:
                        ctx.violation(v[0], "%s.%s(%s) with SetupData added %s (connect() returned %s), takeover by %s: %s" % (
                            o["iface"], o["member"], o["kwargs"], order, conn, o["holder"], v[1]), route_replay(tab, order, o, feat_sets, feat_states, conn))
                cr = coq_callres(o["called"], o["exc"])
                canon = (o["row"], tuple(o["take"]), o["gate"] if row["kind"] == "KGated" else None,
                         tuple(o["added"]), cr)
                ctx.case(canon, nontrivial=bool(o["called"]),
                         sample={"table": tname, "added": order, "connect_results": conn, "arguments": o["kwargs"],
                                 "member": o["iface"] + "." + o["member"],
                                 "holder": o["holder"], "executed_by": o["called"], "exception": o["exc"]})
                ctx.count("table:" + tname)
                ctx.count("result:" + ("called" if o["called"] else str(o["exc"])))
                if cr is None:
                    ctx.tie_broken("correspondence:facade-unexpected-observation", json.dumps(route_replay(tab, order, o, feat_sets, feat_states, conn), default=repr))
                    continue
                if canon in seen:
                    continue
                seen.add(canon)
                if o["kwargs"]:
                    ctx.count("calls-with-non-default-arguments")
                fcases.append("(%d, %s, %s, %s, %s)" % (o["row"], coq_protos(o["take"]), common.cbool(o["gate"]),
                                                   coq_added(o["added"]), cr))
                fmeta.append(route_replay(tab, order, o, feat_sets, feat_states, conn))
    ctx.count("facade-cases-distinct", len(fcases))
    ctx.note("facade driven %.1fs" % (time.time() - ctx.t0))
    if not t.get("fallback"):
        run_cases_in_coq(ctx, "facade", HEADER, "nat * list proto * bool * list (proto * bool * option inst) * callres",
                         "check_facade rows relayer_prio", fcases, lambda b: fmeta[b])
    ctx.note("facade compared %.1fs" % (time.time() - ctx.t0))
    # ---------------------------------------------------------------- (b) bare relayer
    rc = relayer_cases(rng, 1500 if not ctx.thorough else 20000)
    rcases, rmeta = [], []
    mcases, gcases = [], []
    for c in rc:
        ctx.traces += 1
        if c["kind"] == "main":
            mcases.append("(%s, %s, %s, %s)" % (coq_protos(c["prios"]), coq_protos(c["take"]), coq_protos(c["regd"]),
                                             common.copt(c["main"])))
            ctx.count("relayer:main_protocol")
            continue
        if c["kind"] == "register":
            gcases.append("(%s, %s, %s, %s)" % (coq_protos(c["prios"]), coq_protos(c["before"]), c["proto"],
                                             "None" if c["after"] is None else "Some " + coq_protos(c["after"])))
            ctx.count("relayer:register")
            continue
        if c["kind"] == "second-takeover-accepted":
            ctx.violation("C01:takeover:second-holder-accepted", "Relayer.takeover succeeded although another protocol holds the takeover", c)
            continue
        if c["kind"] != "relay":
            ctx.tie_broken("correspondence:relayer-" + c["kind"], json.dumps(c, default=repr))
            continue
        oc = coq_outcome(c["who"], c["exc"])
        ctx.case(("relayer", tuple(c["prios"]), tuple(c["take"]), tuple(c["arg"]) if c["arg"] is not None else None,
                  tuple(sorted(c["bits"].items())), oc), nontrivial=c["who"] is not None)
        ctx.count("relayer:" + ("routed" if c["who"] else str(c["exc"])))
        if oc is None:
            ctx.tie_broken("correspondence:relayer-unexpected-observation", json.dumps(c, default=repr))
            continue
        rcases.append("(%s, %s, %s, %s, %s)" % (coq_protos(c["prios"]), coq_protos(c["take"]),
                                             "None" if c["arg"] is None else "Some " + coq_protos(c["arg"]),
                                             coq_reg(c["bits"], c["regd"]), oc))
        rmeta.append(c)
        # the property text on conforming registrations with a complete duplicate-free priority list
        if sorted(c["prios"]) == sorted(PROTOS) and not c["arg"] and all(b == (True, True, b[2]) for b in c["bits"].values()):
            exp = None
            for p in c["take"] + c["prios"]:
                if p in c["bits"] and c["bits"][p][2]:
                    exp = p
                    break
            if exp != c["who"] or (exp is None and c["exc"] != "NotSupportedError"):
                ctx.violation("C01:relayer:wrong-instance", "Relayer.relay returned %s (%s), expected %s" % (c["who"], c["exc"], exp), c)
    run_cases_in_coq(ctx, "relayer", HEADER, "list proto * list proto * option (list proto) * list (proto * inst) * outcome",
                     "check_relay", rcases, lambda b: rmeta[b])
    mcases = list(dict.fromkeys(mcases))
    gcases = list(dict.fromkeys(gcases))
    run_cases_in_coq(ctx, "main", HEADER, "list proto * list proto * list proto * option proto", "check_main", mcases,
                     lambda b: {"case": mcases[b]})
    run_cases_in_coq(ctx, "register", HEADER, "list proto * list proto * proto * option (list proto)", "check_register",
                     gcases, lambda b: {"case": gcases[b]})
    ctx.note("relayer done %.1fs" % (time.time() - ctx.t0))
    # ---------------------------------------------------------------- (c) histories
    hists = [random_history(rng, 8) for _ in range(250 if not ctx.thorough else 1500)]
    if ctx.thorough:
        hists += exhaustive_histories(4)
        ctx.extra["exhaustive_histories"] = "all histories of <= 4 ops over takeovers by {Companion, RAOP} of [A], [B], [A,B], [B,A] (A=Audio, B=Metadata) and releases of existing tokens"
    hcases, hmeta = [], []
    hseen = set()
    hists.sort(key=len)          # the first witness of a kind is a short one
    for ops in hists:
        res, states, probes = vloop.run(drive_history, ops)
        ctx.traces += 1
        v = judge_history(ops, res, probes)
        if v:
            ctx.violation(v[0], "history %s: %s at op %d" % (ops, v[0], v[1]),
                          {"kind": "history", "ops": ops, "results": res, "holders_after_each_op": states, "probes": probes})
        ctx.count("history-len%d" % len(ops))
        ctx.count("history:" + ("double-release" if history_double_release(ops) else "well-formed"))
        for n in range(len(ops)):
            key = json.dumps(ops[:n + 1])
            if key in hseen:
                continue
            hseen.add(key)
            ctx.case(("history", key), nontrivial="RTaken" in res[:n + 1])
            hcases.append(coq_history(ops[:n + 1], res[:n + 1], states[n]))
            hmeta.append({"ops": ops[:n + 1], "results": res[:n + 1], "holders": states[n]})
    # ---------------------------------------------------------------- (d) the same through the real pyatv.connect()
    # every takeover is made through the core.takeover callable that connect() bound for THAT protocol
    STREAM = ["Audio", "Metadata", "PushUpdater", "RemoteControl"]       # what RAOP takes over while streaming
    for S in subsets():
        order = list(S)
        rng.shuffle(order)
        ops = []
        for p in order:
            k = sum(1 for o in ops if o[0] == "T")
            q = rng.choice(order)
            ops += [("T", p, list(STREAM)), ("T", q, ["Stream", "RemoteControl"]), ("R", k)]
        hl = [ops] + [random_history(rng, 6, order) for _ in range(1 if not ctx.thorough else 6)]
        for ops in hl:
            res, states, probes = vloop.run(drive_history, ops, order)
            ctx.traces += 1
            v = judge_history(ops, res, probes, order)
            if v:
                ctx.violation(v[0].replace("C01:takeover:", "C01:connect-takeover:"),
                              "pyatv.connect with %s; takeovers through each protocol's own core.takeover: %s: %s at op %d" % (order, ops, v[0], v[1]),
                              {"kind": "history", "via_connect": order, "ops": ops, "results": res,
                               "holders_after_each_op": states, "probes": probes})
            ctx.count("connect-history")
            for n in range(len(ops)):
                key = json.dumps([order, ops[:n + 1]])
                if key in hseen:
                    continue
                hseen.add(key)
                ctx.case(("connect-history", key), nontrivial="RTaken" in res[:n + 1])
                hcases.append(coq_history(ops[:n + 1], res[:n + 1], states[n]))
                hmeta.append({"via_connect": order, "ops": ops[:n + 1], "results": res[:n + 1], "holders": states[n]})
    run_cases_in_coq(ctx, "history", HEADER, "list op * list opres * list (list proto)", "check_history", hcases,
                     lambda b: hmeta[b], per=600)
    # ---------------------------------------------------------------- (e) failing streaming entry points give the takeover back
    os.makedirs(common.BUILD, exist_ok=True)
    localfile = os.path.join(common.BUILD, "c01_local_file.bin")
    with open(localfile, "wb") as f:
        f.write(b"\0" * 16)
    try:
        efc = entry_fault_cases()
    except Exception:  # noqa
        efc = []
        ctx.tie_broken("entry-points", "streaming entry points of AirPlayStream / RaopStream not found")
    for proto, entry, tgt, mode in efc:
        try:
            r = vloop.run(drive_entry_fault, proto, entry, tgt, mode, localfile)
        except Exception as ex:  # noqa
            ctx.count("entry-fault:harness-error")
            continue
        ctx.traces += 1
        ctx.case(("entry-fault", proto, entry, tuple(tgt), mode), nontrivial=r["exception"] is not None)
        ctx.count("entry-fault:" + str(r["exception"]))
        v = judge_entry_fault(r)
        if v:
            ctx.violation(v[0], "%s.%s with %s failing (%s): %s" % (proto, entry, ".".join(tgt), mode, v[1]),
                          {"kind": "entry-fault", "protocol": proto, "entry": entry, "collaborator": tgt, "mode": mode, "observed": r})
    # ---------------------------------------------------------------- (f) stream_file in flight: the streaming protocol is asked first
    import c13
    nfl = 0
    for pidx, prof in enumerate(c13.PROFILES):
        sets = sorted([S for S in subsets() if "AirPlay" in S or "RAOP" in S], key=len)
        if not ctx.thorough:
            must = [["AirPlay"], ["RAOP"], ["AirPlay", "RAOP"], ["MRP", "AirPlay"], list(PROTOS)]
            sets = must + rng.sample([S for S in sets if S not in must], 3)
        for S in sets:
            try:
                r = vloop.run(drive_inflight, pidx, S)
            except Exception:  # noqa
                ctx.count("inflight:harness-error")
                continue
            ctx.traces += 1
            ctx.count("inflight:" + ("in-flight" if r.get("in_flight") else ("setup-exception" if r.get("setup_exception") else "not-started")))
            ctx.case(("inflight", prof[0], tuple(S)), nontrivial=bool(r.get("in_flight")),
                     sample={"kind": "inflight", "profile": r["profile"], "services": r["services"], "added": r["added"],
                             "takeovers_requested": r.get("takeovers_requested"), "calls": r["calls"][:4]} if r.get("in_flight") and nfl < 2 else None)
            nfl += 1 if r.get("in_flight") else 0
            for key, what, call in judge_inflight(r):
                ctx.violation(key, what, {"kind": "inflight", "profile": r["profile"], "services": r["services"], "added": r["added"],
                                          "member": call["member"], "executed_by": call["executed_by"],
                                          "takeovers_requested": r["takeovers_requested"], "holders_recorded": r["holders_recorded"]})
    # ---------------------------------------------------------------- (g) histories of streaming operations on ONE device object
    names = [p_[0] for p_ in c13.PROFILES]
    hprofiles = ["atv4k_tvos15_hap_tunnel_disabled", "atv3_legacy", "homepod_mini_hap"] if not ctx.thorough else names
    variants = [("open_source", "http_connect")] if not ctx.thorough else \
        [("open_source", "http_connect"), ("setup", "RtspSession"), ("extract_credentials", "AirPlayPlayer")]
    hs3 = stream_histories(3)
    hs3 = [h for h in hs3 if len(h) == 3] + [h for h in hs3 if len(h) < 3]
    plan = [(pn, v, h) for pn in hprofiles for v in variants for h in hs3]
    if ctx.thorough:
        plan += [(hprofiles[2], variants[0], h) for h in stream_histories(4) if len(h) == 4]
    plan.sort(key=lambda x: len(x[2]))
    for pn, (sfv, puv), ops in plan:
        try:
            r = vloop.run(drive_stream_history, names.index(pn), ["MRP", "AirPlay", "RAOP"], ops, sfv, puv)
        except Exception:  # noqa
            ctx.count("stream-history:harness-error")
            continue
        ctx.traces += 1
        if r.get("setup_exception"):
            ctx.count("stream-history:setup-exception")
            ctx.tie_broken("driver:stream-history", json.dumps({"profile": pn, "ops": ops, "exception": r["setup_exception"]}))
            continue
        ctx.count("stream-history-len%d" % len(ops))
        ctx.case(("stream-history", pn, sfv, puv, tuple(ops)), nontrivial=any(st["holders"] for st in r["steps"]),
                 sample={"kind": "stream-history", "profile": pn, "ops": ops, "steps": r["steps"]} if ops == ["SF_ok", "PU_start", "SF_start"] else None)
        v = judge_stream_history(r)
        if v:
            ctx.violation(v[0], "device profile %s, services %s, operations %s (stream_file fault at %s, play_url fault at %s): %s" % (
                pn, r["services"], ops, sfv, puv, v[1]),
                {"kind": "stream-history", "profile": pn, "services": r["services"], "ops": ops, "sf_fault": sfv, "pu_fault": puv,
                 "failing_step": v[2], "steps": r["steps"][:v[2] + 1]})
    ctx.extra["entry_fault_points"] = [[a, b, ".".join(c)] for a, b, c, d in efc if d == "call"]
    ctx.note("histories done %.1fs" % (time.time() - ctx.t0))
    ctx.extra["gen_tables"] = {"default_ast": t["default_ast"], "power_ast": t["power_ast"], "rows": len(rows),
                               "real_override_table": t["real"]}
    ctx.trusted += [
        "hand-written model coq/C01/Model.v of pyatv/core/relayer.py and the routing part of pyatv/core/facade.py, tied by the differential run of this file evaluated in Coq by vm_compute",
        "translator harness/c01.py gen(): priority lists (ast + run time), public members, facade table observed by instrumenting relay() on the real facade objects, override table of the real protocol classes from the five real setup() generators run offline",
        "recording stub classes (type() subclasses of the base interfaces) and the oracle of harness/c01.py; harness/vloop.py",
    ]
    ctx.assumptions += [
        "a takeover token is called at most once (double release is excluded by an explicit side condition; the model covers it and is compared on it)",
        "FacadeStream.play_url is refused with NotSupportedError while the features interface does not report PlayUrl as Available (feature gate, modelled); push_updater.start/stop reach every registered instance (modelled broadcast)",
        "argument-value guards of FacadeAudio.volume/set_volume belong to C20; members are called with in-range arguments",
    ]


def fallback_tables():
    """Used only when the translator refuses the source: the member list of the base interfaces with
    the kinds the property text expects, so that the oracle can still look for a failing input."""
    from pyatv.const import FeatureName
    t = {"members": {i: public_members(iface_cls(i)) for i in RELAYED}, "rows": [], "real": {p: {} for p in PROTOS},
         "features": [{"name": f.name} for f in FeatureName], "fallback": True,
         "default_ast": None, "power_ast": None}
    for i in RELAYED:
        for m, kind in t["members"][i]:
            k = "KGated" if (i, m) == ("Stream", "play_url") else \
                "KBroadcast" if (i, m) in (("PushUpdater", "start"), ("PushUpdater", "stop")) else "KRelay"
            t["rows"].append({"iface": i, "member": m, "mkind": kind, "kind": k, "target": m, "arg": None})
    return t


# ----------------------------------------------------------------------- real streaming entry points

def entry_collaborators(fn):
    """Module-level callables the entry point calls, read from its source: ['name'] or ['module', 'attr']."""
    import re
    import types
    src = inspect.getsource(fn)
    g = fn.__globals__
    out = []
    for m in re.finditer(r"(?<![\w.])([A-Za-z_]\w*)(?:\.([A-Za-z_]\w*))?\(", src):
        a, b = m.group(1), m.group(2)
        if a in ("self", "super", "int", "str", "bool", "float", "isinstance", "len", "cast") or a not in g:
            continue
        obj = g[a]
        if isinstance(obj, types.ModuleType):
            tgt = getattr(obj, b, None) if b else None
            if callable(tgt) and obj.__name__.startswith("pyatv") and not (
                    inspect.isclass(tgt) and issubclass(tgt, BaseException)):
                out.append([a, b])
        elif callable(obj) and getattr(obj, "__module__", "").startswith("pyatv") and not (
                inspect.isclass(obj) and issubclass(obj, BaseException)) and b is None:
            out.append([a])
    res = []
    for x in out:
        if x not in res:
            res.append(x)
    return res


class Fault(Exception):
    pass


def faulty(mode):
    """mode 'call': raises when called; mode 'use': the call returns an object whose every method raises."""
    class Obj:
        def __getattr__(self, name):
            async def boom(*a, **k):
                raise Fault("verif fault in ." + name)
            return boom

    def f(*a, **k):
        if mode == "call":
            raise Fault("verif fault")
        return Obj()
    return f


async def drive_entry_fault(proto, entry, target, mode, localfile):
    """Real AirPlay and RAOP objects (their own core.takeover bound as pyatv.connect binds it) next to an MRP stub
    on a real FacadeAppleTV; the streaming entry point `entry` of `proto` is started with one collaborator
    failing.  Returns the takeover lists left behind and who executes remote_control.stop afterwards."""
    from functools import partial
    from pyatv import conf, interface
    from pyatv.core import CoreStateDispatcher, MutableService, create_core
    from pyatv.core.facade import FacadeAppleTV
    from pyatv.protocols import PROTOCOLS
    from pyatv.settings import Settings
    quiet()
    log = []
    cfg = conf.AppleTV(IPv4Address("127.0.0.1"), "verif")
    atv = FacadeAppleTV(cfg, None, CoreStateDispatcher(), Settings())
    cores = []
    streams = {}
    for p in ("AirPlay", "RAOP"):
        svc = MutableService("verif-id", P(p), 1234, {"features": "0x1"} if p == "AirPlay" else {})
        cfg.add_service(svc)
        core = await create_core(cfg, svc, takeover_method=partial(atv.takeover, P(p)))
        cores.append(core)
        for sd in PROTOCOLS[P(p)].setup(core):
            if sd.protocol.name != p:
                continue

            async def _connect():
                return True
            streams[p] = sd.interfaces.get(interface.Stream)
            atv.add_protocol(sd._replace(connect=_connect, close=lambda: set(), device_info=lambda: {}))
    atv.add_protocol(stub_setup("MRP", {"RemoteControl": make_stub("RemoteControl", "MRP", ["stop", "pause"], log)}))
    await atv.connect()
    st = streams[proto]
    g = getattr(type(st), entry).__globals__
    holder = g[target[0]] if len(target) == 2 else g
    name = target[-1]
    saved = getattr(holder, name) if len(target) == 2 else holder[name]
    try:
        if len(target) == 2:
            setattr(holder, name, faulty(mode))
        else:
            holder[name] = faulty(mode)
        arg = localfile if entry == "play_url" else "verif-no-such-file"
        try:
            await asyncio.wait_for(getattr(st, entry)(arg), 5)
            exc = None
        except BaseException as ex:  # noqa
            exc = type(ex).__name__
    finally:
        if len(target) == 2:
            setattr(holder, name, saved)
        else:
            holder[name] = saved
    left = {i: holder_of(atv, i) for i in IFLIST if holder_of(atv, i)}
    del log[:]
    e2 = await invoke(atv.remote_control, "stop", "async", iface_cls("RemoteControl"))
    res = {"exception": exc, "takeover_left": left, "stop_executed_by": [e[0] for e in log], "stop_exception": e2}
    for c in cores:
        try:
            await c.session_manager.close()
        except Exception:  # noqa
            pass
    return res


def entry_fault_cases():
    """[(protocol, entry point, collaborator, mode)] for the streaming entry points of the real Stream classes."""
    from pyatv.protocols.airplay import AirPlayStream
    from pyatv.protocols.raop import RaopStream
    out = []
    for proto, cls in (("AirPlay", AirPlayStream), ("RAOP", RaopStream)):
        for entry in ("play_url", "stream_file"):
            if entry in cls.__dict__:
                for tgt in entry_collaborators(cls.__dict__[entry]):
                    for mode in ("call", "use"):
                        out.append((proto, entry, tgt, mode))
    return out


def judge_entry_fault(r):
    if r["exception"] is None:
        return None
    if r["takeover_left"]:
        return ("C01:takeover:left-after-failed-operation", "takeover still held after the operation failed: %s" % r["takeover_left"])
    if r["stop_executed_by"] != ["MRP"]:
        return ("C01:route:wrong-protocol", "after the failed operation remote_control.stop was executed by %s (%s), expected MRP" % (
            r["stop_executed_by"], r["stop_exception"]))
    return None


async def drive_inflight(pidx, services):
    """The device object assembled the way pyatv.connect() does it under one device profile (one configuration
    with all `services`, every setup() given core.takeover = partial(atv.takeover, <its protocol>)), real objects.
    stream.stream_file is started and kept IN FLIGHT (its network collaborator http_connect never returns); while
    it is, every member of the interfaces it took over that the streaming protocol implements is called through
    the device object.  Returns who executed them."""
    import sys
    from functools import partial
    import c13
    from pyatv import conf, interface
    from pyatv.core import CoreStateDispatcher, MutableService, create_core
    from pyatv.core.facade import FacadeAppleTV
    from pyatv.protocols import PROTOCOLS
    from pyatv.settings import Settings, MrpTunnel
    quiet()
    prof = c13.PROFILES[pidx]
    svcs = c13.profile_services(prof)
    srcs = [p for p in c13.PYATV_ORDER if p in services]
    log, tklog, cores = [], [], []
    res = {"profile": prof[0], "services": srcs, "added": [], "calls": []}
    never = asyncio.Event()

    async def blocked(*a, **k):
        await never.wait()
    patched = []
    for mn in ("pyatv.protocols.raop", "pyatv.protocols.airplay", "pyatv.support.http"):
        mod = sys.modules.get(mn)
        if mod is not None and hasattr(mod, "http_connect"):
            patched.append((mod, mod.http_connect))
            mod.http_connect = blocked
    task = None
    try:
        cfg = conf.AppleTV(IPv4Address("127.0.0.1"), prof[0])
        for src in srcs:
            props, cred = svcs[src]
            cfg.add_service(MutableService("verif-id", P(src), 9, props, credentials=cred))
        settings = Settings()
        settings.protocols.airplay.mrp_tunnel = MrpTunnel(prof[7])
        disp = CoreStateDispatcher()
        atv = FacadeAppleTV(cfg, None, disp, settings)
        real_takeover = atv.takeover

        def rec_takeover(protocol, *ifs):
            tklog.append([protocol.name, [getattr(i, "__name__", str(i)) for i in ifs]])
            return real_takeover(protocol, *ifs)
        impl = {}
        for src in srcs:
            core = await create_core(cfg, cfg.get_service(P(src)), settings=settings, device_listener=atv,
                                     core_dispatcher=disp, takeover_method=partial(rec_takeover, P(src)))
            cores.append(core)
            for sd in PROTOCOLS[P(src)].setup(core):
                p = sd.protocol.name
                first = p not in [a.split(">")[1] for a in res["added"]]
                for k, inst in sd.interfaces.items():
                    if first and k.__name__ in RELAYED:
                        impl[(p, k.__name__)] = [m for m, _ in public_members(k) if overrides_mro(type(inst), k, m)]
                    if k is interface.Features:
                        pass
                    elif k is interface.Stream:
                        c13.swap_stream(inst, p, log)
                    else:
                        c13.swap_class(inst, k, p, k.__name__, log)
                atv.add_protocol(await c13.offline(sd))
                res["added"].append("%s>%s" % (src, p))
        await atv.connect()
        del log[:]
        task = asyncio.ensure_future(atv.stream.stream_file("verif-no-such-file"))
        for _ in range(200):
            await asyncio.sleep(0)
            if task.done() or (tklog and any(holder_of(atv, i) for i in IFLIST)):
                break
        streamer = [e[0] for e in log if e[1] == "Stream" and e[2] == "stream_file"]
        res["streamed_by"] = streamer
        res["takeovers_requested"] = list(tklog)
        res["holders_recorded"] = {i: holder_of(atv, i) for i in IFLIST if holder_of(atv, i)}
        res["in_flight"] = bool(streamer) and not task.done() and bool(res["holders_recorded"])
        if res["in_flight"]:
            sp = streamer[0]
            for i in (tklog[-1][1] if tklog else []):
                if i not in RELAYED:
                    continue
                base = iface_cls(i)
                kinds = dict(public_members(base))
                for m in impl.get((sp, i), []):
                    if (i, m) in (("PushUpdater", "start"), ("PushUpdater", "stop")):
                        continue          # broadcast to every instance by design
                    del log[:]
                    exc = await invoke(getattr(atv, IACC[i]), m, kinds[m], base)
                    res["calls"].append({"member": "%s.%s" % (i, m), "executed_by": [e[0] for e in log if e[1] == i], "exception": exc})
    except Exception as ex:  # noqa  an observation
        res["setup_exception"] = "%s: %s" % (type(ex).__name__, ex)
    finally:
        if task is not None and not task.done():
            task.cancel()
            try:
                await task
            except BaseException:  # noqa
                pass
        for mod, orig in patched:
            mod.http_connect = orig
        for c in cores:
            try:
                await c.session_manager.close()
            except Exception:  # noqa
                pass
    return res


async def assemble_bound(pidx, services, log, tklog):
    """Device object assembled as pyatv.connect() does under one device profile (see drive_inflight); real Stream
    objects, everything else records.  Every takeover request made through a core is appended to tklog."""
    from functools import partial
    import c13
    from pyatv import conf, interface
    from pyatv.core import CoreStateDispatcher, MutableService, create_core
    from pyatv.core.facade import FacadeAppleTV
    from pyatv.protocols import PROTOCOLS
    from pyatv.settings import Settings, MrpTunnel
    prof = c13.PROFILES[pidx]
    svcs = c13.profile_services(prof)
    srcs = [p for p in c13.PYATV_ORDER if p in services]
    cfg = conf.AppleTV(IPv4Address("127.0.0.1"), prof[0])
    for src in srcs:
        props, cred = svcs[src]
        cfg.add_service(MutableService("verif-id", P(src), 9, props, credentials=cred))
    settings = Settings()
    settings.protocols.airplay.mrp_tunnel = MrpTunnel(prof[7])
    disp = CoreStateDispatcher()
    atv = FacadeAppleTV(cfg, None, disp, settings)
    real_takeover = atv.takeover

    def rec_takeover(protocol, *ifs):
        ent = {"protocol": protocol.name, "ifaces": [getattr(i, "__name__", str(i)) for i in ifs], "accepted": False}
        tklog.append(ent)
        tok = real_takeover(protocol, *ifs)
        ent["accepted"] = True
        return tok
    d = {"atv": atv, "cores": [], "core_of": {}, "impl": {}, "added": [], "streams": {}, "profile": prof[0], "services": srcs}

    class SM:       # no HTTP session is needed by the protocols assembled here unless DMAP is among them
        session = None

        async def close(self):
            return None
    for src in srcs:
        core = await create_core(cfg, cfg.get_service(P(src)), settings=settings, device_listener=atv,
                                 session_manager=None if "DMAP" in srcs else SM(),
                                 core_dispatcher=disp, takeover_method=partial(rec_takeover, P(src)))
        d["cores"].append(core)
        d["core_of"][src] = core
        for sd in PROTOCOLS[P(src)].setup(core):
            p = sd.protocol.name
            first = p not in [a.split(">")[1] for a in d["added"]]
            for k, inst in sd.interfaces.items():
                if first and k.__name__ in RELAYED:
                    d["impl"][(p, k.__name__)] = [m for m, _ in public_members(k) if overrides_mro(type(inst), k, m)]
                if k is interface.Features:
                    pass
                elif k is interface.Stream:
                    if first:
                        d["streams"][p] = inst
                    c13.swap_stream(inst, p, log)
                else:
                    c13.swap_class(inst, k, p, k.__name__, log)
            atv.add_protocol(await c13.offline(sd))
            d["added"].append("%s>%s" % (src, p))
    await atv.connect()
    return d


SH_OPS = ["SF_ok", "SF_fail", "SF_start", "SF_cancel", "PU_ok", "PU_fail", "PU_start", "PU_cancel", "X_take", "X_release"]
SH_PROBES = [("RemoteControl", "stop"), ("Audio", "set_volume"), ("Metadata", "playing")]


async def drive_stream_history(pidx, services, ops, sf_fault="open_source", pu_fault="http_connect"):
    """A HISTORY of streaming operations on ONE device object (assembled as pyatv.connect does, real Stream code,
    takeovers through the cores):
      SF_ok / SF_fail   RAOP stream_file runs to completion (collaborators replaced by working fakes) / fails at
                        the collaborator `sf_fault` after its takeover
      SF_start / SF_cancel   stream_file is started and stays in flight (http_connect never returns) / is cancelled
      PU_ok / PU_fail / PU_start / PU_cancel   the same for AirPlay play_url
      X_take / X_release     another protocol (MRP) takes RemoteControl+Audio through its own core / releases
    After every step: recorded holder of every interface, and who executes three probe calls."""
    import sys
    import types
    quiet()
    log, tklog = [], []
    never = asyncio.Event()

    async def blocked(*a, **k):
        await never.wait()

    class Obj:
        """stands for a collaborator that works: every method is an async no-op"""
        info = {}

        def __init__(self, *a, **k):
            pass

        def __getattr__(self, name):
            if name.startswith("__"):
                raise AttributeError(name)

            async def ok(*a, **k):
                return None
            return ok

        def close(self):
            return None

        def stop(self):
            return None

    async def aobj(*a, **k):
        return Obj()

    async def boom(*a, **k):
        raise Fault("verif fault")
    import pyatv.protocols.raop  # noqa
    import pyatv.protocols.airplay  # noqa
    mods = {mn: sys.modules[mn] for mn in ("pyatv.protocols.raop", "pyatv.protocols.airplay")}
    saved = []

    def patch(holder, name, val):
        old = holder[name] if isinstance(holder, dict) else getattr(holder, name)
        saved.append((holder, name, old))
        if isinstance(holder, dict):
            holder[name] = val
        else:
            setattr(holder, name, val)

    def unpatch(n):
        while len(saved) > n:
            holder, name, old = saved.pop()
            if isinstance(holder, dict):
                holder[name] = old
            else:
                setattr(holder, name, old)
    steps = []
    tasks = {}
    xtok = [None]
    d = None
    try:
        for m in mods.values():
            if hasattr(m, "http_connect"):
                patch(m, "http_connect", blocked)
        base_patches = len(saved)
        d = await assemble_bound(pidx, services, log, tklog)
        atv = d["atv"]
        raop, airplay = d["streams"].get("RAOP"), d["streams"].get("AirPlay")

        async def settle(task, n0):
            for _ in range(200):
                await asyncio.sleep(0)
                if task.done() or (len(tklog) > n0 and tklog[-1]["accepted"]):
                    break

        for op in ops:
            n0 = len(tklog)
            obs = {"op": op, "result": None}
            try:
                if op in ("SF_ok", "SF_fail", "SF_start"):
                    if op != "SF_start":
                        async def fake_setup(service):
                            return Obj(), types.SimpleNamespace(sample_rate=44100, channels=2, bytes_per_channel=2, volume=-20.0)
                        patch(raop.playback_manager, "setup", fake_setup)
                        patch(mods["pyatv.protocols.raop"], "open_source", aobj)
                        if op == "SF_fail":
                            tgt = mods["pyatv.protocols.raop"] if sf_fault != "setup" else raop.playback_manager
                            patch(tgt, sf_fault, boom)
                    t = asyncio.ensure_future(atv.stream.stream_file("verif-no-such-file"))
                    if op == "SF_start":
                        await settle(t, n0)
                        if not t.done():
                            tasks["SF"] = t
                    else:
                        try:
                            await asyncio.wait_for(t, 5)
                        except BaseException:  # noqa
                            pass
                    if t.done():
                        obs["result"] = "done:" + (type(t.exception()).__name__ if not t.cancelled() and t.exception() else "ok")
                    else:
                        obs["result"] = "in-flight"
                elif op in ("PU_ok", "PU_fail", "PU_start"):
                    if op != "PU_start":
                        am = mods["pyatv.protocols.airplay"]
                        patch(am, "http_connect", aobj)
                        patch(am, "RtspSession", Obj)
                        patch(am, "AirPlayPlayer", Obj)
                        if op == "PU_fail":
                            patch(am, pu_fault, boom if pu_fault == "http_connect" else faulty("use"))
                    t = asyncio.ensure_future(atv.stream.play_url("http://127.0.0.1:9/x"))
                    if op == "PU_start":
                        await settle(t, n0)
                        if not t.done():
                            tasks["PU"] = t
                    else:
                        try:
                            await asyncio.wait_for(t, 5)
                        except BaseException:  # noqa
                            pass
                    if t.done():
                        obs["result"] = "done:" + (type(t.exception()).__name__ if not t.cancelled() and t.exception() else "ok")
                    else:
                        obs["result"] = "in-flight"
                elif op in ("SF_cancel", "PU_cancel"):
                    t = tasks.pop(op[:2], None)
                    if t is not None:
                        t.cancel()
                        try:
                            await t
                        except BaseException:  # noqa
                            pass
                        obs["result"] = "cancelled"
                    else:
                        obs["result"] = "nothing-in-flight"
                elif op == "X_take":
                    try:
                        xtok[0] = d["core_of"]["MRP"].takeover(iface_cls("RemoteControl"), iface_cls("Audio"))
                        obs["result"] = "taken"
                    except Exception as ex:  # noqa
                        obs["result"] = "raised:" + type(ex).__name__
                elif op == "X_release":
                    if xtok[0]:
                        xtok[0]()
                        xtok[0] = None
                        obs["result"] = "released"
                    else:
                        obs["result"] = "nothing-held"
            finally:
                unpatch(base_patches)
            obs["requests"] = [dict(e) for e in tklog[n0:]]
            obs["holders"] = {i: holder_of(atv, i) for i in IFLIST if holder_of(atv, i)}
            obs["probes"] = {}
            for (i, m) in SH_PROBES:
                base = iface_cls(i)
                del log[:]
                exc = await invoke(getattr(atv, IACC[i]), m, dict(public_members(base))[m], base)
                obs["probes"]["%s.%s" % (i, m)] = [e[0] for e in log if e[1] == i] if exc is None else exc
            steps.append(obs)
        return {"profile": d["profile"], "services": d["services"], "added": d["added"], "impl": {"%s.%s" % k: v for k, v in d["impl"].items()},
                "steps": steps}
    except Exception as ex:  # noqa  an observation
        return {"profile": c13_profile_name(pidx), "services": services, "added": d["added"] if d else [], "impl": {},
                "steps": steps, "setup_exception": "%s: %s" % (type(ex).__name__, ex)}
    finally:
        for t in tasks.values():
            t.cancel()
            try:
                await t
            except BaseException:  # noqa
                pass
        unpatch(0)
        if d:
            for c in d["cores"]:
                try:
                    await c.session_manager.close()
                except Exception:  # noqa
                    pass


def c13_profile_name(pidx):
    import c13
    return c13.PROFILES[pidx][0]


def judge_stream_history(r):
    """The property text on a history of operations: after every step the holder of every interface is exactly the
    protocol of an operation that is in flight and whose takeover was accepted (or of the other protocol's live
    token), and calls go to the holder, then by priority.  Independent bookkeeping.  Returns (key, what, step)."""
    if r.get("setup_exception"):
        return None
    live = {}          # name of the live hold -> (protocol, interfaces)
    for n, st in enumerate(r["steps"]):
        op = st["op"]
        held = {i: p for (p, ifs) in live.values() for i in ifs}
        reqs = st["requests"]
        if op in ("SF_ok", "SF_fail", "SF_start", "PU_ok", "PU_fail", "PU_start", "X_take"):
            name = op[:2] if op[0] != "X" else "X"
            for q in reqs:
                free = all(i not in held for i in q["ifaces"] if i in IFLIST) and len(set(q["ifaces"])) == len(q["ifaces"])
                if free and not q["accepted"]:
                    return ("C01:takeover:refused-although-free", "step %d (%s): takeover %s refused although every interface was free" % (n, op, q), n)
                if not free and q["accepted"]:
                    return ("C01:takeover:second-holder-accepted", "step %d (%s): takeover %s accepted although %s held" % (n, op, q, held), n)
            acc = [q for q in reqs if q["accepted"]]
            stays = (op in ("SF_start", "PU_start") and st["result"] == "in-flight") or (op == "X_take" and st["result"] == "taken")
            if stays and acc:
                live[name] = (acc[-1]["protocol"], acc[-1]["ifaces"])
        elif op in ("SF_cancel", "PU_cancel"):
            live.pop(op[:2], None)
        elif op == "X_release":
            live.pop("X", None)
        exp = {i: p for (p, ifs) in live.values() for i in ifs if i in IFLIST}
        rec = {i: v[0] for i, v in st["holders"].items()}
        for i in IFLIST:
            if exp.get(i) != rec.get(i):
                if exp.get(i) is None:
                    return ("C01:takeover:left-after-failed-operation",
                            "step %d (%s): %s is still held by %s although no operation holding it is in flight" % (n, op, i, rec.get(i)), n)
                return ("C01:connect-takeover:holder-lost",
                        "step %d (%s -> %s): %s must be held by %s (its operation is in flight / its token is live) but the facade records %s" % (
                            n, op, st["result"], i, exp.get(i), rec.get(i)), n)
        protos = list(dict.fromkeys(a.split(">")[1] for a in r["added"]))
        for pm, got in st["probes"].items():
            i, m = pm.split(".")
            order = ([exp[i]] if exp.get(i) else []) + [p for p in text_order(i) if p in protos]
            want = [p for p in order if m in r["impl"].get("%s.%s" % (p, i), [])][:1]
            if got != want:
                return ("C01:route:wrong-protocol", "step %d (%s): %s executed by %s, expected %s (holder %s)" % (n, op, pm, got, want, exp.get(i)), n)
    return None


def stream_histories(maxlen, ops=None):
    """All histories up to maxlen that do not cancel/release what was never started/taken."""
    ops = ops or SH_OPS
    out = []

    def rec(prefix, sf, pu, x):
        if prefix:
            out.append(list(prefix))
        if len(prefix) == maxlen:
            return
        for o in ops:
            if (o == "SF_cancel" and not sf) or (o == "PU_cancel" and not pu) or (o == "X_release" and not x):
                continue
            rec(prefix + [o], sf or o == "SF_start" if o != "SF_cancel" else False,
                pu or o == "PU_start" if o != "PU_cancel" else False,
                x or o == "X_take" if o != "X_release" else False)
    rec([], False, False, False)
    return [h for h in out if len(h) == maxlen or h[-1] in ("SF_start", "PU_start", "X_take") or True]


def judge_inflight(r):
    """C01's takeover clause on a stream in flight: the protocol that requested the takeover and executes the
    stream is asked before all others on the interfaces it took over.  Returns [(key, what, call)]."""
    out = []
    if not r.get("in_flight"):
        return out
    sp = r["streamed_by"][0]
    embedded = ("%s>%s" % (sp, sp)) not in r["added"]       # the streaming protocol was set up by another protocol's setup()
    for c in r["calls"]:
        if c["executed_by"] != [sp]:
            key = "C01:connect-takeover:embedded-raop-holds-as-airplay" if embedded else "C01:connect-takeover:wrong-holder"
            out.append((key, "device profile %s, services %s (SetupData %s): while %s's stream_file is in flight (takeover requested as %s, "
                             "holders recorded %s) %s is executed by %s (%s), expected %s" % (
                                 r["profile"], r["services"], r["added"], sp, r["takeovers_requested"], r["holders_recorded"],
                                 c["member"], c["executed_by"], c["exception"], sp), c))
    return out


def exhaustive_histories(depth):
    takes = [("T", p, ifs) for p in ("Companion", "RAOP")
             for ifs in (["Audio"], ["Metadata"], ["Audio", "Metadata"], ["Metadata", "Audio"])]
    out = []

    def rec(prefix, ntok):
        if prefix:
            out.append(list(prefix))
        if len(prefix) == depth:
            return
        for tk in takes:
            rec(prefix + [tk], ntok + 1)
        for k in range(ntok):
            rec(prefix + [("R", k)], ntok)
    rec([], 0)
    # only maximal histories need to be driven (prefixes are compared as well)
    return [h for h in out if len(h) == depth]


async def replay_one(r, rows, verbose=True):
    """Re-run one replay dict against the implementation; returns (key, what) if the property fails."""
    quiet()
    if r.get("kind") == "history":
        ops = [tuple(o) for o in r["ops"]]
        res, states, probes = await drive_history(ops, r.get("via_connect"))
        v = judge_history(ops, res, probes, r.get("via_connect"))
        if verbose:
            print("history %s -> results %s, holders %s" % (ops, res, states[-1] if states else None))
        if v and r.get("via_connect"):
            return (v[0].replace("C01:takeover:", "C01:connect-takeover:"),
                    "pyatv.connect with %s, takeovers through each protocol's own core.takeover: fails at op %d" % (r["via_connect"], v[1]))
        return (v[0], "history fails at op %d" % v[1]) if v else None
    if r.get("kind") == "route":
        order = r["connected_in_order"]
        tab = {p: dict(r["table"].get(p, {})) for p in PROTOS}
        kw = load_kwargs(getattr(iface_cls(r["interface"]), r["member"]), r.get("arguments")) \
            if not isinstance(getattr(iface_cls(r["interface"]), r["member"]), property) else {}
        obs = await drive_routes(tab, order, rows, r.get("feature_sets") or {}, r.get("feature_states") or {},
                                 [r["takeover_holder"]], only={(r["interface"], r["member"])},
                                 conn=r.get("connect_results"), variants=[kw])
        for o in obs:
            row = rows[o["row"]]
            impl = {p: (b[0] and b[1] and b[2]) for p, b in o["bits"].items()}
            if verbose:
                print("%s.%s(%s) added=%s connect()=%s holder=%s -> executed_by=%s exception=%s" % (
                    o["iface"], o["member"], o["kwargs"], order, r.get("connect_results"), o["holder"], o["called"], o["exc"]))
            if o.get("takeover_exception"):
                return ("C01:takeover:refused-although-free", "takeover raised %s" % o["takeover_exception"])
            if o["wrong"]:
                return ("C01:route:other-member-executed", str(o["wrong"]))
            v = judge_route(row, o["holder"], impl, o["gate"], o["regd"], o["called"], o["exc"])
            if v:
                return v
        return None
    if r.get("kind") == "stream-history":
        import c13
        names = [p_[0] for p_ in c13.PROFILES]
        o = await drive_stream_history(names.index(r["profile"]), r["services"], r["ops"], r.get("sf_fault", "open_source"), r.get("pu_fault", "http_connect"))
        if verbose:
            for st in o["steps"]:
                print("%s -> %s requests=%s holders=%s probes=%s" % (st["op"], st["result"], st["requests"], st["holders"], st["probes"]))
        v = judge_stream_history(o)
        return (v[0], v[1]) if v else None
    if r.get("kind") == "inflight":
        import c13
        names = [p[0] for p in c13.PROFILES]
        o = await drive_inflight(names.index(r["profile"]), r["services"])
        v = [x for x in judge_inflight(o) if not r.get("member") or x[2]["member"] == r["member"]]
        if verbose:
            print("profile=%s services=%s added=%s in_flight=%s takeovers_requested=%s holders=%s calls=%s" % (
                o["profile"], o["services"], o["added"], o.get("in_flight"), o.get("takeovers_requested"), o.get("holders_recorded"),
                [c for c in o["calls"] if not r.get("member") or c["member"] == r["member"]]))
        return (v[0][0], v[0][1]) if v else None
    if r.get("kind") == "entry-fault":
        localfile = os.path.join(common.BUILD, "c01_local_file.bin")
        with open(localfile, "wb") as f:
            f.write(b"\0" * 16)
        o = await drive_entry_fault(r["protocol"], r["entry"], r["collaborator"], r["mode"], localfile)
        if verbose:
            print("%s.%s with %s failing (%s) -> %s" % (r["protocol"], r["entry"], r["collaborator"], r["mode"], o))
        return judge_entry_fault(o)
    if r.get("kind") == "relay":
        from pyatv.core.relayer import Relayer
        rel = Relayer(iface_cls("Apps"), [P(p) for p in r["prios"]])
        log = []
        for p in r["regd"]:
            b = r["bits"][p]
            style = "falsy" if not b[0] else ("duck" if not b[1] else "sub")
            rel.register(make_stub("Apps", p, ["app_list"] if b[2] else [], log, style), P(p))
        for h in r["take"]:
            rel.takeover(P(h))
        try:
            who, exc = rel.relay("app_list", priority=[P(p) for p in r["arg"]] if r["arg"] else None).__self__._proto, None
        except Exception as ex:  # noqa
            who, exc = None, type(ex).__name__
        exp = None
        for p in r["take"] + (r["arg"] or r["prios"]):
            if p in r["bits"] and all(r["bits"][p]):
                exp = p
                break
        if verbose:
            print("Relayer(prios=%s) takeover=%s registered=%s -> %s %s (expected %s)" % (r["prios"], r["take"], r["bits"], who, exc, exp))
        conforming = all(b[0] and b[1] for b in r["bits"].values())
        if conforming and (exp != who or (exp is None and exc != "NotSupportedError")):
            return ("C01:relayer:wrong-instance", "Relayer.relay returned %s (%s), expected %s" % (who, exc, exp))
        return None
    return None


def replay(ctx, path):
    d = json.load(open(path))
    r = d.get("replay", d)
    if d.get("key") == "tie-broken":
        print("tie-broken replay: %s" % json.dumps(d.get("broken"))[:2000])
        return 1
    try:
        t = vloop.run(collect_rows_only)
    except Exception:  # noqa
        t = fallback_tables()["rows"]
    v = vloop.run(replay_one, r, t)
    print("property-errors=%s" % (list(v) if v else []))
    return 1 if v else 0


async def collect_rows_only():
    quiet()
    return await observe_rows()
