"""Python AST -> Common/Skeleton.cmd translator (fail closed).

A skeleton keeps calls (awaited calls may also be cancelled), tracked effects, control flow and
exception handling; everything else is dropped.  What counts as an effect is given by a
hand-written *spec* per function (printed into the evidence):

  spec = {
    "effects":  [(regex on unparsed call/assign-target, ("acquire"|"release"|"write", id, can_fail))],
                  - for a call: `can_fail` False means the call is a pure effect (cannot raise)
                  - for an assignment target: a write effect; value must not be the constant False/None
    "guards":   {variable-or-attribute source text: ("held"|"written", id)}   `if x:` tests
    "inline":   {call source text prefix: function object}                      callee bodies inlined
    "nofail":   [regex]  calls that cannot raise and have no effect (logging etc.) -> dropped
  }

Unsupported constructs raise Unsupported: the caller reports a broken tie.
"""
import ast
import inspect
import re
import textwrap


class Unsupported(Exception):
    pass


DEFAULT_NOFAIL = [
    r"^_LOGGER\.\w+\(", r"^logging\.", r"^str\(", r"^isinstance\(", r"^len\(", r"^cast\(", r"^partial\(",
    r"^int\(", r"^bool\(", r"^list\(", r"^dict\(", r"^set\(", r"^deepcopy\(", r"^CoreStateDispatcher\(",
]


def src(node):
    return ast.unparse(node)


class Translator:
    def __init__(self, spec, filename="?"):
        self.spec = spec
        self.filename = filename
        self.labels = []          # label index -> "file:line call text"
        self.nofail = [re.compile(r) for r in DEFAULT_NOFAIL + spec.get("nofail", [])]
        self.effects = [(re.compile(r), e) for r, e in spec.get("effects", [])]
        self.guards = spec.get("guards", {})
        self.inline = spec.get("inline", {})
        self.depth = 0

    # ---- helpers -----------------------------------------------------------------
    def seq(self, cmds):
        cmds = [c for c in cmds if c != ("Skip",)]
        if not cmds:
            return ("Skip",)
        out = cmds[-1]
        for c in reversed(cmds[:-1]):
            out = ("Seq", c, out)
        return out

    def label(self, node, awaited):
        self.labels.append("%s:%d %s%s" % (self.filename, getattr(node, "lineno", 0), "await " if awaited else "", src(node)[:70]))
        return len(self.labels) - 1

    def effect_of(self, text):
        for rx, e in self.effects:
            if rx.search(text):
                return e
        return None

    def eff_cmd(self, e):
        kind, ident = e[0], e[1]
        return ("Eff", {"acquire": "Acquire", "release": "Release", "write": "Write"}[kind], ident)

    # ---- expressions: collect the calls they make, in evaluation order ---------------
    def calls_in(self, node, awaited=False):
        """Return list of cmds for evaluating expression `node`."""
        if node is None:
            return []
        if isinstance(node, ast.Await):
            if not isinstance(node.value, ast.Call):
                # awaiting a future/task object: a suspension point that may raise or be cancelled
                return self.calls_in(node.value) + [("Call", True, self.label(node.value, True))]
            return self.calls_in(node.value, awaited=True)
        if isinstance(node, ast.Call):
            out = []
            # arguments first (function expression is evaluated before, but it is a name/attribute)
            if not isinstance(node.func, (ast.Name, ast.Attribute)):
                out += self.calls_in(node.func)
            for a in node.args:
                out += self.calls_in(a.value if isinstance(a, ast.Starred) else a)
            for k in node.keywords:
                out += self.calls_in(k.value)
            text = src(node)
            e = self.effect_of(text)
            for prefix, fn in self.inline.items():
                if text.startswith(prefix + "("):
                    out.append(("Scope", self.function(fn)))
                    if e:
                        out.append(self.eff_cmd(e))
                    return out
            if e is not None:
                can_fail = e[2] if len(e) > 2 else True
                if can_fail:
                    out.append(("Call", awaited, self.label(node, awaited)))
                out.append(self.eff_cmd(e))
                return out
            if any(rx.search(text) for rx in self.nofail):
                return out
            out.append(("Call", awaited, self.label(node, awaited)))
            return out
        if isinstance(node, (ast.Lambda, ast.Constant, ast.Name)):
            return []
        if isinstance(node, (ast.ListComp, ast.SetComp, ast.GeneratorExp, ast.DictComp)):
            inner = []
            for g in node.generators:
                inner += self.calls_in(g.iter)
                for c in g.ifs:
                    inner += self.calls_in(c)
            elts = [node.elt] if not isinstance(node, ast.DictComp) else [node.key, node.value]
            body = []
            for x in elts:
                body += self.calls_in(x)
            if body:
                inner.append(("Loop", self.seq(body)))
            return inner
        if isinstance(node, ast.IfExp):
            t = self.calls_in(node.test)
            a, b = self.calls_in(node.body), self.calls_in(node.orelse)
            if a or b:
                t.append(("Choice", self.seq(a), self.seq(b)))
            return t
        if isinstance(node, ast.BoolOp):
            out = self.calls_in(node.values[0])
            rest = []
            for v in node.values[1:]:
                rest += self.calls_in(v)
            if rest:
                out.append(("Choice", self.seq(rest), ("Skip",)))
            return out
        if isinstance(node, (ast.Yield, ast.YieldFrom, ast.NamedExpr)):
            raise Unsupported("expression %s at line %s" % (type(node).__name__, getattr(node, "lineno", "?")))
        out = []
        for ch in ast.iter_child_nodes(node):
            if isinstance(ch, ast.expr):
                out += self.calls_in(ch)
        return out

    # ---- statements --------------------------------------------------------------------
    def block(self, stmts):
        return self.seq([self.stmt(s) for s in stmts])

    def guard_of(self, test):
        neg = False
        t = test
        if isinstance(t, ast.UnaryOp) and isinstance(t.op, ast.Not):
            neg, t = True, t.operand
        if isinstance(t, ast.Compare) and len(t.ops) == 1 and isinstance(t.comparators[0], ast.Constant) and t.comparators[0].value is None:
            if isinstance(t.ops[0], ast.IsNot):
                t = t.left
            elif isinstance(t.ops[0], ast.Is):
                neg, t = (not neg), t.left
        key = src(t)
        if key in self.guards:
            return self.guards[key], neg
        return None, neg

    def stmt(self, s):
        if isinstance(s, (ast.Expr,)):
            if isinstance(s.value, ast.Constant):
                return ("Skip",)
            return self.seq(self.calls_in(s.value))
        if isinstance(s, (ast.Assign, ast.AnnAssign, ast.AugAssign)):
            value = s.value
            cmds = self.calls_in(value) if value is not None else []
            targets = s.targets if isinstance(s, ast.Assign) else [s.target]
            for t in targets:
                cmds += [c for sub in ast.walk(t) if isinstance(sub, ast.Call) for c in self.calls_in(sub)]
                e = self.effect_of(src(t) + " =")
                if e is not None:
                    if isinstance(value, ast.Constant) and value.value in (False, None):
                        continue   # resetting a flag is not the tracked write
                    cmds.append(self.eff_cmd(e))
            return self.seq(cmds)
        if isinstance(s, ast.Return):
            return self.seq(self.calls_in(s.value) + [("Return",)])
        if isinstance(s, ast.Raise):
            return self.seq(self.calls_in(s.exc) + [("Raise",)])
        if isinstance(s, ast.Pass):
            return ("Skip",)
        if isinstance(s, ast.Assert):
            return self.seq(self.calls_in(s.test) + [("Choice", ("Skip",), ("Raise",))])
        if isinstance(s, (ast.FunctionDef, ast.AsyncFunctionDef, ast.ClassDef, ast.Import, ast.ImportFrom, ast.Global, ast.Nonlocal)):
            return ("Skip",)
        if isinstance(s, ast.If):
            pre = self.calls_in(s.test)
            a, b = self.block(s.body), self.block(s.orelse)
            g, neg = self.guard_of(s.test)
            if g is not None:
                if neg:
                    a, b = b, a
                node = ("IfHeld" if g[0] == "held" else "IfWritten", g[1], a, b)
            else:
                node = ("Choice", a, b)
            return self.seq(pre + [node])
        if isinstance(s, (ast.For, ast.AsyncFor)):
            if s.orelse:
                raise Unsupported("for-else at line %d" % s.lineno)
            pre = self.calls_in(s.iter)
            body = self.loop_body(s.body, s.lineno)
            if isinstance(s, ast.AsyncFor):
                body = self.seq([("Call", True, self.label(s.iter, True)), body])
            return self.seq(pre + [("Loop", body)])
        if isinstance(s, ast.While):
            if s.orelse:
                raise Unsupported("while-else at line %d" % s.lineno)
            test = self.calls_in(s.test)
            return self.seq(test + [("Loop", self.seq([self.loop_body(s.body, s.lineno)] + test))])
        if isinstance(s, (ast.With, ast.AsyncWith)):
            aw = isinstance(s, ast.AsyncWith)
            pre = []
            for it in s.items:
                pre += self.calls_in(it.context_expr)
                if aw:
                    pre.append(("Call", True, self.label(it.context_expr, True)))     # __aenter__
            exit_cmd = ("Call", aw, self.label(s.items[0].context_expr, aw))           # __exit__/__aexit__
            return self.seq(pre + [("TryFinally", self.block(s.body), exit_cmd)])
        if isinstance(s, ast.Try):
            body = self.block(s.body)
            if s.orelse:
                raise Unsupported("try-else at line %d" % s.lineno)
            inner = body
            if s.handlers:
                alts = []
                catch_all = False
                for h in s.handlers:
                    names = self.handler_names(h)
                    cc = (not names) or any(n in ("BaseException", "CancelledError") for n in names)
                    catches_exn = (not names) or any(n in ("BaseException", "Exception") for n in names)
                    hbody = list(h.body)
                    rr = False
                    if hbody and isinstance(hbody[-1], ast.Raise) and hbody[-1].exc is None:
                        rr = True
                        hbody = hbody[:-1]
                    hcmd = self.block(hbody)
                    only_cancel = names and all(n == "CancelledError" for n in names)
                    alts.append((cc, catches_exn, only_cancel, hcmd, rr))
                    if catches_exn:
                        catch_all = True
                        break
                # each handler is an alternative way the exception may be dealt with
                choices = []
                for cc, catches_exn, only_cancel, hcmd, rr in alts:
                    if only_cancel:
                        choices.append(("TryExceptCancelOnly", body, hcmd, rr))
                    else:
                        choices.append(("TryExcept", body, cc, hcmd, rr))
                if not catch_all:
                    choices.append(body)    # an exception no handler names passes through
                inner = choices[0]
                for c in choices[1:]:
                    inner = ("Choice", inner, c)
            if s.finalbody:
                inner = ("TryFinally", inner, self.block(s.finalbody))
            return inner
        if isinstance(s, (ast.Break, ast.Continue)):
            # only reached inside a loop body that loop_body() wrapped in a Scope: ending the
            # iteration normally (the Loop may then stop or go on - an over-approximation for break)
            if not self.in_loop_scope:
                raise Unsupported("%s at line %d" % (type(s).__name__, s.lineno))
            return ("Return",)
        if isinstance(s, ast.Delete):
            return ("Skip",)
        raise Unsupported("statement %s at line %d" % (type(s).__name__, getattr(s, "lineno", 0)))

    in_loop_scope = False

    def loop_body(self, stmts, lineno):
        """Translate a loop body; `continue`/`break` end the iteration like a return from a Scope."""
        has_jump = has_ret = False
        for st in stmts:
            for n in ast.walk(st):
                if isinstance(n, (ast.Break, ast.Continue)):
                    has_jump = True
                if isinstance(n, ast.Return):
                    has_ret = True
        if not has_jump:
            return self.block(stmts)
        if has_ret:
            raise Unsupported("loop with both return and break/continue at line %d" % lineno)
        old = self.in_loop_scope
        self.in_loop_scope = True
        try:
            return ("Scope", self.block(stmts))
        finally:
            self.in_loop_scope = old

    @staticmethod
    def handler_names(h):
        if h.type is None:
            return []
        ts = h.type.elts if isinstance(h.type, ast.Tuple) else [h.type]
        return [src(t).split(".")[-1] for t in ts]

    # ---- functions -----------------------------------------------------------------------
    def function(self, fn):
        self.depth += 1
        if self.depth > 6:
            raise Unsupported("inlining too deep")
        source = textwrap.dedent(inspect.getsource(fn))
        tree = ast.parse(source)
        fdef = tree.body[0]
        if not isinstance(fdef, (ast.FunctionDef, ast.AsyncFunctionDef)):
            raise Unsupported("not a function")
        old = self.filename
        try:
            self.filename = inspect.getsourcefile(fn).split("/repo/")[-1].split("/pyatv/", 1)[-1] if inspect.getsourcefile(fn) else "?"
            line0 = inspect.getsourcelines(fn)[1] - 1
            ast.increment_lineno(tree, line0)
            body = fdef.body
            if body and isinstance(body[0], ast.Expr) and isinstance(body[0].value, ast.Constant):
                body = body[1:]
            cmd = self.block(body)
        finally:
            self.filename = old
            self.depth -= 1
        return cmd


# ---- printing ---------------------------------------------------------------------------------

def to_coq(c):
    k = c[0]
    if k == "Skip":
        return "Skip"
    if k == "Call":
        return "(Call %s %d)" % ("true" if c[1] else "false", c[2])
    if k == "Eff":
        return "(Eff (%s %d))" % (c[1], c[2])
    if k == "Seq":
        return "(Seq %s %s)" % (to_coq(c[1]), to_coq(c[2]))
    if k == "Choice":
        return "(Choice %s %s)" % (to_coq(c[1]), to_coq(c[2]))
    if k == "TryFinally":
        return "(TryFinally %s %s)" % (to_coq(c[1]), to_coq(c[2]))
    if k == "TryExcept":
        return "(TryExcept %s %s %s %s)" % (to_coq(c[1]), "true" if c[2] else "false", to_coq(c[3]), "true" if c[4] else "false")
    if k == "TryExceptCancelOnly":
        # `except CancelledError:` - an ordinary exception passes; modelled as: either the body is
        # cancelled and handled (handler catching cancel, exceptions re-raised), or it is not
        return "(Choice (TryExcept %s true (Choice %s Raise) %s) %s)" % (to_coq(c[1]), to_coq(c[2]), "true" if c[3] else "false", to_coq(c[1]))
    if k == "Loop":
        return "(Loop %s)" % to_coq(c[1])
    if k == "Raise":
        return "Raise"
    if k == "Return":
        return "Return"
    if k == "Scope":
        return "(Scope %s)" % to_coq(c[1])
    if k in ("IfHeld", "IfWritten"):
        return "(%s %d %s %s)" % (k, c[1], to_coq(c[2]), to_coq(c[3]))
    raise ValueError(k)


def pretty(c, ind=0, labels=None):
    """Human readable listing for the evidence / replay files."""
    p = "  " * ind
    k = c[0]
    if k in ("Skip", "Raise", "Return"):
        return p + k + "\n"
    if k == "Call":
        return p + ("await " if c[1] else "call ") + (labels[c[2]] if labels else "#%d" % c[2]) + "\n"
    if k == "Eff":
        return p + "%s %d\n" % (c[1], c[2])
    if k == "Seq":
        return pretty(c[1], ind, labels) + pretty(c[2], ind, labels)
    if k == "Choice":
        return p + "either:\n" + pretty(c[1], ind + 1, labels) + p + "or:\n" + pretty(c[2], ind + 1, labels)
    if k == "TryFinally":
        return p + "try:\n" + pretty(c[1], ind + 1, labels) + p + "finally:\n" + pretty(c[2], ind + 1, labels)
    if k == "TryExcept":
        return (p + "try:\n" + pretty(c[1], ind + 1, labels) + p + "except (catches_cancel=%s, reraise=%s):\n" % (c[2], c[4])
                + pretty(c[3], ind + 1, labels))
    if k == "TryExceptCancelOnly":
        return p + "try:\n" + pretty(c[1], ind + 1, labels) + p + "except CancelledError (reraise=%s):\n" % c[3] + pretty(c[2], ind + 1, labels)
    if k == "Loop":
        return p + "loop:\n" + pretty(c[1], ind + 1, labels)
    if k == "Scope":
        return p + "inlined call:\n" + pretty(c[1], ind + 1, labels)
    if k in ("IfHeld", "IfWritten"):
        return p + "if %s %d:\n" % (k[2:].lower(), c[1]) + pretty(c[2], ind + 1, labels) + p + "else:\n" + pretty(c[3], ind + 1, labels)
    return p + repr(c) + "\n"


def translate(fn, spec):
    """-> (cmd tuple, labels)"""
    tr = Translator(spec)
    cmd = tr.function(fn)
    return cmd, tr.labels


# ---- a direct interpreter of skeletons (used to turn a failed obligation into a witness path) ----

def outcomes(c, state):
    """Enumerate (outcome, state, path) triples; state = (frozenset held, frozenset written).
    path = list of (label, what) decisions at calls.  Loops are unrolled at most twice."""
    k = c[0]
    held, written = state
    if k == "Skip":
        yield "N", state, []
    elif k == "Call":
        yield "N", state, []
        yield "E", state, [(c[2], "raises")]
        if c[1]:
            yield "C", state, [(c[2], "cancelled")]
    elif k == "Eff":
        if c[1] == "Acquire":
            yield "N", (held | {c[2]}, written), []
        elif c[1] == "Release":
            yield "N", (held - {c[2]}, written), []
        else:
            yield "N", (held, written | {c[2]}), []
    elif k == "Seq":
        for o, s, p in outcomes(c[1], state):
            if o == "N":
                for o2, s2, p2 in outcomes(c[2], s):
                    yield o2, s2, p + p2
            else:
                yield o, s, p
    elif k == "Choice":
        yield from outcomes(c[1], state)
        yield from outcomes(c[2], state)
    elif k == "TryFinally":
        for o, s, p in outcomes(c[1], state):
            for o2, s2, p2 in outcomes(c[2], s):
                yield (o if o2 == "N" else o2), s2, p + p2
    elif k == "TryExcept":
        _, body, cc, h, rr = c
        for o, s, p in outcomes(body, state):
            if o == "E" or (o == "C" and cc):
                for o2, s2, p2 in outcomes(h, s):
                    yield ((o if rr else "N") if o2 == "N" else o2), s2, p + p2
            else:
                yield o, s, p
    elif k == "TryExceptCancelOnly":
        _, body, h, rr = c
        for o, s, p in outcomes(body, state):
            if o == "C":
                for o2, s2, p2 in outcomes(h, s):
                    yield ((o if rr else "N") if o2 == "N" else o2), s2, p + p2
            else:
                yield o, s, p
    elif k == "Loop":
        yield "N", state, []
        for o, s, p in outcomes(c[1], state):
            if o == "N":
                yield "N", s, p
                for o2, s2, p2 in outcomes(c[1], s):
                    yield o2, s2, p + p2
            else:
                yield o, s, p
    elif k == "Raise":
        yield "E", state, []
    elif k == "Return":
        yield "R", state, []
    elif k == "Scope":
        for o, s, p in outcomes(c[1], state):
            yield ("N" if o == "R" else o), s, p
    elif k == "IfHeld":
        yield from outcomes(c[2] if c[1] in held else c[3], state)
    elif k == "IfWritten":
        yield from outcomes(c[2] if c[1] in written else c[3], state)
    else:
        raise ValueError(k)
