"""C05 - hostile or malformed network input is contained.

(a) decoder termination: theorems in coq/C05/Properties.v (fuel bounds proved for the models
    of TLV8, OPACK, DNS names/messages and the seven receive loops); tie: every decoder of
    /repo runs on bounded-exhaustive and mutated hostile inputs in a worker process with an
    alarm (hang = the failing input) and a count of interpreter line events checked against a
    fixed polynomial in the input length.
(b) discovery containment: skeletons of the scan pipeline regenerated from /repo's AST prove
    that an exception raised while handling one datagram / one service / one service_info is
    caught before it can end the loop (coq/C05/Gen.v + Properties.v); dynamic: one hostile
    announcement mixed with N well-formed devices through the real scanners.
"""
import importlib
import itertools
import json
import os
import sys

import common
import gen_skeleton as gs

WORKER = os.path.join(os.path.dirname(os.path.abspath(__file__)), "c05_worker.py")

# events <= A * len^2 + B * len + C   (interpreter line events inside pyatv per decode call)
BOUNDS = {
    "tlv": (0, 40, 200), "varint": (0, 20, 100), "dmap": (0, 120, 150000), "mrp": (0, 80, 600),
    "companion": (0, 80, 600), "hap": (0, 60, 400), "datastream": (0, 80, 800), "event": (0, 120, 1500),
    "httpclient": (0, 120, 1500), "httpserver": (0, 160, 2500), "protobufs": (0, 80, 600),
    "mdns": (4, 400, 6000), "features": (0, 20, 200), "credentials": (0, 40, 300),
    "keyed_archiver": (0, 40, 600), "raop_timing": (0, 20, 300), "unicast_dns": (4, 400, 6000),
    # one retransmit request names up to 2^16 - 1 sequence numbers: a fixed bound, not input dependent
    "raop_control": (0, 20, 700000),
}


def run_worker(jobs, timeout=600):
    env = {"PYTHONPATH": common.REPO, "PYTHONHASHSEED": "0", "PYTHONWARNINGS": "ignore"}
    out = []
    # chunks so that one hang (alarm) or crash only costs one chunk
    from concurrent.futures import ThreadPoolExecutor
    chunks = [jobs[i:i + 1500] for i in range(0, len(jobs), 1500)]

    def one(ch):
        rc, txt = common.sh([common.PY, WORKER], timeout=timeout, env=env, inp=json.dumps(ch))
        i = txt.find("[{")
        try:
            return json.loads(txt[i:]) if i >= 0 else None
        except Exception:
            return None
    with ThreadPoolExecutor(max_workers=12) as ex:
        for ch, res in zip(chunks, ex.map(one, chunks)):
            if res is None or len(res) != len(ch):
                out.extend([{"err": "worker-died", "hang": True, "events": 0}] * len(ch))
            else:
                out.extend(res)
    return out


# ------------------------------------------------------------------------------ hostile inputs

ALPHABET = [0x00, 0x01, 0x03, 0x0A, 0x0D, 0x20, 0x3A, 0x7F, 0x80, 0xC0, 0xFF]


def valid_seeds(rng):
    """Valid messages per decoder, used as mutation seeds."""
    from pyatv.auth import hap_tlv8
    from pyatv.support.variant import write_variant
    from pyatv.protocols.dmap import tags
    from pyatv.auth.hap_session import HAPSession
    from pyatv.protocols.airplay.channels import DataStreamChannel, DataStreamMessage
    seeds = {}
    seeds["tlv"] = [hap_tlv8.write_tlv({6: b"\x01", 3: bytes(range(40)), 5: b"x" * 300})]
    seeds["varint"] = [write_variant(300) + b"rest", write_variant(2 ** 40)]
    seeds["dmap"] = [tags.container_tag("cmst", tags.uint32_tag("cmsr", 7) + tags.string_tag("cann", "abc")
                                        + tags.container_tag("mlcl", tags.container_tag("mlit", tags.uint8_tag("caps", 4)))),
                     tags.raw_tag("abcd", b"123456")]
    body = b"\x08\x0f\x12\x04abcd"
    seeds["mrp"] = [write_variant(len(body)) + body + write_variant(200) + b"z" * 200]
    seeds["companion"] = [b"\x08\x00\x00\x05hello\x01\x00\x00\x00", b"\x05\x00\x01\x00" + b"q" * 256]
    sess = HAPSession()
    sess.enable(b"k" * 32, b"k" * 32)
    seeds["hap"] = [sess.encrypt(b"m" * 30), sess.encrypt(b"n" * 1100)]
    seeds["datastream"] = [DataStreamChannel.encode_message(DataStreamMessage(b"sync" + 8 * b"\x00", b"comm", 5, 0, b"bplist00\xd0\x08\x00" + bytes(30))),
                           DataStreamChannel.encode_message(DataStreamMessage(b"rply" + 8 * b"\x00", b"\x00\x00\x00\x00", 6, 0, b""))]
    seeds["event"] = [b"POST /command RTSP/1.0\r\nContent-Length: 3\r\nCSeq: 1\r\nServer: x\r\n\r\nabcGET / RTSP/1.0\r\n\r\n"]
    seeds["httpclient"] = [b"HTTP/1.1 200 OK\r\nContent-Length: 4\r\nCSeq: 3\r\n\r\nbodyRTSP/1.0 404 Not Found\r\n\r\n"]
    seeds["httpserver"] = [b"GET /a HTTP/1.1\r\nHost: x\r\n\r\nPOST /b HTTP/1.1\r\nContent-Length: 2\r\n\r\nhi"]
    seeds["protobufs"] = [write_variant(len(body)) + body, b"\x08\x0f"]
    seeds["features"] = [b"0x5A7FFFF7,0x1E", b"0x1"]
    import plistlib
    U = plistlib.UID
    seeds["keyed_archiver"] = [plistlib.dumps({"$top": {"sessionUUID": U(1), "documentState": U(2)},
                                               "$objects": ["$null", b"0123456789abcdef", {"docSt": U(3)}, {"contextBeforeInput": U(4)}, "hello"]}, fmt=plistlib.FMT_BINARY)]
    seeds["raop_control"] = [b"\x80\xd5\x00\x01" + (65000).to_bytes(2, "big") + (1000).to_bytes(2, "big"), b"\x80\xd5\x00\x01\x00\x05\xff\xff"]
    seeds["raop_timing"] = [b"\x80\xd2\x00\x07" + bytes(28)]
    seeds["unicast_dns"] = []
    seeds["credentials"] = [b"aa:bb:cc:dd", b"aa:bb"]
    # valid mDNS responses (PTR/SRV/TXT/A, with and without name compression) from the
    # independent encoder of harness/c12.py
    c12 = importlib.import_module("c12")
    seeds["mdns"] = []
    for i in range(3):
        dev = c12.make_device(rng, i, c12.ALL_TYPES, nserv=2)
        for dg in c12.device_datagrams(rng, dev):
            seeds["mdns"].append(c12.encode_msg(dg["msg"])[0])
    seeds["mdns"] = seeds["mdns"][:5]
    seeds["unicast_dns"] = list(seeds["mdns"])
    return seeds


def hostile_stream(ctx, seeds):
    rng = ctx.rng
    jobs = []
    maxlen = 3 if not ctx.thorough else 4
    for dec in BOUNDS:
        if dec in ("mdns", "unicast_dns"):
            alpha = [0x00, 0x01, 0xC0, 0xFF, 0x0C]
            strings = [bytes(12) + bytes(t) for n in range(0, 4) for t in itertools.product(alpha, repeat=n)]
            strings += [bytes([0, 0, 0x84, 0, 0, q, 0, a, 0, 0, 0, 0]) + bytes(t) for q in (0, 1, 255) for a in (0, 1, 255)
                        for n in range(0, 3) for t in itertools.product(alpha, repeat=n)]
        else:
            strings = [bytes(t) for n in range(0, maxlen + 1) for t in itertools.product(ALPHABET, repeat=n)]
        for s in strings:
            jobs.append({"dec": dec, "data": s.hex(), "kind": "exhaustive"})
        nmut = 150 if not ctx.thorough else 1500
        for seed in seeds.get(dec, []):
            for _ in range(nmut):
                b = bytearray(seed)
                op = rng.randrange(6)
                if op == 0 and b:
                    b[rng.randrange(len(b))] = rng.choice(ALPHABET + [rng.getrandbits(8)])
                elif op == 1 and b:
                    del b[rng.randrange(len(b)):]
                elif op == 2 and b:
                    i = rng.randrange(len(b))
                    b[i:i] = bytes(rng.choice(ALPHABET) for _ in range(rng.randint(1, 4)))
                elif op == 3 and len(b) > 4:
                    # length / count fields: overwrite 1-4 bytes with extreme values
                    i = rng.randrange(len(b) - 3)
                    v = rng.choice([b"\x00\x00\x00\x00", b"\xff\xff\xff\xff", b"\x00\x00\x00\x01", b"\x7f\xff\xff\xff", b"\xff\xff", b"\x00\x00"])
                    b[i:i + len(v)] = v
                elif op == 4:
                    b = b + b
                else:
                    b = b[:rng.randrange(len(b) + 1)] + bytes(rng.getrandbits(8) for _ in range(rng.randint(1, 8)))
                jobs.append({"dec": dec, "data": bytes(b).hex(), "kind": "mutation"})
            jobs.append({"dec": dec, "data": seed.hex(), "kind": "valid"})
            # text protocols: sweep every decimal field (Content-Length, CSeq, status) over negative,
            # zero, just-too-large and absurd values - a negative length must not move a parser backwards
            if dec in ("event", "httpclient", "httpserver"):
                import re
                for m in re.finditer(rb"\d+", seed):
                    vals = [b"-%d" % k for k in range(0, len(seed) + 8)] + [b"0", b"00", b"+3", b" 3", b"3 ", b"1e3", b"0x10", b"",
                            b"%d" % (len(seed) + 1), b"%d" % (2 ** 31), b"%d" % (2 ** 64), b"9" * 400]
                    for v in vals:
                        jobs.append({"dec": dec, "data": (seed[:m.start()] + v + seed[m.end():]).hex(), "kind": "number-sweep"})
    # NSKeyedArchiver blobs whose objects are references to each other: chains, self references, cycles,
    # dangling indices (the reader follows UID references)
    import plistlib
    U = plistlib.UID
    pool = lambda n: [U(k) for k in range(n + 2)] + ["s", b"b", {"docSt": U(0)}, {"docSt": U(1), "contextBeforeInput": U(2)}, ["x", U(1)], 7]
    arch = []
    for n in (1, 2, 3):
        choices = pool(n)
        combos = list(itertools.product(choices, repeat=n)) if n < 3 else [tuple(rng.choice(choices) for _ in range(n)) for _ in range(300)]
        for objs in combos:
            for top in ({"sessionUUID": U(0), "documentState": U(n - 1)}, {"sessionUUID": U(n - 1), "documentState": {"docSt": U(0)}}):
                arch.append({"$top": top, "$objects": list(objs)})
    for a in arch:
        try:
            jobs.append({"dec": "keyed_archiver", "data": plistlib.dumps(a, fmt=plistlib.FMT_BINARY).hex(), "kind": "reference-graph"})
        except Exception:
            pass
    # regression inputs of the fixed hangs
    for name, c in common.load_corpus("C05"):
        if "dec" in c and "data" in c:
            jobs.insert(0, {"dec": c["dec"], "data": c["data"], "kind": "corpus:" + name})
    return jobs


# ------------------------------------------------------------------------------ discovery skeletons

class StageTr(gs.Translator):
    """Only the stage calls named in spec['stages'] may raise; every other call is dropped."""

    def calls_in(self, node, awaited=False):
        import ast
        import re
        if isinstance(node, ast.Await):
            return self.calls_in(node.value, awaited=True)
        if isinstance(node, ast.Call):
            text = gs.src(node)
            out = []
            for a in node.args:
                out += self.calls_in(a.value if isinstance(a, ast.Starred) else a)
            for k in node.keywords:
                out += self.calls_in(k.value)
            for rx in self.spec["stages"]:
                if re.search(rx, text):
                    return out + [("Call", awaited, self.label(node, awaited))]
            return out
        return super().calls_in(node, awaited)


def discovery_skeletons():
    from pyatv.core import scan, mdns
    fns = {
        "handle_response": (scan.BaseScanner.handle_response, [r"^self\._service_discovered\("]),
        "discover": (scan.BaseScanner.discover, [r"^self\._service_infos\["]),
        "receive_delegate": (mdns.ReceiveDelegate.datagram_received, [r"^delegate\.datagram_received\("]),
        "get_device_info": (scan.BaseScanner._get_device_info, [r"^extractor\("]),
    }
    out = {}
    for name, (fn, stages) in fns.items():
        tr = StageTr({"stages": stages})
        cmd = tr.function(fn)
        if not tr.labels:
            raise gs.Unsupported("stage call of %s not found" % name)
        out[name] = (cmd, tr.labels)
    return out


def gen(ctx):
    sk = discovery_skeletons()
    lines = ["(* GENERATED by harness/c05.py from /repo's AST on every run - do not edit *)",
             "From Coq Require Import List. Import ListNotations.",
             "From PV Require Import Common.Skeleton."]
    for name, (cmd, labels) in sk.items():
        lines.append("Definition sk_%s : cmd := %s." % (name, gs.to_coq(cmd)))
    txt = "\n".join(lines) + "\n"
    path = os.path.join(common.COQ, "C05", "Gen.v")
    if not os.path.exists(path) or open(path).read() != txt:
        with open(path, "w") as f:
            f.write(txt)
    return sk


# ------------------------------------------------------------------------------ discovery, dynamic

def hostile_announcements(c12, rng):
    """Datagrams of one hostile host: valid DNS carrying malformed properties, and plain garbage."""
    out = []
    hostile_ip = (10 << 24) + (7 << 16) + (7 << 8) + 7

    def svc(ty, txt, port=7000, inst="evil"):
        full = [inst] + c12.L(ty)
        host = ["evilhost", "local"]
        ans = [c12.rec_ptr(ty, full)]
        add = [c12.rec_srv(full, port, host), c12.rec_txt(full, txt), c12.rec_a(host, hostile_ip)]
        return {"src": hostile_ip, "msg": {"answers": ans, "additional": add, "compress": True}}

    def kv(k, v):
        return [k, v.encode().hex() if isinstance(v, str) else v.hex()]

    bad_values = ["zz", "0xZZ", "", "0x", "-1", "9" * 40, "\xff\xfe", "0x1,0xZ", "nan", "1e999",
                  # long near-matches: values that make a backtracking regular expression explode
                  # compound values (comma separated key=value lists): known sub-keys without / with empty value
                  "00-11-22-33-44-55,syVs", "00-11-22-33-44-55,raMA,syVs=", ",syVs", "x,syAP=,syVs", "=", ",,", "00-11-22-33-44-55,syVs=\x00",
                  "a" * 60 + "!", "Mac" + "a" * 60 + "!", "AppleTV" + "1" * 60 + "x", "0" * 60 + "x,", "A1,B2," * 12 + "!"]
    keys = {
        "_companion-link._tcp.local": ["rpfl", "rpmd", "rpmac", "rpba", "rpvr", "rpad"],
        "_airplay._tcp.local": ["features", "flags", "sf", "ft", "model", "deviceid", "acl", "pw", "osvers", "srcvers", "psi", "gid", "pi", "pk", "protovers"],
        "_raop._tcp.local": ["ft", "sf", "am", "et", "md", "cn", "tp", "vs", "ov", "pw", "sv", "da", "vn", "txtvers", "wama"],
        "_mediaremotetv._tcp.local": ["UniqueIdentifier", "ModelName", "SystemBuildVersion", "macAddress", "Name", "AllowPairing"],
        "_appletv-v2._tcp.local": ["hG", "Name", "MiTPV"],
        "_touch-able._tcp.local": ["CtlN", "DvTy", "DbId"],
        "_hscp._tcp.local": ["Machine Name", "hG", "MID"],
        "_airport._tcp.local": ["wama", "raMA", "syAP"],
    }
    for ty, ks in keys.items():
        for k in ks:
            for v in bad_values:
                txt = [kv(k, v)]
                # make the service otherwise plausible so that it gets as far as possible
                if ty == "_mediaremotetv._tcp.local" and k != "UniqueIdentifier":
                    txt.append(kv("UniqueIdentifier", "evil-id"))
                if ty == "_airplay._tcp.local" and k != "deviceid":
                    txt.append(kv("deviceid", "EE:EE:EE:EE:EE:EE"))
                if ty == "_companion-link._tcp.local":
                    pass
                inst = "evil" if ty != "_raop._tcp.local" else "EEEEEEEEEEEE@evil"
                out.append(("txt:%s:%s=%r" % (ty.split(".")[0], k, v), [svc(ty, txt, inst=inst)]))
        out.append(("port0:" + ty, [svc(ty, [kv("a", "b")], port=0)]))
        out.append(("no-txt-equals:" + ty, [svc(ty, [["justakey", None]])]))
    # structurally odd (but decodable) answers: records owned by the bare service type, dangling
    # pointers, sleep-proxy style port-0 services without instance name, SRV/TXT alone
    for ty in ("_airplay._tcp.local", "_mediaremotetv._tcp.local", "_raop._tcp.local", "_companion-link._tcp.local"):
        bare = c12.L(ty)
        host = ["evilhost", "local"]
        out.append(("bare-txt:" + ty, [{"src": hostile_ip, "msg": {"answers": [], "additional": [c12.rec_txt(bare, [kv("a", "b")])], "compress": False}}]))
        out.append(("bare-txt-answer:" + ty, [{"src": hostile_ip, "msg": {"answers": [c12.rec_txt(bare, [kv("a", "b")])], "additional": [], "compress": False}}]))
        out.append(("ptr-to-type:" + ty, [{"src": hostile_ip, "msg": {"answers": [c12.rec_ptr(ty, bare)], "additional": [], "compress": True}}]))
        out.append(("bare-srv-port0:" + ty, [{"src": hostile_ip, "msg": {"answers": [c12.rec_ptr(ty, bare)], "additional": [c12.rec_srv(bare, 0, host), c12.rec_a(host, hostile_ip)], "compress": True}}]))
        out.append(("srv-only:" + ty, [{"src": hostile_ip, "msg": {"answers": [], "additional": [c12.rec_srv(["x"] + bare, 0, host)], "compress": False}}]))
        out.append(("dangling-ptr:" + ty, [{"src": hostile_ip, "msg": {"answers": [c12.rec_ptr(ty, ["ghost"] + bare)], "additional": [], "compress": False}}]))
    out.append(("sleep-proxy-ptr", [{"src": hostile_ip, "msg": {"answers": [c12.rec_ptr(c12.SLEEP, ["70-35-60-63.1 evil"] + c12.L(c12.SLEEP))], "additional": [], "compress": False}}]))
    # decodable records whose owner name is not a service instance name (last label starting with
    # "_", "_tcp" without a type before it, type-like labels in the wrong place, a single label)
    for labels in (["evil", "_x"], ["evil", "_tcp"], ["a", "b", "_c"], ["Device", "_airplay", "_foo", "_bar"], ["_tcp"], ["_x"],
                   ["_airplay", "_tcp"], ["x", "_udp"], ["_a", "_b", "_tcp"], ["local"], ["evil", "_airplay", "_TCP", "local"]):
        host = ["evilhost", "local"]
        nm = ".".join(labels)
        out.append(("odd-name-txt:" + nm, [{"src": hostile_ip, "msg": {"answers": [c12.rec_txt(labels, [kv("a", "b")])], "additional": [], "compress": False}}]))
        out.append(("odd-name-srv:" + nm, [{"src": hostile_ip, "msg": {"answers": [], "additional": [c12.rec_srv(labels, 7000, host), c12.rec_a(host, hostile_ip)], "compress": False}}]))
        out.append(("odd-name-ptr-target:" + nm, [{"src": hostile_ip, "msg": {"answers": [c12.rec_ptr("_airplay._tcp.local", labels)], "additional": [], "compress": False}}]))
        out.append(("odd-name-a:" + nm, [{"src": hostile_ip, "msg": {"answers": [], "additional": [c12.rec_a(labels, hostile_ip)], "compress": False}}]))
    # TXT keys that are not ASCII; a sleep proxy whose name lacks the "<numbers> <name>" form
    for ty in ("_airplay._tcp.local", "_companion-link._tcp.local", "_raop._tcp.local"):
        inst = "evil" if ty != "_raop._tcp.local" else "EEEEEEEEEEEE@evil"
        out.append(("non-ascii-key:" + ty, [svc(ty, [["hex:6bff", "76"], kv("deviceid", "EE:EE:EE:EE:EE:EE")], inst=inst)]))
        out.append(("non-ascii-key-utf8:" + ty, [svc(ty, [["hex:6bc3bf", "76"]], inst=inst)]))
    out.append(("sleep-proxy-no-space", [{"src": hostile_ip, "msg": {"answers": [c12.rec_ptr(c12.SLEEP, ["evilnospace"] + c12.L(c12.SLEEP))],
                                                                       "additional": [c12.rec_srv(["evilnospace"] + c12.L(c12.SLEEP), 0, ["evilhost", "local"]), c12.rec_txt(["evilnospace"] + c12.L(c12.SLEEP), []), c12.rec_a(["evilhost", "local"], hostile_ip)], "compress": False}}]))
    # instance names with control characters / dots / spaces only
    for nm_, inst_ in (("ctrl-char", "a\x01b"), ("nul", "a\x00b"), ("dot-in-label", "a.b"), ("space-only", " "), ("del", "a\x7fb")):
        out.append(("odd-instance-%s" % nm_, [svc("_airplay._tcp.local", [kv("deviceid", "EE:EE:EE:EE:EE:EE")], inst=inst_)]))
    # _device-info announcements that lack the one key the scanner looks for / have no TXT at all
    di = c12.L(c12.DEVINFO)
    out.append(("devinfo-without-model", [{"src": hostile_ip, "msg": {"answers": [], "additional": [c12.rec_txt(["evil"] + di, [kv("osxvers", "21")]), c12.rec_a(["evilhost", "local"], hostile_ip)], "compress": False}}]))
    out.append(("devinfo-empty-txt", [{"src": hostile_ip, "msg": {"answers": [], "additional": [c12.rec_txt(["evil"] + di, [])], "compress": False}}]))
    out.append(("devinfo-ptr-only", [{"src": hostile_ip, "msg": {"answers": [c12.rec_ptr(c12.DEVINFO, ["evil"] + di)], "additional": [], "compress": False}}]))
    out.append(("devinfo-with-service", [svc("_airplay._tcp.local", [kv("deviceid", "EE:EE:EE:EE:EE:EE")])[0] if False else svc("_airplay._tcp.local", [kv("deviceid", "EE:EE:EE:EE:EE:EE")]),
                                         {"src": hostile_ip, "msg": {"answers": [], "additional": [c12.rec_txt(["evil"] + di, [kv("foo", "bar")])], "compress": False}}]))
    # odd instance names
    out.append(("raop-no-at", [svc("_raop._tcp.local", [kv("am", "AppleTV6,2")], inst="noatsign")]))
    # well-formed DNS framing around records whose RDATA has the wrong size for its type
    import struct as _st

    def _nm(labels):
        return b"".join(bytes([len(l)]) + l.encode() for l in labels) + b"\0"

    def _rr(labels, t, rd, cls=0x8001):
        return _nm(labels) + _st.pack(">HHIH", t, cls, 120, len(rd)) + rd

    def _msg(ans, add):
        return _st.pack(">6H", 0, 0x8400, 0, len(ans), 0, len(add)) + b"".join(ans) + b"".join(add)
    _inst, _host, _ty = ["evil", "_airplay", "_tcp", "local"], ["evilhost", "local"], ["_airplay", "_tcp", "local"]
    _srv = _rr(_inst, 33, _st.pack(">3H", 0, 0, 7000) + _nm(_host))
    _a = _rr(_host, 1, bytes([10, 7, 7, 7]))
    odd_rdata = [("a-rdata-3-bytes", _msg([_rr(_ty, 12, _nm(_inst), 1)], [_srv, _rr(_inst, 16, b"\x03a=b"), _rr(_host, 1, b"abc")])),
                 ("a-rdata-5-bytes", _msg([_rr(_ty, 12, _nm(_inst), 1)], [_srv, _rr(_inst, 16, b"\x03a=b"), _rr(_host, 1, b"abcde")])),
                 ("a-rdata-empty", _msg([_rr(_ty, 12, _nm(_inst), 1)], [_srv, _rr(_inst, 16, b"\x03a=b"), _rr(_host, 1, b"")])),
                 ("srv-rdata-short", _msg([_rr(_ty, 12, _nm(_inst), 1)], [_rr(_inst, 33, b"\0\0\0"), _a])),
                 ("txt-chunk-beyond-rdata", _msg([_rr(_ty, 12, _nm(_inst), 1)], [_srv, _rr(_inst, 16, b"\xffabc"), _a])),
                 ("ptr-rdata-empty", _msg([_rr(_ty, 12, b"", 1)], [_srv, _a])),
                 ("aaaa-rdata-short", _msg([_rr(_ty, 12, _nm(_inst), 1)], [_srv, _rr(_host, 28, b"abc"), _a]))]
    for name, raw in odd_rdata:
        out.append(("garbage-" + name, [{"src": hostile_ip, "garbage": raw.hex()}]))
    # raw garbage from the hostile host
    for name, raw in [("garbage-empty", b""), ("garbage-short", b"\x00\x01"), ("ptr-loop", bytes(12)[:4] + b"\x00\x01\x00\x00\x00\x00\x00\x00\xc0\x0c\x00\x0c\x00\x01"),
                      ("huge-counts", b"\x00\x00\x84\x00\xff\xff\xff\xff\xff\xff\xff\xff"), ("ones", b"\xff" * 64),
                      ("truncated-answer", bytes([0, 0, 0x84, 0, 0, 0, 0, 1, 0, 0, 0, 0, 3]) + b"abc")]:
        out.append((name, [{"src": hostile_ip, "garbage": raw.hex()}]))
    return out, hostile_ip


SCAN_WORKER = os.path.join(os.path.dirname(os.path.abspath(__file__)), "c05_scan_worker.py")


def run_scans(jobs, per_job_timeout=20):
    """Run scan jobs in worker processes; a job that does not finish is reported as a hang and the
    worker is restarted with the remaining jobs.  Returns one result dict per job."""
    import subprocess
    import time
    env = dict(os.environ)
    env.update({"PYTHONPATH": common.REPO + ":" + os.path.dirname(os.path.abspath(__file__)), "PYTHONHASHSEED": "0", "PYTHONWARNINGS": "ignore"})
    results = [None] * len(jobs)

    def run_range(idxs):
        pos = 0
        while pos < len(idxs):
            chunk = idxs[pos:]
            p = subprocess.Popen([common.PY, SCAN_WORKER], stdin=subprocess.PIPE, stdout=subprocess.PIPE, stderr=subprocess.DEVNULL, env=env, text=True)
            try:
                p.stdin.write(json.dumps([jobs[i] for i in chunk]))
                p.stdin.close()
            except BrokenPipeError:
                pass
            import selectors
            sel = selectors.DefaultSelector()
            sel.register(p.stdout, selectors.EVENT_READ)
            done_here = 0
            hung = False
            buf = ""
            deadline = time.time() + per_job_timeout + 20   # first job includes interpreter start-up
            while done_here < len(chunk):
                ev = sel.select(timeout=max(0.0, deadline - time.time()))
                if not ev:
                    hung = True
                    break
                data = os.read(p.stdout.fileno(), 1 << 20).decode("utf-8", "replace")
                if not data:
                    break
                buf += data
                while "\n" in buf:
                    line, buf = buf.split("\n", 1)
                    if not line.startswith("{"):
                        continue
                    results[chunk[done_here]] = json.loads(line)
                    done_here += 1
                    deadline = time.time() + per_job_timeout
            p.kill()
            p.wait()
            if done_here < len(chunk):
                results[chunk[done_here]] = {"err": "HANG" if hung else "worker died", "obs": None, "hang": True}
                done_here += 1
            pos += done_here

    from concurrent.futures import ThreadPoolExecutor
    n = 8
    parts = [list(range(k, len(jobs), n)) for k in range(n)]
    with ThreadPoolExecutor(max_workers=n) as ex:
        list(ex.map(run_range, [p_ for p_ in parts if p_]))
    return results


def discovery_dynamic(ctx):
    c12 = importlib.import_module("c12")
    rng = ctx.rng
    hostile, hostile_ip = hostile_announcements(c12, rng)
    nscen = 3 if not ctx.thorough else 10
    scenarios = []
    for i in range(nscen):
        ndev = rng.randint(1, 3)
        kinds = c12.ALL_TYPES
        devs = [c12.make_device(rng, j, kinds) for j in range(ndev)]
        dgs = []
        for d in devs:
            dgs += c12.device_datagrams(rng, d)
        scenarios.append(dgs)
    jobs = []
    meta = []
    for si, good in enumerate(scenarios):
        sc = {"mode": "m", "dgrams": good}
        enc = c12.encode_scenario(sc)
        jobs.append({"feed": [[src, data.hex()] for src, data in c12.feed_for(sc, enc, list(range(len(good))))]})
        meta.append(("base", si, None, None))
        for hi, (hname, hd) in enumerate(hostile):
            if not ctx.thorough and (hi % nscen) != si and not hname.startswith(("garbage", "ptr-loop", "huge", "ones", "trunc", "bare", "srv-only", "dangling", "ptr-to", "sleep", "odd-name", "devinfo")):
                continue
            for pos in sorted({0, len(good)} | ({rng.randrange(len(good) + 1)} if ctx.thorough else set())):
                dg = good[:pos] + hd + good[pos:]
                sc2 = {"mode": "m", "dgrams": dg}
                try:
                    enc2 = c12.encode_scenario(sc2)
                except Exception as ex:
                    ctx.note("cannot encode hostile announcement %s: %r" % (hname, ex))
                    break
                feed = c12.feed_for(sc2, enc2, list(range(len(dg))))
                jobs.append({"feed": [[src, data.hex()] for src, data in feed]})
                meta.append(("hostile", si, hname, pos))
    # unicast scanning (scan(hosts=[...])): every well-formed device is one host, the hostile
    # host is an additional one; a result is keyed by the host address, so the well-formed hosts'
    # configurations must be the same with and without the hostile host's answers
    for si0, good in enumerate(scenarios):
        si = "u%d" % si0
        bysrc = {}
        for d in good:
            bysrc.setdefault(d["src"], []).append(json.loads(json.dumps(d)))
        per = []
        for src, dgs in bysrc.items():
            # one answer per query the unicast scanner sends (it counts datagrams)
            dgs = c12.fit_to_queries(rng, dgs, c12.nqueries(None))
            per.append([data.hex() for data, _ in c12.encode_scenario({"mode": "m", "dgrams": dgs})])
        jobs.append({"mode": "u", "feed": per + [[]]})
        meta.append(("base", si, None, None))
        for hi, (hname, hd) in enumerate(hostile):
            if not ctx.thorough and (hi % nscen) != si0 and not hname.startswith(("garbage", "ptr-loop", "huge", "ones", "trunc", "bare", "srv-only", "dangling", "ptr-to", "sleep", "odd-name", "devinfo")):
                continue
            try:
                enc2 = c12.encode_scenario({"mode": "m", "dgrams": hd})
            except Exception as ex:
                continue
            # the hostile host answers every query the scanner sent it (so that the scanner considers
            # the host complete and processes what it said), or only once (the host then times out)
            one = [data.hex() for data, _ in enc2]
            for rep, tag in ((c12.nqueries(None), "unicast-all-queries"), (1, "unicast-once")):
                if rep == 1 and not (ctx.thorough or hname.startswith(("garbage", "odd-name", "ptr-loop", "devinfo"))):
                    continue
                jobs.append({"mode": "u", "feed": per + [(one * rep)[:max(rep, len(one))]]})
                meta.append(("hostile", si, hname, tag))
    # the third scanner: scan(aiozc=...) reads a zeroconf cache that holds everybody's records
    def records_of(dgs):
        out = []
        for d in dgs:
            if "msg" in d:
                out += d["msg"]["answers"] + d["msg"]["additional"]
        return out
    for si0, good in enumerate(scenarios):
        si = "z%d" % si0
        jobs.append({"mode": "z", "records": records_of(good), "feed": []})
        meta.append(("base", si, None, None))
        for hi, (hname, hd) in enumerate(hostile):
            if hname.startswith("garbage") or hname in ("ptr-loop", "huge-counts", "ones", "truncated-answer"):
                continue      # raw datagrams are parsed by the zeroconf library, not by pyatv
            if not ctx.thorough and (hi % nscen) != si0 and not hname.startswith(("non-ascii", "sleep", "odd-", "bare", "srv-only", "dangling", "ptr-to", "port0", "no-txt", "devinfo")):
                continue
            jobs.append({"mode": "z", "records": records_of(good) + records_of(hd), "feed": []})
            meta.append(("hostile", si, hname, "zeroconf-cache"))
    res = run_scans(jobs)
    base = {}
    total = 0
    for (kind, si, hname, pos), job, r in zip(meta, jobs, res):
        if kind == "base":
            if r is None or r.get("err"):
                # well-formed devices only, and the scan does not return: nothing hostile is needed any more
                ctx.violation("C05:discover:well-formed-scan-raises", "scan() of well-formed announcements only (%s scanner) %s" % (
                    {"m": "multicast", "u": "unicast", "z": "zeroconf"}.get(job.get("mode", "m")), "did not return" if (r or {}).get("hang") else "raised " + str((r or {}).get("err"))),
                    {"part": "discover", "hostile": None, "position": None, "mode": job.get("mode", "m"), "feed": job["feed"], "records": job.get("records"), "expected_addresses": []})
                base[si] = None
            else:
                base[si] = {c["address"]: c for c in r["obs"]}
            continue
        if base.get(si) is None:
            continue
        total += 1
        b = base[si]
        err = (r or {}).get("err") if r is not None else "no result"
        ctx.case(("discover", si, hname, pos), nontrivial=True,
                 sample={"scenario": si, "hostile": hname, "position": pos, "good_devices": len(b), "error": err} if total % 97 == 1 else None)
        ctx.count("discover:" + hname.split(":")[0])
        replay = {"part": "discover", "hostile": hname, "position": pos, "mode": job.get("mode", "m"), "feed": job["feed"], "records": job.get("records"), "expected_addresses": sorted(b)}
        if err is not None:
            if r is not None and r.get("hang"):
                key = "C05:discover:scan-hangs"
            else:
                key = ("C05:discover:zeroconf-scan-raises" if job.get("mode") == "z" else
                       "C05:discover:service-info-barrier" if ("rpfl" in hname or ":sf=" in hname or "features" in hname or "flags" in hname)
                       else "C05:discover:device-info-barrier" if "wama" in hname else "C05:discover:scan-raises")
            ctx.violation(key, "scan() %s with one hostile announcement (%s) among %d well-formed devices" % ("did not return" if "hangs" in key else "raised " + err, hname, len(b)), replay)
            continue
        got = {c["address"]: c for c in r["obs"]}
        missing = [a_ for a_ in b if a_ not in got]
        changed = [a_ for a_ in b if a_ in got and c12.normalise([got[a_]]) != c12.normalise([b[a_]])]
        if missing or changed:
            ctx.violation("C05:discover:well-formed-device-lost", "hostile announcement %s made well-formed devices %s disappear / %s change" % (hname, missing, changed), replay)
    ctx.traces += total


def run(ctx):
    sk = None
    try:
        sk = gen(ctx)
    except Exception as ex:
        ctx.tie_broken("translator:skeleton", repr(ex))
    ctx.build_property()
    if ctx.thorough:
        ctx.coqchk()
    ctx.extra["skeletons"] = {}
    if sk:
        for name, (cmd, labels) in sk.items():
            escapes = [(o, p) for o, s, p in gs.outcomes(cmd, (frozenset(), frozenset())) if o == "E"]
            ctx.extra["skeletons"][name] = {"listing": gs.pretty(cmd, 0, labels), "stage_calls": labels, "escaping_paths": len(escapes)}
            for o, p in escapes[:2]:
                ctx.tie_broken("skeleton:%s" % name, json.dumps({"exception_escapes_after": [(labels[l], w) for l, w in p]}))
    # (a) decoders
    from random import Random
    seeds = valid_seeds(ctx.rng)
    jobs = hostile_stream(ctx, seeds)
    res = run_worker(jobs)
    worst = {}
    for j, r in zip(jobs, res):
        n = len(j["data"]) // 2
        dec = j["dec"]
        ctx.case((dec, j["data"]), nontrivial=n > 1 and r.get("events", 0) > 5,
                 sample={"decoder": dec, "bytes": j["data"][:80], "kind": j["kind"], "events": r.get("events"), "error": r.get("err")} if (len(ctx.samples) < 6 and j["kind"] == "mutation") else None)
        ctx.count("%s:%s" % (dec, r.get("err") or "ok"))
        rp = {"part": "decoder", "dec": dec, "data": j["data"], "kind": j["kind"]}
        if r.get("hang") and j["kind"] == "number-sweep":
            ctx.violation("C05:%s:numeric-field-does-not-terminate" % dec, "%s did not finish within its time limit on %d bytes (decimal header field replaced)" % (dec, n), rp)
            continue
        if r.get("hang"):
            key = {"datastream": "C05:datastream:size-below-header", "event": "C05:eventchannel:bad-request-line"}.get(dec, "C05:%s:does-not-terminate" % dec)
            ctx.violation(key, "%s did not finish within its time limit on %d bytes" % (dec, n), rp)
            continue
        a, b, c = BOUNDS[dec]
        bound = a * n * n + b * n + c
        worst[dec] = max(worst.get(dec, 0), r["events"] / float(bound))
        if r["events"] > bound:
            ctx.violation("C05:%s:step-bound" % dec, "%s used %d interpreter steps on %d bytes (bound %d)" % (dec, r["events"], n, bound), rp)
        if r.get("err") in ("RecursionError", "MemoryError", "SystemExit", "KeyboardInterrupt"):
            key = "C05:dmap:recursion-limit" if (dec == "dmap" and r["err"] == "RecursionError") else "C05:%s:%s" % (dec, r["err"])
            ctx.violation(key, "%s raised %s on %d bytes" % (dec, r["err"], n), rp)
    ctx.traces += len(jobs)
    ctx.extra["step_bound_usage"] = {k: round(v, 3) for k, v in worst.items()}
    ctx.extra["step_bounds"] = {k: "events <= %d*len^2 + %d*len + %d" % v for k, v in BOUNDS.items()}
    for modname in ("c04_opack", "c04_dns"):
        try:
            mod = importlib.import_module(modname)
            mod.run_part_c05(ctx)
        except ModuleNotFoundError:
            ctx.note("part %s not present" % modname)
    # (b) discovery
    discovery_dynamic(ctx)
    ctx.rule = ("decoders: every byte string up to length 3 (4 thorough) over an 11-symbol alphabet per decoder + structure-aware mutations of valid messages "
                "(lengths, counts, truncation, duplication), each run in a worker with an alarm and an interpreter line-event count; discovery: every hostile "
                "announcement (malformed value for every TXT key the scanners read, port 0, odd names, garbage, pointer loops, huge counts) mixed with 1-3 well-formed "
                "devices at the first and last position through the real scan(); non-trivial = more than one byte and more than 5 interpreter steps")
    ctx.trusted += [
        "harness/c05_worker.py (alarm + sys.settrace line-event counter); the per-decoder polynomial bounds in harness/c05.py",
        "harness/gen_skeleton.py for the discovery skeletons: only the named stage calls are allowed to raise there",
        "discovery driver and independent DNS encoder of harness/c12.py",
    ]
    ctx.assumptions += ["DMAP: nested-call depth is bounded by the interpreter's recursion limit (RecursionError is an ordinary exception); the model's fuel stands for it",
                        "asyncio logs and continues when a datagram protocol's datagram_received raises"]


def replay(ctx, path):
    d = json.load(open(path))
    r = d.get("replay", {})
    if r.get("part") == "decoder":
        res = run_worker([{"dec": r["dec"], "data": r["data"]}])
        print(res)
        n = len(r["data"]) // 2
        a, b, c = BOUNDS[r["dec"]]
        return 1 if (res[0].get("hang") or res[0]["events"] > a * n * n + b * n + c) else 0
    if r.get("part") == "discover":
        res = run_scans([{"mode": r.get("mode", "m"), "feed": r["feed"], "records": r.get("records")}])[0]
        if res.get("err"):
            print("scan failed:", res["err"])
            return 1
        got = sorted(c["address"] for c in res["obs"])
        print("returned addresses", got, "expected at least", r["expected_addresses"])
        return 0 if all(a in got for a in r["expected_addresses"]) else 1
    if r.get("codec", "").startswith("opack"):
        return importlib.import_module("c04_opack").replay_part(ctx, r)
    if r.get("codec", "").startswith("dns") or r.get("part") == "dns":
        return importlib.import_module("c04_dns").replay_part(ctx, r)
    print(json.dumps(d, indent=1)[:3000])
    return 1
