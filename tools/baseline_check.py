#!/usr/bin/env python3
"""Run /repo's test suite (guard off) and compare against /root/.vp/BASELINE.json stable_pass."""
import json, subprocess, sys, os, ast, tempfile
import xml.etree.ElementTree as ET
b = json.load(open('/root/.vp/BASELINE.json'))
stable = b['stable_pass']
if isinstance(stable, str):
    stable = ast.literal_eval(stable)
out = tempfile.mktemp(suffix='.xml', dir='/dev/shm')
env = dict(os.environ); env.pop('PYATV_VERIF', None)
subprocess.run('cd /repo && /venv/bin/python -m pytest -ra -q -p no:cacheprovider --timeout=900 --continue-on-collection-errors --junitxml=%s >/dev/null 2>&1' % out, shell=True, env=env)
passed = set()
for tc in ET.parse(out).getroot().iter('testcase'):
    if not any(c.tag in ('failure', 'error', 'skipped') for c in tc):
        passed.add(tc.get('classname') + '::' + tc.get('name'))
os.unlink(out)
missing = [t for t in stable if t not in passed]
print('stable', len(stable), 'passed_now', len(passed), 'missing', len(missing))
for m in missing[:40]:
    print('  MISSING', m)
sys.exit(1 if missing else 0)
