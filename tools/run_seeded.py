#!/usr/bin/env python3
"""Run ./check <pid> against each seeded change of that property, in a scratch worktree
(VERIF_REPO), and record whether it was reported.  usage: run_seeded.py C01 [C02 ...] [--in-repo]"""
import json, os, subprocess, sys, time
V = os.path.dirname(os.path.dirname(os.path.abspath(__file__)))
args = [a for a in sys.argv[1:] if not a.startswith("--")]
only = [a.split("=", 1)[1] for a in sys.argv[1:] if a.startswith("--only=")]
# --check=Cyy: run another property's check against the seeded change (a change aimed at one
# property often breaks a neighbouring one too); recorded under "also_detected_by"
other = [a.split("=", 1)[1] for a in sys.argv[1:] if a.startswith("--check=")]
for spid in args:
    pid = other[0] if other else spid
    for sid in sorted(os.listdir(os.path.join(V, "seeded"))):
        if not sid.startswith(spid + "-"):
            continue
        if only and not any(o in sid for o in only):
            continue
        d = os.path.join(V, "seeded", sid)
        w = "/tmp/sw/" + sid
        subprocess.run(["git", "-C", "/repo", "worktree", "remove", "--force", w], capture_output=True)
        subprocess.run(["git", "-C", "/repo", "worktree", "add", "-q", "--detach", w, "HEAD"], check=True)
        try:
            r = subprocess.run(["git", "-C", w, "apply", os.path.join(d, "patch.diff")], capture_output=True, text=True)
            if r.returncode != 0:
                print(sid, "PATCH DOES NOT APPLY", r.stderr[:200]); continue
            t0 = time.time()
            env = dict(os.environ, VERIF_REPO=w)
            try:
                p = subprocess.run(["./check", pid], cwd=V, env=env, capture_output=True, text=True, timeout=2700)
            except subprocess.TimeoutExpired:
                print(sid, "CHECK DID NOT FINISH within 45 min (the check's own watchdog should have ended it)")
                continue
            lines = [l for l in p.stdout.splitlines() if l.startswith("VIOLATION") or l.startswith("KNOWN-FINDING")]
            viol = [l for l in lines if l.startswith("VIOLATION")]
            replay = None
            if viol:
                path = viol[0].split("replay=")[1].split()[0]
                try:
                    replay = json.load(open(path))
                except Exception:
                    replay = None
            m = json.load(open(os.path.join(d, "meta.json")))
            m["also_detected_by" if other else "detected_by"] = {"check": "./check %s (quick)" % pid, "exit": p.returncode, "violation_lines": viol,
                                "replay_key": (replay or {}).get("key"), "wall_s": round(time.time() - t0, 1)}
            json.dump(m, open(os.path.join(d, "meta.json"), "w"), indent=1)
            print(sid, "exit=%d" % p.returncode, "DETECTED" if viol else "MISSED", (replay or {}).get("key"), "%.0fs" % (time.time() - t0))
        finally:
            subprocess.run(["git", "-C", "/repo", "worktree", "remove", "--force", w], capture_output=True)
    # restore generated files / evidence from the real tree
    p = subprocess.run(["./check", pid], cwd=V, capture_output=True, text=True, timeout=1500)
    print(pid, "unchanged tree: exit=%d" % p.returncode)
