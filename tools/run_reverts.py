#!/usr/bin/env python3
"""For every 'fixed' entry of known_findings.json (optionally only the given properties): revert the
fix commit in a scratch worktree and check that ./check <pid> reports the violation again.
usage: run_reverts.py [C18 ...]"""
import json, os, subprocess, sys
V = os.path.dirname(os.path.dirname(os.path.abspath(__file__)))
want = set(sys.argv[1:])
kf = json.load(open(os.path.join(V, "known_findings.json")))["findings"]
seen = set()
for e in kf:
    if e["status"] != "fixed" or (want and e["property"] not in want):
        continue
    pid, commit = e["property"], e["commit"]
    if (pid, commit) in seen:
        continue
    seen.add((pid, commit))
    keys = [x["key"] for x in kf if x["status"] == "fixed" and x["commit"] == commit and x["property"] == pid]
    w = "/tmp/sw/revert-%s-%s" % (pid, commit)
    subprocess.run(["git", "-C", "/repo", "worktree", "remove", "--force", w], capture_output=True)
    subprocess.run(["git", "-C", "/repo", "worktree", "add", "-q", "--detach", w, "HEAD"], check=True)
    try:
        more = [c for x in kf if x["status"] == "fixed" and x["commit"] == commit and x["property"] == pid for c in x.get("revert_with", [])]
        r = subprocess.run(["git", "-C", w, "revert", "--no-commit"] + more + [commit], capture_output=True, text=True)
        if r.returncode != 0:
            print(pid, commit, "REVERT CONFLICT", r.stderr[:150].replace("\n", " ")); continue
        p = subprocess.run(["./check", pid], cwd=V, env=dict(os.environ, VERIF_REPO=w), capture_output=True, text=True, timeout=1500)
        found = []
        for l in p.stdout.splitlines():
            if l.startswith("VIOLATION"):
                path = l.split("replay=")[1].split()[0]
                try:
                    found.append(json.load(open(path)).get("key"))
                except Exception:
                    found.append("?")
        ok = [k for k in keys if k in found]
        print(pid, commit, "exit=%d" % p.returncode, "REPORTED" if ok else ("OTHER-KEY " + str(found) if found else "MISSED"), "expected", keys, "got", found)
    finally:
        subprocess.run(["git", "-C", "/repo", "worktree", "remove", "--force", w], capture_output=True)
for pid in sorted({p for p, _ in seen}):
    p = subprocess.run(["./check", pid], cwd=V, capture_output=True, text=True, timeout=1500)
    print(pid, "unchanged tree: exit=%d" % p.returncode)
