#!/usr/bin/env python3
"""Re-check every seeded change against /repo's CURRENT head: does the patch still apply, does its
demonstration still fail with it (and pass without)?  Records the outcome in meta.json['current']."""
import json, os, subprocess, sys, glob
V = os.path.dirname(os.path.dirname(os.path.abspath(__file__)))
head = subprocess.run(["git", "-C", "/repo", "rev-parse", "--short", "HEAD"], capture_output=True, text=True).stdout.strip()
want = sys.argv[1:]
for d in sorted(glob.glob(os.path.join(V, "seeded", "*"))):
    sid = os.path.basename(d)
    if want and not any(sid.startswith(w) for w in want):
        continue
    w = "/tmp/sw/rv-" + sid
    subprocess.run(["git", "-C", "/repo", "worktree", "remove", "--force", w], capture_output=True)
    subprocess.run(["git", "-C", "/repo", "worktree", "add", "-q", "--detach", w, "HEAD"], check=True)
    cur = {"repo_head": head}
    try:
        r = subprocess.run(["git", "-C", w, "apply", os.path.join(d, "patch.diff")], capture_output=True, text=True)
        cur["applies"] = r.returncode == 0
        if cur["applies"]:
            try:
                p = subprocess.run(["/venv/bin/python", os.path.join(d, "demo.py"), w], capture_output=True, text=True, timeout=400)
                cur["demo_exit_with_change"] = p.returncode
            except subprocess.TimeoutExpired:
                cur["demo_exit_with_change"] = "timeout"
        try:
            p = subprocess.run(["/venv/bin/python", os.path.join(d, "demo.py"), "/repo"], capture_output=True, text=True, timeout=400)
            cur["demo_exit_on_repo"] = p.returncode
        except subprocess.TimeoutExpired:
            cur["demo_exit_on_repo"] = "timeout"
        cur["still_breaks_property"] = bool(cur.get("applies") and cur.get("demo_exit_with_change") not in (0, None) and cur.get("demo_exit_on_repo") == 0)
    finally:
        subprocess.run(["git", "-C", "/repo", "worktree", "remove", "--force", w], capture_output=True)
    m = json.load(open(os.path.join(d, "meta.json")))
    m["current"] = cur
    json.dump(m, open(os.path.join(d, "meta.json"), "w"), indent=1)
    print(sid, cur)
