#!/usr/bin/env python3
"""Regenerate MANIFEST.json from tools/manifest_table.json (claimed checks) and properties.jsonl."""
import json, os
V = os.path.dirname(os.path.dirname(os.path.abspath(__file__)))
props = [json.loads(l) for l in open(os.path.join(V, "properties.jsonl"))]
table = json.load(open(os.path.join(V, "tools", "manifest_table.json")))
COMMON_NOTE = ("Trusted base: Coq 8.16.1 kernel (coqc full .vo build; vm_compute used, native_compute not used); no axioms declared "
               "(Print Assumptions of every property theorem is written into the evidence file on every run); the hand-written or generated Gallina model "
               "is tied to /repo's working tree on every run by the translator and/or the differential correspondence run in harness/; "
               "see DESIGN.md section 7. ")
checks = []
na = []
for p in props:
    pid = p["id"]
    t = table.get(pid)
    if not t or t.get("not_applicable"):
        na.append({"property_id": pid, "reason": (t or {}).get("reason", "check not built yet in this session; will be claimed once its theorems and correspondence run exist")})
        continue
    checks.append({
        "property_id": pid,
        "quick_cmd": "./check %s --tier quick" % pid,
        "thorough_cmd": "./check %s --tier thorough" % pid,
        "evidence_file": "/verif/evidence/%s.json" % pid,
        "replay_cmd_template": "./check %s --replay {path}" % pid,
        "engine": "coq-proof+correspondence",
        "level_claimed": {"category": "proof", "text": t["text"], "design_ref": t.get("design_ref", "DESIGN.md section 5, " + pid)},
        "level_note": COMMON_NOTE + t.get("note", ""),
        "technique": t.get("technique", "machine-checked proof in Coq over an executable model + differential correspondence with the implementation"),
    })
m = {
    "version": 1,
    "setup_cmd": "./check --setup",
    "hooks": {"guard": "PYATV_VERIF", "enable": "no source hooks: checks drive /repo's working tree from outside (PYTHONPATH=/repo, fake transports, virtual-time loop)",
              "baseline_off_cmd": "cd /repo && /venv/bin/python -m pytest -q -p no:cacheprovider --timeout=900", "source_commits": [], "add_only": True},
    "engines": [{"name": "coq-proof+correspondence", "path": "/verif/check", "serves_properties": [c["property_id"] for c in checks],
                 "kind_free_text": "Coq 8.16.1 theorems over Gallina models (coq/), models tied to /repo by translators and differential runs (harness/)"}],
    "checks": checks,
    "notes": table.get("_notes", ""),
    "not_applicable": na,
}
json.dump(m, open(os.path.join(V, "MANIFEST.json"), "w"), indent=1)
print("claimed", len(checks), "not_applicable", len(na))
