(* C20 - the formula itself, over exact rationals (domain DQ): the two conversions are
   exact inverses of each other and strictly monotone; 0 <-> the mute sentinel. *)
From Coq Require Import ZArith QArith Qfield Lia Lqa List Bool.
From PV Require Import C20.Model.
Import ListNotations.
Open Scope Q_scope.

Lemma Qltb_true a b : a < b -> Qltb a b = true.
Proof.
  intros H. unfold Qltb. destruct (Qle_bool b a) eqn:E; [|reflexivity].
  apply Qle_bool_iff in E. exfalso. apply (Qlt_not_le _ _ H E).
Qed.
Lemma Qltb_false a b : b <= a -> Qltb a b = false.
Proof. intros H. unfold Qltb. apply Qle_bool_iff in H. now rewrite H. Qed.
Lemma Qeqb_false a b : ~ a == b -> Qeq_bool a b = false.
Proof. intros H. destruct (Qeq_bool a b) eqn:E; [|reflexivity]. apply Qeq_bool_iff in E. contradiction. Qed.

(* the un-rounded formulas *)
Definition p2dQ (x : Q) : Q := (x - 0) * (0 - -30) / (100 - 0) + -30.
Definition d2pQ (l : Q) : Q := (l - -30) * (100 - 0) / (0 - -30) + 0.

Lemma p2dQ_eq x : p2dQ x == x * (3 # 10) - 30.
Proof. unfold p2dQ. field. Qed.
Lemma d2pQ_eq l : d2pQ l == (l + 30) * (10 # 3).
Proof. unfold d2pQ. field. Qed.

Lemma pct_to_dbfs_Q x : 0 < x -> x <= 100 -> pct_to_dbfs DQ x = Ok (p2dQ x).
Proof.
  intros H0 H1. unfold pct_to_dbfs, zero. cbn [deq dZ DQ T].
  rewrite Qeqb_false by (intro E; rewrite E in H0; now apply Qlt_irrefl in H0).
  unfold map_range, pdiv, zero, PERCENTAGE_MIN, PERCENTAGE_MAX, DBFS_MIN, DBFS_MAX.
  cbn [dle dsub dlt dmul ddiv dadd deq dZ DQ T].
  change (Qle_bool (inject_Z 100 - inject_Z 0) (inject_Z 0)) with false.
  change (Qle_bool (inject_Z 0 - inject_Z (-30)) (inject_Z 0)) with false.
  rewrite (Qltb_false x (inject_Z 0)) by (now apply Qlt_le_weak).
  rewrite (Qltb_false (inject_Z 100) x) by exact H1.
  change (Qeq_bool (inject_Z 100 - inject_Z 0) (inject_Z 0)) with false.
  reflexivity.
Qed.

Lemma pct_to_dbfs_Q0 x : x == 0 -> pct_to_dbfs DQ x = Ok (inject_Z (-144)).
Proof.
  intros E. unfold pct_to_dbfs, zero. cbn [deq dZ DQ T].
  apply Qeq_bool_iff in E. change (inject_Z 0) with 0. now rewrite E.
Qed.

Lemma pct_to_dbfs_Q_out x : x < 0 \/ 100 < x -> pct_to_dbfs DQ x = Raise ValueError.
Proof.
  intros H. unfold pct_to_dbfs, zero. cbn [deq dZ DQ T].
  rewrite Qeqb_false.
  2:{ intro E. destruct H as [H|H]; rewrite E in H; [now apply Qlt_irrefl in H | discriminate H]. }
  unfold map_range, pdiv, zero, PERCENTAGE_MIN, PERCENTAGE_MAX, DBFS_MIN, DBFS_MAX.
  cbn [dle dsub dlt dmul ddiv dadd deq dZ DQ T].
  change (Qle_bool (inject_Z 100 - inject_Z 0) (inject_Z 0)) with false.
  change (Qle_bool (inject_Z 0 - inject_Z (-30)) (inject_Z 0)) with false.
  destruct H as [H|H].
  - now rewrite (Qltb_true x (inject_Z 0)) by exact H.
  - destruct (Qltb x (inject_Z 0)); [reflexivity|].
    now rewrite (Qltb_true (inject_Z 100) x) by exact H.
Qed.

Lemma dbfs_to_pct_Q l : -30 <= l -> l <= 0 -> dbfs_to_pct DQ l = Ok (d2pQ l).
Proof.
  intros H0 H1. unfold dbfs_to_pct, DBFS_MIN, DBFS_MAX, PERCENTAGE_MIN, PERCENTAGE_MAX.
  cbn [dlt dZ DQ T].
  rewrite (Qltb_false l (inject_Z (-30))) by exact H0.
  rewrite (Qltb_false (inject_Z 0) l) by exact H1.
  unfold map_range, pdiv, zero.
  cbn [dle dsub dlt dmul ddiv dadd deq dZ DQ T].
  change (Qle_bool (inject_Z 0 - inject_Z (-30)) (inject_Z 0)) with false.
  change (Qle_bool (inject_Z 100 - inject_Z 0) (inject_Z 0)) with false.
  rewrite (Qltb_false l (inject_Z (-30))) by exact H0.
  rewrite (Qltb_false (inject_Z 0) l) by exact H1.
  change (Qeq_bool (inject_Z 0 - inject_Z (-30)) (inject_Z 0)) with false.
  reflexivity.
Qed.

Lemma dbfs_to_pct_Q_low l : l < -30 -> dbfs_to_pct DQ l = Ok (inject_Z 0).
Proof.
  intros H. unfold dbfs_to_pct, DBFS_MIN, PERCENTAGE_MIN. cbn [dlt dZ DQ T].
  now rewrite (Qltb_true l (inject_Z (-30))) by exact H.
Qed.

Lemma dbfs_to_pct_Q_high l : 0 < l -> dbfs_to_pct DQ l = Raise ProtocolError.
Proof.
  intros H. unfold dbfs_to_pct, DBFS_MIN, DBFS_MAX, PERCENTAGE_MIN. cbn [dlt dZ DQ T].
  rewrite (Qltb_false l (inject_Z (-30))).
  - now rewrite (Qltb_true (inject_Z 0) l) by exact H.
  - apply Qlt_le_weak. eapply Qlt_trans; [|exact H]. reflexivity.
Qed.

(* range of the exact formulas *)
Lemma p2dQ_range x : 0 < x -> x <= 100 -> -30 < p2dQ x /\ p2dQ x <= 0.
Proof. intros H0 H1. rewrite p2dQ_eq. split; lra. Qed.
Lemma d2pQ_range l : -30 <= l -> l <= 0 -> 0 <= d2pQ l /\ d2pQ l <= 100.
Proof. intros H0 H1. rewrite d2pQ_eq. split; lra. Qed.

(* exact inverses *)
Lemma inverse_pct x : 0 < x -> x <= 100 ->
  exists d y, pct_to_dbfs DQ x = Ok d /\ dbfs_to_pct DQ d = Ok y /\ y == x.
Proof.
  intros H0 H1. destruct (p2dQ_range x H0 H1) as [R0 R1].
  exists (p2dQ x), (d2pQ (p2dQ x)). split; [now apply pct_to_dbfs_Q|]. split.
  - apply dbfs_to_pct_Q; [now apply Qlt_le_weak | exact R1].
  - rewrite d2pQ_eq, p2dQ_eq. field.
Qed.

Lemma inverse_pct_zero :
  exists d y, pct_to_dbfs DQ 0 = Ok d /\ dbfs_to_pct DQ d = Ok y /\ y == 0.
Proof.
  exists (inject_Z (-144)), (inject_Z 0). split; [now apply pct_to_dbfs_Q0|]. split; [|reflexivity].
  apply dbfs_to_pct_Q_low. reflexivity.
Qed.

Lemma inverse_dbfs l : -30 < l -> l <= 0 ->
  exists p d, dbfs_to_pct DQ l = Ok p /\ pct_to_dbfs DQ p = Ok d /\ d == l.
Proof.
  intros H0 H1.
  assert (P0 : 0 < d2pQ l) by (rewrite d2pQ_eq; lra).
  assert (P1 : d2pQ l <= 100) by (rewrite d2pQ_eq; lra).
  exists (d2pQ l), (p2dQ (d2pQ l)). split; [apply dbfs_to_pct_Q; [now apply Qlt_le_weak | exact H1]|]. split.
  - now apply pct_to_dbfs_Q.
  - rewrite p2dQ_eq, d2pQ_eq. field.
Qed.

(* strictly monotone *)
Lemma strict_mono_pct x y : 0 < x -> x < y -> y <= 100 ->
  exists dx dy, pct_to_dbfs DQ x = Ok dx /\ pct_to_dbfs DQ y = Ok dy /\ dx < dy.
Proof.
  intros H0 H1 H2. exists (p2dQ x), (p2dQ y).
  split; [apply pct_to_dbfs_Q; [exact H0 | lra]|].
  split; [apply pct_to_dbfs_Q; [lra | exact H2]|].
  rewrite !p2dQ_eq. lra.
Qed.

(* ... and the muted level sorts below every audible one *)
Lemma mute_below x : 0 < x -> x <= 100 ->
  exists dx, pct_to_dbfs DQ x = Ok dx /\ inject_Z (-144) < dx.
Proof.
  intros H0 H1. exists (p2dQ x). split; [now apply pct_to_dbfs_Q|].
  rewrite p2dQ_eq. change (inject_Z (-144)) with (-144 # 1). lra.
Qed.

Lemma strict_mono_dbfs a b : -30 <= a -> a < b -> b <= 0 ->
  exists pa pb, dbfs_to_pct DQ a = Ok pa /\ dbfs_to_pct DQ b = Ok pb /\ pa < pb.
Proof.
  intros H0 H1 H2. exists (d2pQ a), (d2pQ b).
  split; [apply dbfs_to_pct_Q; [exact H0 | lra]|].
  split; [apply dbfs_to_pct_Q; [lra | exact H2]|].
  rewrite !d2pQ_eq. lra.
Qed.
