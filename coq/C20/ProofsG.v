(* C20 - (a) the range guard on the extended values a float can take;
         (b) concrete binary64 witnesses, computed on Coq's primitive floats. *)
From Coq Require Import ZArith QArith Lqa List Bool PrimFloat.
From PV Require Import Common.Cases C20.Model.
Import ListNotations.

(* ------------------------------------------------------------------ (a) *)

Lemma guard_fval_spec v :
  guard_fval v = true <-> exists q, v = Fin q /\ (0 <= q /\ q <= 100)%Q.
Proof.
  unfold guard_fval. rewrite andb_true_iff. split.
  - intros [H1 H2]. destruct v as [q| | |]; cbn in H1, H2; try discriminate.
    exists q. split; [reflexivity|]. now rewrite <- !Qle_bool_iff.
  - intros (q & -> & H0 & H1). cbn. now rewrite !Qle_bool_iff.
Qed.

Lemma guard_fval_rejects v :
  v = NaN \/ v = PInf \/ v = NInf \/ (exists q, v = Fin q /\ (q < 0 \/ 100 < q)%Q) ->
  guard_fval v = false.
Proof.
  intros H. destruct (guard_fval v) eqn:E; [|reflexivity]. exfalso.
  apply guard_fval_spec in E. destruct E as (q & -> & H0 & H1).
  destruct H as [H|[H|[H|(q' & H & Hq)]]]; try discriminate.
  injection H as <-. destruct Hq as [Hq|Hq]; lra.
Qed.

(* ------------------------------------------------------------------ (b) *)

Definition has_bad_fwd (evs : list (list (@event DF))) : bool :=
  existsb (fun e : @event DF => match e with Fwd v => negb (in_range DF v) | _ => false end) (concat evs).

Definition same_events (a b : list (list (@event DF))) : bool := list_beq (list_beq event_same) a b.

Definition has_nan_dev (evs : list (list (@event DF))) : bool :=
  existsb (fun e : @event DF => match e with Dev v => fnan v | _ => false end) (concat evs).

Open Scope float_scope.

(* 33.0 -> -20.1 dBFS -> 32.99999999999999 *)
Lemma roundtrip_33 :
  in_range DF 33 = true /\
  pct_to_dbfs DF 33 = Ok (-0x1.419999999999ap+4) /\
  dbfs_to_pct DF (-0x1.419999999999ap+4) = Ok 0x1.07fffffffffffp+5 /\
  PrimFloat.eqb 0x1.07fffffffffffp+5 33 = false.
Proof.
  split; [vm_compute; reflexivity|]. split; [vm_compute; reflexivity|].
  split; vm_compute; reflexivity.
Qed.

Lemma raop_nan_witness :
  let evs := rrun DF (rinit DF) [@RReport DF nan; @RPump DF; @RRead DF; @RUp DF] in
  has_bad_fwd evs = true /\ has_nan_dev evs = true /\
  list_beq event_same (nth 2 evs []) [@Exc DF ProtocolError] = true.
Proof. split; [vm_compute; reflexivity|]. split; vm_compute; reflexivity. Qed.

Lemma mrp_low_witness :
  same_events (mrun DF (Build_mstate DF 0 true false) [@MReport DF (-50); @MRead DF; @MUp DF])
              [[]; [@Exc DF ProtocolError]; [@Fwd DF (-45)]] = true.
Proof. vm_compute. reflexivity. Qed.

Lemma mrp_high_witness :
  same_events (mrun DF (Build_mstate DF 0 true false) [@MReport DF 150; @MRead DF; @MDown DF])
              [[]; [@Exc DF ProtocolError]; [@Fwd DF 145]] = true.
Proof. vm_compute. reflexivity. Qed.

(* the fixed defect: a device-side level above 0 dBFS is a ProtocolError, not a ValueError *)
Lemma dbfs_above_max_witness :
  same_events (rrun DF (rinit DF) [@RInject DF 1; @RRead DF; @RUp DF; @RDown DF])
              [[]; [@Exc DF ProtocolError]; [@Exc DF ProtocolError]; [@Exc DF ProtocolError]] = true.
Proof. vm_compute. reflexivity. Qed.

(* NaN, infinities and neighbours of the bounds at the facade guard *)
Lemma guard_specials :
  map (in_range DF) [nan; infinity; neg_infinity; -0x0.0000000000001p-1022; 0x1.9000000000001p+6;
                     0; -0; 100; 0x0.0000000000001p-1022]
  = [false; false; false; false; false; true; true; true; true].
Proof. vm_compute. reflexivity. Qed.
