(* C20 - lemmas over the rounded-real domain DR (Flocq). *)
From Coq Require Import Reals Lra ZArith Lia List Bool.
From Flocq Require Import Core Relative.
From PV Require Import C20.Model C20.ModelR.
Import ListNotations.
Open Scope R_scope.

#[export] Instance prec53 : Prec_gt_0 53.
Proof. reflexivity. Qed.

#[export] Instance fexp_valid : Valid_exp fexp.
Proof. apply FLT_exp_valid. reflexivity. Qed.

(* ------------------------------------------------------------------ rounding facts *)

Lemma rnd_le x y : x <= y -> rnd x <= rnd y.
Proof. apply round_le; typeclasses eauto. Qed.

Lemma fmt_Z (z : Z) : (Z.abs z < 2^53)%Z -> generic_format radix2 fexp (IZR z).
Proof.
  intros H. apply generic_format_FLT.
  apply (FLT_spec radix2 (-1074) 53 _ (Float radix2 z 0)).
  - unfold F2R; simpl; ring.
  - exact H.
  - simpl; lia.
Qed.

Lemma rnd_Z z : (Z.abs z < 2^53)%Z -> rnd (IZR z) = IZR z.
Proof. intros; apply round_generic; [typeclasses eauto | now apply fmt_Z]. Qed.

Lemma rnd_ub x z : (Z.abs z < 2^53)%Z -> x <= IZR z -> rnd x <= IZR z.
Proof. intros Hz H. rewrite <- (rnd_Z z Hz). now apply rnd_le. Qed.

Lemma rnd_lb x z : (Z.abs z < 2^53)%Z -> IZR z <= x -> IZR z <= rnd x.
Proof. intros Hz H. rewrite <- (rnd_Z z Hz). now apply rnd_le. Qed.

Lemma rnd_fmt x : generic_format radix2 fexp (rnd x).
Proof. apply generic_format_round; typeclasses eauto. Qed.

Lemma rnd_idem x : rnd (rnd x) = rnd x.
Proof. apply round_generic; [typeclasses eauto | apply rnd_fmt]. Qed.

Ltac zb := now vm_compute.

(* integer arithmetic on small constants is exact *)
Lemma rnd_Zminus a b : (Z.abs (a - b) < 2^53)%Z -> rnd (IZR a - IZR b) = IZR (a - b).
Proof. intros H. rewrite <- minus_IZR. now apply rnd_Z. Qed.

(* absolute rounding error below a magnitude bound: relative 2^-53 plus the subnormal floor *)
Definition u53 : R := bpow radix2 (-53).
Definition tiny : R := bpow radix2 (-1075).

Lemma half_bpow e : / 2 * bpow radix2 (e + 1) = bpow radix2 e.
Proof. rewrite bpow_plus, bpow_1. change (IZR radix2) with 2. lra. Qed.

Lemma rnd_err t B : Rabs t <= B -> Rabs (rnd t - t) <= u53 * B + tiny.
Proof.
  intros HB. unfold u53, tiny.
  assert (P1 : 0 <= bpow radix2 (-53)) by apply bpow_ge_0.
  assert (P2 : 0 <= bpow radix2 (-1075)) by apply bpow_ge_0.
  assert (PB : 0 <= B) by (eapply Rle_trans; [apply Rabs_pos | exact HB]).
  destruct (Rle_or_lt (bpow radix2 (-1022)) (Rabs t)) as [Hn|Hs].
  - pose proof (relative_error_N_FLT radix2 (-1074) 53 ltac:(lia) (fun x => negb (Z.even x)) t) as H.
    change (-1074 + 53 - 1)%Z with (-1022)%Z in H. specialize (H Hn).
    change (round radix2 (FLT_exp (-1074) 53) (Znearest (fun x => negb (Z.even x))) t) with (rnd t) in H.
    replace (/ 2 * bpow radix2 (- (53) + 1)) with (bpow radix2 (-53)) in H
      by (symmetry; apply (half_bpow (-53))).
    eapply Rle_trans; [exact H|].
    apply Rle_trans with (bpow radix2 (-53) * B); [apply Rmult_le_compat_l; assumption | lra].
  - assert (Hu : ulp radix2 fexp t = bpow radix2 (-1074)).
    { apply (ulp_FLT_small radix2 (-1074) 53).
      eapply Rlt_trans; [exact Hs|]. apply bpow_lt. lia. }
    pose proof (error_le_half_ulp radix2 fexp (fun x => negb (Z.even x)) t) as H.
    change (round radix2 fexp (Znearest (fun x => negb (Z.even x))) t) with (rnd t) in H.
    rewrite Hu in H.
    change (-1074)%Z with (-1075 + 1)%Z in H. rewrite (half_bpow (-1075)) in H.
    eapply Rle_trans; [exact H|].
    assert (0 <= bpow radix2 (-53) * B) by (apply Rmult_le_pos; assumption). lra.
Qed.

(* ------------------------------------------------------------------ boolean comparisons *)

Lemma Rltb_true a b : a < b -> Rltb a b = true.
Proof. intros H. unfold Rltb. destruct (Rlt_dec a b); [reflexivity | contradiction]. Qed.
Lemma Rltb_false a b : ~ a < b -> Rltb a b = false.
Proof. intros H. unfold Rltb. destruct (Rlt_dec a b); [contradiction | reflexivity]. Qed.
Lemma Rleb_true a b : a <= b -> Rleb a b = true.
Proof. intros H. unfold Rleb. destruct (Rle_dec a b); [reflexivity | contradiction]. Qed.
Lemma Rleb_false a b : ~ a <= b -> Rleb a b = false.
Proof. intros H. unfold Rleb. destruct (Rle_dec a b); [contradiction | reflexivity]. Qed.
Lemma Reqb_true a b : a = b -> Reqb a b = true.
Proof. intros H. unfold Reqb. destruct (Req_EM_T a b); [reflexivity | contradiction]. Qed.
Lemma Reqb_false a b : a <> b -> Reqb a b = false.
Proof. intros H. unfold Reqb. destruct (Req_EM_T a b); [contradiction | reflexivity]. Qed.
Lemma Rltb_iff a b : Rltb a b = true <-> a < b.
Proof. unfold Rltb. destruct (Rlt_dec a b); split; intros; auto; discriminate. Qed.
Lemma Rleb_iff a b : Rleb a b = true <-> a <= b.
Proof. unfold Rleb. destruct (Rle_dec a b); split; intros; auto; discriminate. Qed.

(* ------------------------------------------------------------------ map_range on integer ranges *)

Definition smallZ (z : Z) : Prop := (Z.abs z < 2^52)%Z.

Definition mapR (v : R) (za zb zc zd : Z) : R :=
  rnd (rnd (rnd (rnd (v - IZR za) * IZR (zd - zc)) / IZR (zb - za)) + IZR zc).

Lemma map_range_R_ok v za zb zc zd :
  smallZ za -> smallZ zb -> smallZ zc -> smallZ zd ->
  (za < zb)%Z -> (zc < zd)%Z -> IZR za <= v <= IZR zb ->
  map_range DR v (IZR za) (IZR zb) (IZR zc) (IZR zd) = Ok (mapR v za zb zc zd).
Proof.
  unfold smallZ. intros Sa Sb Sc Sd Hab Hcd [Hlo Hhi].
  unfold map_range, pdiv, zero, mapR.
  cbn [dle dsub dlt dmul ddiv dadd deq dZ DR T].
  rewrite (rnd_Zminus zb za) by lia. rewrite (rnd_Zminus zd zc) by lia.
  rewrite (Rleb_false (IZR (zb - za)) 0) by (apply Rlt_not_le, IZR_lt; lia).
  rewrite (Rleb_false (IZR (zd - zc)) 0) by (apply Rlt_not_le, IZR_lt; lia).
  rewrite (Rltb_false v (IZR za)) by lra.
  rewrite (Rltb_false (IZR zb) v) by lra.
  rewrite (Reqb_false (IZR (zb - za)) 0) by (apply Rgt_not_eq, IZR_lt; lia).
  reflexivity.
Qed.

Lemma map_range_R_out v za zb zc zd :
  smallZ za -> smallZ zb -> smallZ zc -> smallZ zd ->
  v < IZR za \/ IZR zb < v ->
  map_range DR v (IZR za) (IZR zb) (IZR zc) (IZR zd) = Raise ValueError.
Proof.
  unfold smallZ. intros Sa Sb Sc Sd Hv.
  unfold map_range, pdiv, zero.
  cbn [dle dsub dlt dmul ddiv dadd deq dZ DR T].
  destruct (Rleb (rnd (IZR zb - IZR za)) 0); [reflexivity|].
  destruct (Rleb (rnd (IZR zd - IZR zc)) 0); [reflexivity|].
  destruct (Rlt_dec v (IZR za)) as [L|L].
  - now rewrite (Rltb_true _ _ L).
  - rewrite (Rltb_false _ _ L). destruct Hv as [Hv|Hv]; [contradiction|].
    now rewrite (Rltb_true _ _ Hv).
Qed.

(* ------------------------------------------------------------------ the two conversions *)

Definition p2d (x : R) : R := mapR x 0 100 (-30) 0.     (* rnd(rnd(rnd(rnd(x-0)*30)/100) + -30) *)
Definition d2p (l : R) : R := mapR l (-30) 0 0 100.     (* rnd(rnd(rnd(rnd(l- -30)*100)/30) + 0) *)

Lemma pct_to_dbfs_R x :
  pct_to_dbfs DR x =
    if Req_EM_T x 0 then Ok (-144)
    else if Rlt_dec x 0 then Raise ValueError
    else if Rlt_dec 100 x then Raise ValueError
    else Ok (p2d x).
Proof.
  unfold pct_to_dbfs, zero, MUTED, PERCENTAGE_MIN, PERCENTAGE_MAX, DBFS_MIN, DBFS_MAX.
  cbn [deq dZ DR T]. unfold Reqb.
  destruct (Req_EM_T x 0) as [E|E]; [reflexivity|].
  destruct (Rlt_dec x 0) as [L|L].
  - apply map_range_R_out; try zb. now left.
  - destruct (Rlt_dec 100 x) as [G|G].
    + apply map_range_R_out; try zb. now right.
    + apply map_range_R_ok; try zb; try lia. lra.
Qed.

Lemma dbfs_to_pct_R l :
  dbfs_to_pct DR l =
    if Rlt_dec l (-30) then Ok 0
    else if Rlt_dec 0 l then Raise ProtocolError
    else Ok (d2p l).
Proof.
  unfold dbfs_to_pct, zero, PERCENTAGE_MIN, PERCENTAGE_MAX, DBFS_MIN, DBFS_MAX.
  cbn [dlt dZ DR T]. unfold Rltb.
  destruct (Rlt_dec l (-30)) as [L|L]; [reflexivity|].
  destruct (Rlt_dec 0 l) as [G|G]; [reflexivity|].
  apply map_range_R_ok; try zb; try lia. lra.
Qed.

(* closure *)
Lemma p2d_closed x : 0 <= x <= 100 -> -30 <= p2d x <= 0.
Proof.
  intros [H0 H1]. unfold p2d, mapR. change (0 - -30)%Z with 30%Z. change (100 - 0)%Z with 100%Z.
  assert (A0: 0 <= rnd (x - 0) <= 100) by (split; [apply (rnd_lb _ 0)|apply (rnd_ub _ 100)]; [zb|lra|zb|lra]).
  assert (A: 0 <= rnd (rnd (x - 0) * 30) <= 3000) by (split; [apply (rnd_lb _ 0)|apply (rnd_ub _ 3000)]; [zb|lra|zb|lra]).
  assert (B: 0 <= rnd (rnd (rnd (x - 0) * 30) / 100) <= 30) by (split; [apply (rnd_lb _ 0)|apply (rnd_ub _ 30)]; [zb|lra|zb|lra]).
  split; [apply (rnd_lb _ (-30))|apply (rnd_ub _ 0)]; [zb|lra|zb|lra].
Qed.

Lemma d2p_closed l : -30 <= l <= 0 -> 0 <= d2p l <= 100.
Proof.
  intros [H0 H1]. unfold d2p, mapR. change (100 - 0)%Z with 100%Z. change (0 - -30)%Z with 30%Z.
  assert (A: 0 <= rnd (l - -30) <= 30) by (split; [apply (rnd_lb _ 0)|apply (rnd_ub _ 30)]; [zb|lra|zb|lra]).
  assert (B: 0 <= rnd (rnd (l - -30) * 100) <= 3000) by (split; [apply (rnd_lb _ 0)|apply (rnd_ub _ 3000)]; [zb|lra|zb|lra]).
  assert (C: 0 <= rnd (rnd (rnd (l - -30) * 100) / 30) <= 100) by (split; [apply (rnd_lb _ 0)|apply (rnd_ub _ 100)]; [zb|lra|zb|lra]).
  split; [apply (rnd_lb _ 0)|apply (rnd_ub _ 100)]; [zb|lra|zb|lra].
Qed.

(* monotonicity (weak: rounding may merge neighbours) *)
Lemma mapR_mono v w za zb zc zd : (za < zb)%Z -> (zc < zd)%Z -> v <= w -> mapR v za zb zc zd <= mapR w za zb zc zd.
Proof.
  intros Hab Hcd H. unfold mapR.
  assert (P1 : 0 < IZR (zd - zc)) by (apply IZR_lt; lia).
  assert (P2 : 0 < IZR (zb - za)) by (apply IZR_lt; lia).
  apply rnd_le. apply Rplus_le_compat_r. apply rnd_le.
  unfold Rdiv. apply Rmult_le_compat_r; [left; now apply Rinv_0_lt_compat|].
  apply rnd_le. apply Rmult_le_compat_r; [lra|]. apply rnd_le. lra.
Qed.

Lemma p2d_mono x y : x <= y -> p2d x <= p2d y.
Proof. apply mapR_mono; lia. Qed.
Lemma d2p_mono x y : x <= y -> d2p x <= d2p y.
Proof. apply mapR_mono; lia. Qed.

(* ------------------------------------------------------------------ steps and guard *)

Lemma in_range_R v : in_range DR v = true <-> 0 <= v <= 100.
Proof.
  unfold in_range, zero. cbn [dle dZ DR T]. rewrite andb_true_iff, !Rleb_iff. tauto.
Qed.

Lemma in_range_R_false v : in_range DR v = false <-> ~ (0 <= v <= 100).
Proof. rewrite <- in_range_R. destruct (in_range DR v); split; intros; try discriminate; auto; now elim H. Qed.

Lemma step_up_R v : step_up DR v = if Rlt_dec 100 (rnd (v + 5)) then 100 else rnd (v + 5).
Proof. unfold step_up, pmin. cbn [dlt dadd dZ DR T]. unfold Rltb. now destruct (Rlt_dec 100 (rnd (v + 5))). Qed.

Lemma step_down_R v : step_down DR v = if Rlt_dec (rnd (v - 5)) 0 then 0 else rnd (v - 5).
Proof. unfold step_down, pmax. cbn [dlt dsub dZ DR T]. unfold Rltb. now destruct (Rlt_dec (rnd (v - 5)) 0). Qed.

Lemma step_up_closed v : 0 <= v <= 100 -> 0 <= step_up DR v <= 100.
Proof.
  intros [H0 H1]. rewrite step_up_R.
  assert (A : 5 <= rnd (v + 5)) by (apply (rnd_lb _ 5); [zb|lra]).
  destruct (Rlt_dec 100 (rnd (v + 5))); lra.
Qed.

Lemma step_down_closed v : 0 <= v <= 100 -> 0 <= step_down DR v <= 100.
Proof.
  intros [H0 H1]. rewrite step_down_R.
  assert (A : rnd (v - 5) <= 95) by (apply (rnd_ub _ 95); [zb|lra]).
  destruct (Rlt_dec (rnd (v - 5)) 0); lra.
Qed.

(* a step never moves the level the wrong way *)
Lemma step_up_ge v : generic_format radix2 fexp v -> 0 <= v <= 100 -> v <= step_up DR v.
Proof.
  intros F [H0 H1]. rewrite step_up_R.
  assert (A : v <= rnd (v + 5)).
  { rewrite <- (round_generic radix2 fexp ZnearestE v F) at 1. apply rnd_le. lra. }
  destruct (Rlt_dec 100 (rnd (v + 5))); lra.
Qed.

Lemma step_down_le v : generic_format radix2 fexp v -> 0 <= v <= 100 -> step_down DR v <= v.
Proof.
  intros F [H0 H1]. rewrite step_down_R.
  assert (A : rnd (v - 5) <= v).
  { rewrite <- (round_generic radix2 fexp ZnearestE v F) at 2. apply rnd_le. lra. }
  destruct (Rlt_dec (rnd (v - 5)) 0); lra.
Qed.

(* ------------------------------------------------------------------ round-trip error bound *)

Lemma rnd_err2 t B : Rabs t <= B -> - (u53 * B + tiny) <= rnd t - t <= u53 * B + tiny.
Proof. intros H. apply Rabs_le_inv. now apply rnd_err. Qed.

Lemma roundtrip_err x : 0 <= x <= 100 -> Rabs (d2p (p2d x) - x) <= 800 * u53 + 14 * tiny.
Proof.
  intros [H0 H1].
  pose proof (p2d_closed x (conj H0 H1)) as Dc.
  unfold d2p, p2d, mapR in *.
  change (0 - -30)%Z with 30%Z in *. change (100 - 0)%Z with 100%Z in *.
  set (a0 := rnd (x - 0)) in *.
  set (m := rnd (a0 * 30)) in *.
  set (q := rnd (m / 100)) in *.
  set (d := rnd (q + -30)) in *.
  set (s := rnd (d - -30)).
  set (t := rnd (s * 100)).
  set (w := rnd (t / 30)).
  set (y := rnd (w + 0)).
  assert (A0: 0 <= a0 <= 100) by (split; [apply (rnd_lb _ 0)|apply (rnd_ub _ 100)]; [zb|lra|zb|lra]).
  assert (Am: 0 <= m <= 3000) by (split; [apply (rnd_lb _ 0)|apply (rnd_ub _ 3000)]; [zb|lra|zb|lra]).
  assert (Aq: 0 <= q <= 30) by (split; [apply (rnd_lb _ 0)|apply (rnd_ub _ 30)]; [zb|lra|zb|lra]).
  assert (As: 0 <= s <= 30) by (split; [apply (rnd_lb _ 0)|apply (rnd_ub _ 30)]; [zb|lra|zb|lra]).
  assert (At: 0 <= t <= 3000) by (split; [apply (rnd_lb _ 0)|apply (rnd_ub _ 3000)]; [zb|lra|zb|lra]).
  assert (Aw: 0 <= w <= 100) by (split; [apply (rnd_lb _ 0)|apply (rnd_ub _ 100)]; [zb|lra|zb|lra]).
  assert (E0 := rnd_err2 (x - 0) 100 ltac:(apply Rabs_le; lra)). fold a0 in E0.
  assert (E1 := rnd_err2 (a0 * 30) 3000 ltac:(apply Rabs_le; lra)). fold m in E1.
  assert (E2 := rnd_err2 (m / 100) 30 ltac:(apply Rabs_le; lra)). fold q in E2.
  assert (E3 := rnd_err2 (q + -30) 30 ltac:(apply Rabs_le; lra)). fold d in E3.
  assert (E4 := rnd_err2 (d - -30) 30 ltac:(apply Rabs_le; lra)). fold s in E4.
  assert (E5 := rnd_err2 (s * 100) 3000 ltac:(apply Rabs_le; lra)). fold t in E5.
  assert (E6 := rnd_err2 (t / 30) 100 ltac:(apply Rabs_le; lra)). fold w in E6.
  assert (E7 := rnd_err2 (w + 0) 100 ltac:(apply Rabs_le; lra)). fold y in E7.
  assert (Pu : 0 <= u53) by apply bpow_ge_0.
  assert (Pt : 0 <= tiny) by apply bpow_ge_0.
  apply Rabs_le. lra.
Qed.

Lemma err_const : 800 * u53 + 14 * tiny <= bpow radix2 (-43).
Proof.
  assert (T : tiny <= u53) by (apply bpow_le; lia).
  assert (Pu : 0 <= u53) by apply bpow_ge_0.
  replace (bpow radix2 (-43)) with (1024 * u53).
  - lra.
  - unfold u53. change (-43)%Z with (10 + -53)%Z. rewrite bpow_plus.
    change (bpow radix2 10) with (IZR (Zpower_pos radix2 10)). f_equal.
Qed.

Lemma roundtrip_bound x d y :
  0 < x <= 100 -> pct_to_dbfs DR x = Ok d -> dbfs_to_pct DR d = Ok y ->
  Rabs (y - x) <= bpow radix2 (-43).
Proof.
  intros [H0 H1] Hd Hy.
  rewrite pct_to_dbfs_R in Hd.
  destruct (Req_EM_T x 0) as [E|E]; [lra|].
  destruct (Rlt_dec x 0) as [L|L]; [lra|].
  destruct (Rlt_dec 100 x) as [G|G]; [lra|].
  injection Hd as <-.
  pose proof (p2d_closed x ltac:(lra)) as Dc.
  rewrite dbfs_to_pct_R in Hy.
  destruct (Rlt_dec (p2d x) (-30)) as [L2|L2]; [lra|].
  destruct (Rlt_dec 0 (p2d x)) as [G2|G2]; [lra|].
  injection Hy as <-.
  eapply Rle_trans; [apply roundtrip_err; lra | apply err_const].
Qed.
