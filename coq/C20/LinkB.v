(* C20 - Flocq's binary64 (domain DB: bit-level floats with NaN, infinities, signed zeros)
   refines the rounded-real domain DR on finite values: every function of the volume path
   computes, on finite binary64 inputs, a finite binary64 result whose real value is what
   the DR model computes - so the DR theorems (closure, monotonicity, error bound, steps)
   hold for the bit-level arithmetic.  Uses only Flocq's proved specifications of
   Bplus/Bminus/Bmult/Bdiv/Bcompare (no float axioms). *)
From Coq Require Import Reals Lra ZArith Lia Bool List.
From Flocq Require Import Core BinarySingleNaN.
From PV Require Import C20.Model C20.ModelR C20.ModelB C20.ProofsR C20.ProofsM.
Import ListNotations.
Open Scope R_scope.

Definition fin (x : bf) : Prop := is_finite x = true.

Definition rel (a : res bf) (b : res R) : Prop :=
  match a, b with
  | Ok u, Ok r => fin u /\ B2R u = r
  | Raise e, Raise e' => e = e'
  | _, _ => False
  end.

(* ------------------------------------------------------------------ no overflow below 2^30 *)

Lemma rnd_abs_le t : Rabs t <= bpow radix2 30 -> Rabs (rnd t) <= bpow radix2 30.
Proof.
  intros H. apply abs_round_le_generic; try typeclasses eauto; [|exact H].
  apply generic_format_bpow. unfold fexp, FLT_exp. simpl. lia.
Qed.

Lemma no_ovf t : Rabs t <= bpow radix2 30 -> Rlt_bool (Rabs (rnd t)) (bpow radix2 1024) = true.
Proof.
  intros H. apply Rlt_bool_true. eapply Rle_lt_trans; [apply rnd_abs_le, H|]. apply bpow_lt. lia.
Qed.

Lemma b30 : bpow radix2 30 = 1073741824.
Proof. simpl. lra. Qed.

(* ------------------------------------------------------------------ one operation at a time *)

Lemma bplus_ok a b : fin a -> fin b -> Rabs (B2R a + B2R b) <= bpow radix2 30 ->
  B2R (bplus a b) = rnd (B2R a + B2R b) /\ fin (bplus a b).
Proof.
  intros Ha Hb Hs. pose proof (Bplus_correct 53 1024 P53 PL53 mode_NE a b Ha Hb) as C.
  assert (E : Rlt_bool (Rabs (round radix2 (SpecFloat.fexp 53 1024) (round_mode mode_NE) (B2R a + B2R b)))
                       (bpow radix2 1024) = true) by exact (no_ovf _ Hs).
  rewrite E in C. destruct C as (C1 & C2 & _). split; [exact C1 | exact C2].
Qed.

Lemma bminus_ok a b : fin a -> fin b -> Rabs (B2R a - B2R b) <= bpow radix2 30 ->
  B2R (bminus a b) = rnd (B2R a - B2R b) /\ fin (bminus a b).
Proof.
  intros Ha Hb Hs. pose proof (Bminus_correct 53 1024 P53 PL53 mode_NE a b Ha Hb) as C.
  assert (E : Rlt_bool (Rabs (round radix2 (SpecFloat.fexp 53 1024) (round_mode mode_NE) (B2R a - B2R b)))
                       (bpow radix2 1024) = true) by exact (no_ovf _ Hs).
  rewrite E in C. destruct C as (C1 & C2 & _). split; [exact C1 | exact C2].
Qed.

Lemma bmult_ok a b : fin a -> fin b -> Rabs (B2R a * B2R b) <= bpow radix2 30 ->
  B2R (bmult a b) = rnd (B2R a * B2R b) /\ fin (bmult a b).
Proof.
  intros Ha Hb Hs. pose proof (Bmult_correct 53 1024 P53 PL53 mode_NE a b) as C.
  assert (E : Rlt_bool (Rabs (round radix2 (SpecFloat.fexp 53 1024) (round_mode mode_NE) (B2R a * B2R b)))
                       (bpow radix2 1024) = true) by exact (no_ovf _ Hs).
  rewrite E in C. destruct C as (C1 & C2 & _). split; [exact C1|].
  unfold fin in *. unfold bmult. rewrite C2, Ha, Hb. reflexivity.
Qed.

Lemma bdiv_ok a b : fin a -> B2R b <> 0 -> Rabs (B2R a / B2R b) <= bpow radix2 30 ->
  B2R (bdiv a b) = rnd (B2R a / B2R b) /\ fin (bdiv a b).
Proof.
  intros Ha Hb Hs. pose proof (Bdiv_correct 53 1024 P53 PL53 mode_NE a b Hb) as C.
  assert (E : Rlt_bool (Rabs (round radix2 (SpecFloat.fexp 53 1024) (round_mode mode_NE) (B2R a / B2R b)))
                       (bpow radix2 1024) = true) by exact (no_ovf _ Hs).
  rewrite E in C. destruct C as (C1 & C2 & _). split; [exact C1|].
  unfold fin in *. unfold bdiv. rewrite C2. exact Ha.
Qed.

Lemma bZ_ok z : (Z.abs z <= 1000000)%Z -> B2R (bZ z) = IZR z /\ fin (bZ z).
Proof.
  intros Hz. pose proof (binary_normalize_correct 53 1024 P53 PL53 mode_NE z 0 false) as C.
  cbv zeta in C.
  assert (F : F2R (Float radix2 z 0) = IZR z) by (unfold F2R; simpl; ring).
  rewrite F in C.
  assert (A : Rabs (IZR z) <= bpow radix2 30).
  { rewrite <- abs_IZR, b30. apply IZR_le. lia. }
  assert (E : Rlt_bool (Rabs (round radix2 (SpecFloat.fexp 53 1024) (round_mode mode_NE) (IZR z)))
                       (bpow radix2 1024) = true) by exact (no_ovf _ A).
  rewrite E in C. destruct C as (C1 & C2 & _). split; [|exact C2].
  unfold bZ. rewrite C1. apply (rnd_Z z). lia.
Qed.

(* comparisons of finite values are comparisons of their real values *)
Lemma bltb_R a b : fin a -> fin b -> bltb a b = Rltb (B2R a) (B2R b).
Proof.
  intros Ha Hb. unfold bltb, Rltb. rewrite (Bcompare_correct 53 1024 a b Ha Hb).
  destruct (Rcompare_spec (B2R a) (B2R b)); destruct (Rlt_dec (B2R a) (B2R b)); try reflexivity; lra.
Qed.

Lemma bleb_R a b : fin a -> fin b -> bleb a b = Rleb (B2R a) (B2R b).
Proof.
  intros Ha Hb. unfold bleb, Rleb. rewrite (Bcompare_correct 53 1024 a b Ha Hb).
  destruct (Rcompare_spec (B2R a) (B2R b)); destruct (Rle_dec (B2R a) (B2R b)); try reflexivity; lra.
Qed.

Lemma beqb_R a b : fin a -> fin b -> beqb a b = Reqb (B2R a) (B2R b).
Proof.
  intros Ha Hb. unfold beqb, Reqb. rewrite (Bcompare_correct 53 1024 a b Ha Hb).
  destruct (Rcompare_spec (B2R a) (B2R b)); destruct (Req_EM_T (B2R a) (B2R b)); try reflexivity; lra.
Qed.

(* ------------------------------------------------------------------ map_range on integer ranges *)

Definition tinyZ (z : Z) : Prop := (Z.abs z <= 1000)%Z.

Lemma le30 x : Rabs x <= 10000000 -> Rabs x <= bpow radix2 30.
Proof. rewrite b30. lra. Qed.

Lemma map_range_B v za zb zc zd :
  fin v -> tinyZ za -> tinyZ zb -> tinyZ zc -> tinyZ zd -> (za < zb)%Z -> (zc < zd)%Z ->
  rel (map_range DB v (bZ za) (bZ zb) (bZ zc) (bZ zd))
      (map_range DR (B2R v) (IZR za) (IZR zb) (IZR zc) (IZR zd)).
Proof.
  unfold tinyZ. intros Fv Ta Tb Tc Td Hab Hcd.
  destruct (bZ_ok za ltac:(lia)) as [Ra Fa]. destruct (bZ_ok zb ltac:(lia)) as [Rb Fb].
  destruct (bZ_ok zc ltac:(lia)) as [Rc Fc]. destruct (bZ_ok zd ltac:(lia)) as [Rd Fd].
  destruct (bZ_ok 0 ltac:(lia)) as [R0 F0].
  assert (Ba : -1000 <= IZR za <= 1000) by (split; apply IZR_le; lia).
  assert (Bb : -1000 <= IZR zb <= 1000) by (split; apply IZR_le; lia).
  assert (Bc : -1000 <= IZR zc <= 1000) by (split; apply IZR_le; lia).
  assert (Bd : -1000 <= IZR zd <= 1000) by (split; apply IZR_le; lia).
  assert (Pab : 1 <= IZR (zb - za) <= 2000) by (split; apply IZR_le; lia).
  assert (Pcd : 1 <= IZR (zd - zc) <= 2000) by (split; apply IZR_le; lia).
  (* the two spans *)
  destruct (bminus_ok (bZ zb) (bZ za) Fb Fa) as [Rsi Fsi].
  { rewrite Ra, Rb. apply le30, Rabs_le. lra. }
  destruct (bminus_ok (bZ zd) (bZ zc) Fd Fc) as [Rso Fso].
  { rewrite Rc, Rd. apply le30, Rabs_le. lra. }
  rewrite Ra, Rb in Rsi. rewrite (rnd_Zminus zb za) in Rsi by lia.
  rewrite Rc, Rd in Rso. rewrite (rnd_Zminus zd zc) in Rso by lia.
  destruct (Rlt_dec (B2R v) (IZR za)) as [Lo|Lo];
    [|destruct (Rlt_dec (IZR zb) (B2R v)) as [Hi|Hi]].
  - (* below the range *)
    rewrite (map_range_R_out (B2R v) za zb zc zd) by (unfold smallZ; try lia; now left).
    unfold map_range, zero. cbn [dle dsub dlt dZ DB T].
    rewrite (bleb_R _ _ Fsi F0), Rsi, R0, (Rleb_false _ 0) by lra.
    rewrite (bleb_R _ _ Fso F0), Rso, R0, (Rleb_false _ 0) by lra.
    rewrite (bltb_R _ _ Fv Fa), Ra, (Rltb_true _ _ Lo). reflexivity.
  - (* above the range *)
    rewrite (map_range_R_out (B2R v) za zb zc zd) by (unfold smallZ; try lia; now right).
    unfold map_range, zero. cbn [dle dsub dlt dZ DB T].
    rewrite (bleb_R _ _ Fsi F0), Rsi, R0, (Rleb_false _ 0) by lra.
    rewrite (bleb_R _ _ Fso F0), Rso, R0, (Rleb_false _ 0) by lra.
    rewrite (bltb_R _ _ Fv Fa), Ra, (Rltb_false _ _ Lo).
    rewrite (bltb_R _ _ Fb Fv), Rb, (Rltb_true _ _ Hi). reflexivity.
  - (* inside *)
    assert (In : IZR za <= B2R v <= IZR zb) by lra.
    rewrite (map_range_R_ok (B2R v) za zb zc zd) by (unfold smallZ; try lia; exact In).
    assert (Dv : 0 <= B2R v - IZR za <= IZR (zb - za)) by (rewrite minus_IZR; lra).
    destruct (bminus_ok v (bZ za) Fv Fa) as [R1 F1].
    { rewrite Ra. apply le30, Rabs_le. lra. }
    rewrite Ra in R1.
    assert (B1 : 0 <= B2R (bminus v (bZ za)) <= 2000).
    { rewrite R1. split; [apply (rnd_lb _ 0)|apply (rnd_ub _ 2000)]; [zb|lra|zb|lra]. }
    destruct (bmult_ok (bminus v (bZ za)) (bminus (bZ zd) (bZ zc)) F1 Fso) as [R2 F2].
    { rewrite Rso. apply le30, Rabs_le. split.
      - apply Rle_trans with 0; [lra|]. apply Rmult_le_pos; lra.
      - apply Rle_trans with (2000 * 2000); [apply Rmult_le_compat; lra | lra]. }
    rewrite Rso, R1 in R2.
    assert (B2 : 0 <= B2R (bmult (bminus v (bZ za)) (bminus (bZ zd) (bZ zc))) <= 4000000).
    { rewrite R2. rewrite <- R1. split; [apply (rnd_lb _ 0)|apply (rnd_ub _ 4000000)]; [zb| |zb| ].
      - apply Rmult_le_pos; lra.
      - apply Rle_trans with (2000 * 2000); [apply Rmult_le_compat; lra | lra]. }
    assert (Q : forall x, 0 <= x <= 4000000 -> 0 <= x / IZR (zb - za) <= 4000000).
    { intros x Hx. unfold Rdiv.
      assert (I1 : 0 < / IZR (zb - za) <= 1).
      { split; [apply Rinv_0_lt_compat; lra|]. rewrite <- Rinv_1. apply Rinv_le_contravar; lra. }
      split; [apply Rmult_le_pos; lra|].
      apply Rle_trans with (x * 1); [apply Rmult_le_compat_l; lra | lra]. }
    destruct (bdiv_ok (bmult (bminus v (bZ za)) (bminus (bZ zd) (bZ zc))) (bminus (bZ zb) (bZ za)) F2) as [R3 F3].
    { rewrite Rsi. lra. }
    { rewrite Rsi. apply le30, Rabs_le. specialize (Q _ B2). lra. }
    rewrite Rsi, R2 in R3.
    assert (B3 : 0 <= B2R (bdiv (bmult (bminus v (bZ za)) (bminus (bZ zd) (bZ zc))) (bminus (bZ zb) (bZ za))) <= 4000000).
    { rewrite R3. rewrite <- R2. specialize (Q _ B2).
      split; [apply (rnd_lb _ 0)|apply (rnd_ub _ 4000000)]; [zb|lra|zb|lra]. }
    destruct (bplus_ok _ (bZ zc) F3 Fc) as [R4 F4].
    { rewrite Rc. apply le30, Rabs_le. lra. }
    rewrite Rc, R3 in R4.
    unfold map_range, pdiv, zero. cbn [dle dsub dlt dmul ddiv dadd deq dZ DB T].
    rewrite (bleb_R _ _ Fsi F0), Rsi, R0, (Rleb_false _ 0) by lra.
    rewrite (bleb_R _ _ Fso F0), Rso, R0, (Rleb_false _ 0) by lra.
    rewrite (bltb_R _ _ Fv Fa), Ra, (Rltb_false _ _ Lo).
    rewrite (bltb_R _ _ Fb Fv), Rb, (Rltb_false _ _ Hi).
    rewrite (beqb_R _ _ Fsi F0), Rsi, R0, (Reqb_false _ 0) by lra.
    cbn [bind rel]. split; [exact F4|]. unfold mapR. exact R4.
Qed.

(* ------------------------------------------------------------------ the functions of the volume path *)

Lemma pct_to_dbfs_B x : fin x -> rel (pct_to_dbfs DB x) (pct_to_dbfs DR (B2R x)).
Proof.
  intros Fx. destruct (bZ_ok 0 ltac:(lia)) as [R0 F0]. destruct (bZ_ok (-144) ltac:(lia)) as [Rm Fm].
  unfold pct_to_dbfs, zero, MUTED, PERCENTAGE_MIN, PERCENTAGE_MAX, DBFS_MIN, DBFS_MAX.
  cbn [deq dZ DB DR T].
  rewrite (beqb_R _ _ Fx F0), R0.
  destruct (Reqb (B2R x) 0).
  - cbn [rel]. split; [exact Fm | exact Rm].
  - apply map_range_B; unfold tinyZ; try lia. exact Fx.
Qed.

Lemma dbfs_to_pct_B l : fin l -> rel (dbfs_to_pct DB l) (dbfs_to_pct DR (B2R l)).
Proof.
  intros Fl. destruct (bZ_ok 0 ltac:(lia)) as [R0 F0]. destruct (bZ_ok (-30) ltac:(lia)) as [Rm Fm].
  unfold dbfs_to_pct, PERCENTAGE_MIN, PERCENTAGE_MAX, DBFS_MIN, DBFS_MAX.
  cbn [dlt dZ DB DR T].
  rewrite (bltb_R _ _ Fl Fm), Rm.
  destruct (Rltb (B2R l) (-30)).
  - cbn [rel]. split; [exact F0 | exact R0].
  - rewrite (bltb_R _ _ F0 Fl), R0.
    destruct (Rltb 0 (B2R l)); [reflexivity|].
    apply map_range_B; unfold tinyZ; try lia. exact Fl.
Qed.

(* the facade guard on EVERY binary64 value, NaN and infinities included *)
Lemma in_range_B x : in_range DB x = true <-> fin x /\ 0 <= B2R x <= 100.
Proof.
  destruct (bZ_ok 0 ltac:(lia)) as [R0 F0]. destruct (bZ_ok 100 ltac:(lia)) as [Rh Fh].
  unfold in_range, zero. cbn [dle dZ DB T].
  destruct (is_finite x) eqn:Fx.
  - rewrite (bleb_R _ _ F0 Fx), (bleb_R _ _ Fx Fh), R0, Rh, andb_true_iff, !Rleb_iff.
    unfold fin. tauto.
  - split; [|unfold fin; intros [H _]; congruence].
    intros H. exfalso. apply andb_true_iff in H. destruct H as [H1 H2].
    destruct x as [s|s| |s m e Hb]; try discriminate Fx.
    + (* infinity *) destruct s.
      * (* -inf: 0 <= -inf fails *) revert H1. unfold bleb. destruct (bZ 0); try discriminate; simpl;
          try destruct s; discriminate.
      * (* +inf: +inf <= 100 fails *) revert H2. unfold bleb. destruct (bZ 100); try discriminate; simpl;
          try destruct s; discriminate.
    + (* NaN *) revert H1. unfold bleb. destruct (bZ 0); discriminate.
Qed.

Lemma step_up_B v : fin v -> Rabs (B2R v) <= 1000000 ->
  fin (step_up DB v) /\ B2R (step_up DB v) = step_up DR (B2R v).
Proof.
  intros Fv Bv. destruct (bZ_ok 5 ltac:(lia)) as [R5 F5]. destruct (bZ_ok 100 ltac:(lia)) as [Rh Fh].
  apply Rabs_le_inv in Bv.
  destruct (bplus_ok v (bZ 5) Fv F5) as [R1 F1].
  { rewrite R5. apply le30, Rabs_le. lra. }
  rewrite R5 in R1.
  unfold step_up, pmin. cbn [dlt dadd dZ DB DR T].
  change (bplus v (bZ 5)) with (bplus v (bZ 5)).
  rewrite (bltb_R _ _ Fh F1), Rh, R1.
  destruct (Rltb 100 (rnd (B2R v + 5))); [split; [exact Fh | exact Rh] | split; [exact F1 | exact R1]].
Qed.

Lemma step_down_B v : fin v -> Rabs (B2R v) <= 1000000 ->
  fin (step_down DB v) /\ B2R (step_down DB v) = step_down DR (B2R v).
Proof.
  intros Fv Bv. destruct (bZ_ok 5 ltac:(lia)) as [R5 F5]. destruct (bZ_ok 0 ltac:(lia)) as [R0 F0].
  apply Rabs_le_inv in Bv.
  destruct (bminus_ok v (bZ 5) Fv F5) as [R1 F1].
  { rewrite R5. apply le30, Rabs_le. lra. }
  rewrite R5 in R1.
  unfold step_down, pmax. cbn [dlt dsub dZ DB DR T].
  rewrite (bltb_R _ _ F1 F0), R0, R1.
  destruct (Rltb (rnd (B2R v - 5)) 0); [split; [exact F0 | exact R0] | split; [exact F1 | exact R1]].
Qed.

(* ------------------------------------------------------------------ consequences on bit-level values *)

Lemma set_then_read_B x :
  in_range DB x = true ->
  exists d y, pct_to_dbfs DB x = Ok d /\ dbfs_to_pct DB d = Ok y /\
              fin d /\ (B2R d = -144 \/ -30 <= B2R d <= 0) /\
              fin y /\ 0 <= B2R y <= 100 /\ Rabs (B2R y - B2R x) <= bpow radix2 (-43).
Proof.
  intros G. apply in_range_B in G. destruct G as [Fx Hx].
  destruct (pct_to_dbfs_total (B2R x) Hx) as (dr' & Ed & Gd').
  destruct (dbfs_to_pct_total dr' (dbfs_good_le0 _ Gd')) as (yr' & Ey & Gy').
  pose proof (pct_to_dbfs_B x Fx) as L1. rewrite Ed in L1.
  destruct (pct_to_dbfs DB x) as [d|e] eqn:E1; [|contradiction]. cbn [rel] in L1. destruct L1 as [Fd Rd].
  pose proof (dbfs_to_pct_B d Fd) as L2. rewrite Rd, Ey in L2.
  destruct (dbfs_to_pct DB d) as [y|e] eqn:E2; [|contradiction]. cbn [rel] in L2. destruct L2 as [Fy Ry].
  exists d, y. split; [reflexivity|]. split; [exact E2|].
  rewrite Rd, Ry. split; [exact Fd|]. split; [exact Gd'|]. split; [exact Fy|]. split; [exact Gy'|].
  destruct (Req_EM_T (B2R x) 0) as [Z|NZ].
  - rewrite Z in *. rewrite pct_to_dbfs_R in Ed. destruct (Req_EM_T 0 0); [|contradiction].
    injection Ed as <-. rewrite dbfs_to_pct_R in Ey. destruct (Rlt_dec (-144) (-30)); [|lra].
    injection Ey as <-. rewrite Rminus_0_r, Rabs_R0. apply bpow_ge_0.
  - apply (roundtrip_bound (B2R x) dr' yr'); try assumption. unfold pct_ok in Hx. lra.
Qed.

Lemma step_closed_B v :
  in_range DB v = true ->
  in_range DB (step_up DB v) = true /\ in_range DB (step_down DB v) = true /\
  B2R (step_down DB v) <= B2R v <= B2R (step_up DB v).
Proof.
  intros G. apply in_range_B in G. destruct G as [Fv Hv].
  assert (Bv : Rabs (B2R v) <= 1000000) by (apply Rabs_le; lra).
  destruct (step_up_B v Fv Bv) as [Fu Ru]. destruct (step_down_B v Fv Bv) as [Fd Rd].
  assert (Gf : generic_format radix2 fexp (B2R v)) by (apply (generic_format_B2R 53 1024 v)).
  split; [|split].
  - apply in_range_B. split; [exact Fu|]. rewrite Ru. now apply step_up_closed.
  - apply in_range_B. split; [exact Fd|]. rewrite Rd. now apply step_down_closed.
  - rewrite Ru, Rd. split; [now apply step_down_le | now apply step_up_ge].
Qed.

Lemma dbfs_read_B l :
  fin l ->
  (0 < B2R l /\ dbfs_to_pct DB l = Raise ProtocolError) \/
  (B2R l <= 0 /\ exists p, dbfs_to_pct DB l = Ok p /\ in_range DB p = true).
Proof.
  intros Fl. pose proof (dbfs_to_pct_B l Fl) as L.
  destruct (dbfs_to_pct_cases (B2R l)) as [[H E]|[H (p & E & Gp)]]; rewrite E in L.
  - left. split; [exact H|]. destruct (dbfs_to_pct DB l) as [y|e]; [contradiction|]. cbn [rel] in L. now subst e.
  - right. split; [exact H|]. destruct (dbfs_to_pct DB l) as [y|e]; [|contradiction].
    cbn [rel] in L. destruct L as [Fy Ry]. exists y. split; [reflexivity|].
    apply in_range_B. split; [exact Fy|]. rewrite Ry. exact Gp.
Qed.
