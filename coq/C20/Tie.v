(* C20 - the generated trees (Gen.v, re-emitted from the Python source on every run) denote
   exactly the hand-written functions of Model.v, in EVERY number domain.  If the source
   changes shape or constants these lemmas stop compiling, and with them Properties.v. *)
From Coq Require Import ZArith List Bool.
From PV Require Import C20.Model C20.Gen.
Import ListNotations.

Section Tie.
  Variable D : Dom.

  (* The translator normalises every function body to a chain of SIf <atomic test>; on such
     a chain the interpreter reduces by computation to nested if-then-else.  The remaining
     differences a harmless rewrite of the source can introduce (order of guards that raise
     the same exception, a test repeated) are removed by case analysis on the tests. *)
  Ltac tie_auto :=
    cbv beta iota zeta delta [run test cmp eval evals bind nth app
                              g_map_range g_pct_to_dbfs g_dbfs_to_pct g_facade_read g_facade_write
                              map_range pct_to_dbfs dbfs_to_pct in_range pdiv zero
                              DBFS_MIN DBFS_MAX PERCENTAGE_MIN PERCENTAGE_MAX MUTED andb];
    repeat match goal with
           | |- context [if ?c then _ else _] => destruct c eqn:?
           end;
    try reflexivity; try congruence.

  Lemma tie_map_range v a b c d :
    run D g_map_range [v; a; b; c; d] = map_range D v a b c d.
  Proof. tie_auto. Qed.

  Lemma tie_pct_to_dbfs x : run D g_pct_to_dbfs [x] = pct_to_dbfs D x.
  Proof. tie_auto. Qed.

  Lemma tie_dbfs_to_pct x : run D g_dbfs_to_pct [x] = dbfs_to_pct D x.
  Proof. tie_auto. Qed.

  Definition guarded (v : T D) : res (T D) := if in_range D v then Ok v else Raise ProtocolError.

  Lemma tie_facade_read v : run D g_facade_read [v] = guarded v.
  Proof. unfold guarded. tie_auto. Qed.

  Lemma tie_facade_write v : run D g_facade_write [v] = guarded v.
  Proof. unfold guarded. tie_auto. Qed.

  Lemma tie_raop_up v : run D g_raop_volume_up [v] = Ok (step_up D v).
  Proof. reflexivity. Qed.
  Lemma tie_raop_down v : run D g_raop_volume_down [v] = Ok (step_down D v).
  Proof. reflexivity. Qed.
  Lemma tie_mrp_up v : run D g_mrp_volume_up [v] = Ok (step_up D v).
  Proof. reflexivity. Qed.
  Lemma tie_mrp_down v : run D g_mrp_volume_down [v] = Ok (step_down D v).
  Proof. reflexivity. Qed.

  Lemma tie_constants :
    dZ D g_DBFS_MIN = DBFS_MIN D /\ dZ D g_DBFS_MAX = DBFS_MAX D /\
    dZ D g_PERCENTAGE_MIN = PERCENTAGE_MIN D /\ dZ D g_PERCENTAGE_MAX = PERCENTAGE_MAX D /\
    dZ D g_INITIAL_VOLUME = INITIAL_VOLUME D.
  Proof. repeat split. Qed.
End Tie.
