(* C20 - the generated trees (Gen.v, re-emitted from the Python source on every run) denote
   exactly the hand-written functions of Model.v, in EVERY number domain.  If the source
   changes shape or constants these lemmas stop compiling, and with them Properties.v. *)
From Coq Require Import ZArith List Bool.
From PV Require Import C20.Model C20.Gen.
Import ListNotations.

Section Tie.
  Variable D : Dom.

  Lemma tie_map_range v a b c d :
    run D g_map_range [v; a; b; c; d] = map_range D v a b c d.
  Proof.
    unfold map_range, pdiv, zero. cbn. unfold pdiv, zero.
    destruct (dle D (dsub D b a) (dZ D 0)) eqn:E1; [reflexivity|].
    destruct (dle D (dsub D d c) (dZ D 0)) eqn:E2; [reflexivity|].
    cbn. destruct (dlt D v a) eqn:E3; [reflexivity|].
    cbn. destruct (dlt D b v) eqn:E4; [reflexivity|].
    cbn. destruct (deq D (dsub D b a) (dZ D 0)); reflexivity.
  Qed.

  Lemma tie_pct_to_dbfs x : run D g_pct_to_dbfs [x] = pct_to_dbfs D x.
  Proof.
    unfold pct_to_dbfs, g_pct_to_dbfs, zero. cbn -[g_map_range map_range]. unfold zero.
    destruct (deq D x (dZ D 0)) eqn:E; [reflexivity|].
    cbn -[g_map_range map_range]. apply tie_map_range.
  Qed.

  Lemma tie_dbfs_to_pct x : run D g_dbfs_to_pct [x] = dbfs_to_pct D x.
  Proof.
    unfold dbfs_to_pct, g_dbfs_to_pct, DBFS_MIN, DBFS_MAX, PERCENTAGE_MIN, PERCENTAGE_MAX. cbn -[g_map_range map_range].
    destruct (dlt D x (dZ D (-30))) eqn:E1; [reflexivity|].
    cbn -[g_map_range map_range].
    destruct (dlt D (dZ D 0) x) eqn:E2; [reflexivity|].
    cbn -[g_map_range map_range]. apply tie_map_range.
  Qed.

  Definition guarded (v : T D) : res (T D) := if in_range D v then Ok v else Raise ProtocolError.

  Lemma tie_facade_read v : run D g_facade_read [v] = guarded v.
  Proof.
    unfold guarded, in_range. cbn. unfold zero.
    destruct (dle D (dZ D 0) v); cbn; [|reflexivity].
    destruct (dle D v (dZ D 100)); reflexivity.
  Qed.

  Lemma tie_facade_write v : run D g_facade_write [v] = guarded v.
  Proof.
    unfold guarded, in_range. cbn. unfold zero.
    destruct (dle D (dZ D 0) v); cbn; [|reflexivity].
    destruct (dle D v (dZ D 100)); reflexivity.
  Qed.

  Lemma tie_raop_up v : run D g_raop_volume_up [v] = Ok (step_up D v).
  Proof. reflexivity. Qed.
  Lemma tie_raop_down v : run D g_raop_volume_down [v] = Ok (step_down D v).
  Proof. reflexivity. Qed.
  Lemma tie_mrp_up v : run D g_mrp_volume_up [v] = Ok (step_up D v).
  Proof. reflexivity. Qed.
  Lemma tie_mrp_down v : run D g_mrp_volume_down [v] = Ok (step_down D v).
  Proof. reflexivity. Qed.

  Lemma tie_constants :
    dZ D g_DBFS_MIN = DBFS_MIN D /\ dZ D g_DBFS_MAX = DBFS_MAX D /\
    dZ D g_PERCENTAGE_MIN = PERCENTAGE_MIN D /\ dZ D g_PERCENTAGE_MAX = PERCENTAGE_MAX D /\
    dZ D g_INITIAL_VOLUME = INITIAL_VOLUME D.
  Proof. repeat split. Qed.
End Tie.
