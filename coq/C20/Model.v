(* C20 - volume stays within 0..100 percent end to end.

   What is mirrored here (pyatv as it stands in /repo):

     pyatv/support/__init__.py        map_range
     pyatv/protocols/airplay/utils.py pct_to_dbfs, dbfs_to_pct (+ the four range constants)
     pyatv/core/facade.py             FacadeAudio.volume / set_volume range guards,
                                      FacadeAudio._volume_changed (listener push)
     pyatv/protocols/raop/__init__.py RaopAudio.volume / set_volume / volume_up / volume_down /
                                      _volume_changed (incl. the echo of its own dispatch)
     pyatv/protocols/mrp/__init__.py  MrpAudio.volume / set_volume / volume_up / volume_down

   The arithmetic is written ONCE, over an abstract number domain [Dom]; the
   domains are instances:
       DQ  exact rationals            (this file)       - the formula
       DF  Coq primitive binary64     (this file)       - executed, compared bit for bit with Python
       DR  reals with every operation rounded to binary64 by Flocq's [round]   (ModelR.v)
       DB  Flocq's bit-level binary64 (ModelB.v)        - executed AND proved to refine DR (LinkB.v)
   The translator (harness/c20.py gen) re-emits the same functions from the Python ast
   as ONE deep-embedded tree per function (coq/C20/Gen.v); [run] below is the single
   interpreter for all domains, and Tie.v proves [run D Gen.f = f D] for every D.

   No proofs in this file. *)
From Coq Require Import ZArith QArith List Bool PrimFloat Uint63.
Import ListNotations.

(* ------------------------------------------------------------------ results *)

Inductive exn := ValueError | ProtocolError | ZeroDivisionError | OtherError.  (* OtherError: never produced by the model *)

Inductive res (A : Type) := Ok (a : A) | Raise (e : exn).
Arguments Ok {A} a.
Arguments Raise {A} e.

Definition bind {A B} (r : res A) (f : A -> res B) : res B :=
  match r with Ok a => f a | Raise e => Raise e end.

Definition exn_eqb (a b : exn) : bool :=
  match a, b with
  | ValueError, ValueError | ProtocolError, ProtocolError
  | ZeroDivisionError, ZeroDivisionError | OtherError, OtherError => true
  | _, _ => false
  end.

(* ------------------------------------------------------------------ number domains *)

Record Dom := {
  T : Type;
  dZ : Z -> T;                 (* integer-valued literal *)
  dadd : T -> T -> T;
  dsub : T -> T -> T;
  dmul : T -> T -> T;
  ddiv : T -> T -> T;
  dlt : T -> T -> bool;        (* a < b   (a > b is dlt b a) *)
  dle : T -> T -> bool;        (* a <= b  (a >= b is dle b a) *)
  deq : T -> T -> bool         (* a == b *)
}.

(* exact rationals *)
Definition Qltb (a b : Q) : bool := negb (Qle_bool b a).
Definition DQ : Dom := {|
  T := Q; dZ := inject_Z;
  dadd := Qplus; dsub := Qminus; dmul := Qmult; ddiv := Qdiv;
  dlt := Qltb; dle := Qle_bool; deq := Qeq_bool |}.

(* Coq primitive floats = IEEE 754 binary64, round to nearest even (what CPython uses) *)
Definition fZ (z : Z) : float :=
  match z with
  | Z0 => PrimFloat.zero
  | Zpos _ => PrimFloat.of_uint63 (Uint63.of_Z z)
  | Zneg p => PrimFloat.opp (PrimFloat.of_uint63 (Uint63.of_Z (Zpos p)))
  end.
Definition DF : Dom := {|
  T := float; dZ := fZ;
  dadd := PrimFloat.add; dsub := PrimFloat.sub; dmul := PrimFloat.mul; ddiv := PrimFloat.div;
  dlt := PrimFloat.ltb; dle := PrimFloat.leb; deq := PrimFloat.eqb |}.

(* ------------------------------------------------------------------ the embedded language
   (target of the translator; subset of Python: arithmetic, comparisons, builtin min/max
   with two arguments, math.isclose(x, 0.0), if / return / raise, a tail call) *)

Inductive expr :=
| EVar (i : nat)
| EConst (z : Z)
| EAdd (a b : expr) | ESub (a b : expr) | EMul (a b : expr) | EDiv (a b : expr)
| EMin (a b : expr) | EMax (a b : expr).

Inductive cond :=
| CLt (a b : expr) | CLe (a b : expr) | CGt (a b : expr) | CGe (a b : expr)
| CEq (a b : expr) | CNe (a b : expr)
| CIsClose0 (a : expr)                 (* math.isclose(a, 0.0), default tolerances *)
| COr (c d : cond) | CAnd (c d : cond) | CNot (c : cond).

Inductive stmt :=
| SRet (e : expr)
| SRaise (x : exn)
| SIf (c : cond) (t : stmt) (k : stmt)  (* if c: t  [else:] k      (t always leaves the function) *)
| SLet (e : expr) (k : stmt)            (* local = e ; k           (local gets the next index) *)
| SCall (callee : stmt) (args : list expr).   (* return callee(args) *)

Section Interp.
  Variable D : Dom.
  Notation num := (T D).

  Definition zero : num := dZ D 0.

  (* Python: min(a, b) is b if b < a else a; max(a, b) is b if b > a else a *)
  Definition pmin (a b : num) : num := if dlt D b a then b else a.
  Definition pmax (a b : num) : num := if dlt D a b then b else a.

  (* true division: ZeroDivisionError on a zero divisor (float or Fraction alike) *)
  Definition pdiv (a b : num) : res num :=
    if deq D b zero then Raise ZeroDivisionError else Ok (ddiv D a b).

  Fixpoint eval (env : list num) (e : expr) : res num :=
    match e with
    | EVar i => Ok (nth i env zero)
    | EConst z => Ok (dZ D z)
    | EAdd a b => bind (eval env a) (fun x => bind (eval env b) (fun y => Ok (dadd D x y)))
    | ESub a b => bind (eval env a) (fun x => bind (eval env b) (fun y => Ok (dsub D x y)))
    | EMul a b => bind (eval env a) (fun x => bind (eval env b) (fun y => Ok (dmul D x y)))
    | EDiv a b => bind (eval env a) (fun x => bind (eval env b) (fun y => pdiv x y))
    | EMin a b => bind (eval env a) (fun x => bind (eval env b) (fun y => Ok (pmin x y)))
    | EMax a b => bind (eval env a) (fun x => bind (eval env b) (fun y => Ok (pmax x y)))
    end.

  Definition cmp (f : num -> num -> bool) env a b : res bool :=
    bind (eval env a) (fun x => bind (eval env b) (fun y => Ok (f x y))).

  Fixpoint test (env : list num) (c : cond) : res bool :=
    match c with
    | CLt a b => cmp (dlt D) env a b
    | CLe a b => cmp (dle D) env a b
    | CGt a b => cmp (fun x y => dlt D y x) env a b
    | CGe a b => cmp (fun x y => dle D y x) env a b
    | CEq a b => cmp (deq D) env a b
    | CNe a b => cmp (fun x y => negb (deq D x y)) env a b
    | CIsClose0 a => bind (eval env a) (fun x => Ok (deq D x zero))
    | COr c d => bind (test env c) (fun b => if b then Ok true else test env d)
    | CAnd c d => bind (test env c) (fun b => if b then test env d else Ok false)
    | CNot c => bind (test env c) (fun b => Ok (negb b))
    end.

  Fixpoint evals (env : list num) (es : list expr) : res (list num) :=
    match es with
    | [] => Ok []
    | e :: t => bind (eval env e) (fun x => bind (evals env t) (fun xs => Ok (x :: xs)))
    end.

  Fixpoint run (s : stmt) (env : list num) : res num :=
    match s with
    | SRet e => eval env e
    | SRaise x => Raise x
    | SIf c t k => bind (test env c) (fun b => if b then run t env else run k env)
    | SLet e k => bind (eval env e) (fun x => run k (env ++ [x]))
    | SCall f args => bind (evals env args) (fun vs => run f vs)
    end.

  (* ---------------------------------------------------------------- hand-written mirror *)

  (* pyatv/support/__init__.py:142 *)
  Definition map_range (value in_min in_max out_min out_max : num) : res num :=
    if dle D (dsub D in_max in_min) zero then Raise ValueError          (* invalid input range *)
    else if dle D (dsub D out_max out_min) zero then Raise ValueError   (* invalid output range *)
    else if dlt D value in_min then Raise ValueError                    (* input value out of range *)
    else if dlt D in_max value then Raise ValueError
    else
      bind (pdiv (dmul D (dsub D value in_min) (dsub D out_max out_min)) (dsub D in_max in_min))
           (fun q => Ok (dadd D q out_min)).

  (* pyatv/protocols/airplay/utils.py:30 *)
  Definition DBFS_MIN : num := dZ D (-30).
  Definition DBFS_MAX : num := dZ D 0.
  Definition PERCENTAGE_MIN : num := dZ D 0.
  Definition PERCENTAGE_MAX : num := dZ D 100.
  Definition MUTED : num := dZ D (-144).
  (* pyatv/protocols/raop/__init__.py:77 *)
  Definition INITIAL_VOLUME : num := dZ D 33.

  (* utils.py:282 - math.isclose(level, 0.0) with the default tolerances is level == 0.0:
     rel_tol scales with the operands and abs_tol is 0 *)
  Definition pct_to_dbfs (level : num) : res num :=
    if deq D level zero then Ok MUTED
    else map_range level PERCENTAGE_MIN PERCENTAGE_MAX DBFS_MIN DBFS_MAX.

  (* utils.py:295 (with the fix: above DBFS_MAX raises ProtocolError) *)
  Definition dbfs_to_pct (level : num) : res num :=
    if dlt D level DBFS_MIN then Ok PERCENTAGE_MIN
    else if dlt D DBFS_MAX level then Raise ProtocolError
    else map_range level DBFS_MIN DBFS_MAX PERCENTAGE_MIN PERCENTAGE_MAX.

  (* facade.py:468 / :476  -  0.0 <= v <= 100.0 *)
  Definition in_range (v : num) : bool := dle D zero v && dle D v (dZ D 100).

  (* raop/__init__.py:316 / :320 ; mrp/__init__.py:875 / :888 (the int literal 5 is 5.0) *)
  Definition step_up (v : num) : num := pmin (dadd D v (dZ D 5)) (dZ D 100).
  Definition step_down (v : num) : num := pmax (dsub D v (dZ D 5)) (dZ D 0).

  (* ---------------------------------------------------------------- observable events *)

  Inductive event :=
  | Ret (v : num)                 (* audio.volume returned v to the caller *)
  | Exc (e : exn)                 (* the call raised e to the caller *)
  | Fwd (v : num)                 (* the protocol's set_volume (RaopAudio / MrpAudio) received level v *)
  | Dev (d : num)                 (* RAOP: dBFS handed to the stream client / stored for the next stream *)
  | Key                           (* MRP relative volume: a HID key press, no level involved *)
  | Push (old new : num)          (* listener.volume_update(old, new) *)
  | Echo (d : num)                (* RaopAudio._volume_changed stored pct_to_dbfs(update) *)
  | Adopt (d : num)               (* RaopStream.stream_file took over the receiver's initialVolume (dBFS) *)
  | Swallowed (e : exn).          (* exception inside a call_soon listener: logged by the loop, nobody sees it *)

  (* ---------------------------------------------------------------- facade + RaopAudio *)

  Inductive rop :=
  | RSet (level : num)            (* await atv.audio.set_volume(level) *)
  | RUp | RDown                   (* await atv.audio.volume_up() / volume_down() *)
  | RRead                         (* atv.audio.volume *)
  | RReport (v : num)             (* some other protocol dispatches UpdatedState.Volume v *)
  | RPump                         (* the event loop runs the queued call_soon listeners *)
  | RInject (d : num)             (* the stream side stores a dBFS level in the context (device-reported) *)
  | RStream (initial : option num). (* await atv.stream.stream_file(...): a stream starts (and ends); the
                                       receiver advertises info["initialVolume"] = initial dBFS, or nothing *)

  Record rstate := {
    ctx : option num;             (* playback_manager.context.volume (dBFS) *)
    pend : list num;              (* Volume messages dispatched, listeners not yet run *)
    fvol : num                    (* FacadeAudio._volume *)
  }.

  Definition rinit : rstate := {| ctx := None; pend := []; fvol := zero |}.

  (* RaopAudio.volume *)
  Definition raop_volume (c : option num) : res num :=
    match c with None => Ok INITIAL_VOLUME | Some d => dbfs_to_pct d end.

  (* RaopAudio.set_volume - NOT behind the facade guard when reached from volume_up/down *)
  Definition raop_set (s : rstate) (level : num) : rstate * list event :=
    match pct_to_dbfs level with
    | Raise e => (s, [Fwd level; Exc e])
    | Ok d =>
        match raop_volume (Some d) with          (* dispatch(Volume, self.volume) *)
        | Raise e => ({| ctx := Some d; pend := pend s; fvol := fvol s |}, [Fwd level; Dev d; Exc e])
        | Ok v => ({| ctx := Some d; pend := pend s ++ [v]; fvol := fvol s |}, [Fwd level; Dev d])
        end
    end.

  (* one queued Volume message: FacadeAudio._volume_changed, then RaopAudio._volume_changed *)
  Definition deliver (s : rstate) (v : num) : rstate * list event :=
    let ev1 := if deq D v (fvol s) then [] else [Push (fvol s) v] in
    match pct_to_dbfs v with
    | Ok d => ({| ctx := Some d; pend := pend s; fvol := v |}, ev1 ++ [Echo d])
    | Raise e => ({| ctx := ctx s; pend := pend s; fvol := v |}, ev1 ++ [Swallowed e])
    end.

  Fixpoint deliver_all (s : rstate) (vs : list num) : rstate * list event :=
    match vs with
    | [] => (s, [])
    | v :: t => let '(s1, e1) := deliver s v in
                let '(s2, e2) := deliver_all s1 t in (s2, e1 ++ e2)
    end.

  (* RaopStream.stream_file, the part that decides the level (raop/__init__.py:389-409):
       if not self.audio.has_changed_volume and "initialVolume" in client.info:
           context.volume = initial_volume
       else:
           try:    await self.audio.set_volume(self.audio.volume)
           except Exception: volume = self.audio.volume      (deferred to send_audio)
       await client.send_audio(..., volume=volume)           (sets it only `if volume:`)
     has_changed_volume is `context.volume is not None`. *)
  Definition is_exc (e : event) : bool := match e with Exc _ => true | _ => false end.

  Definition rstream (s : rstate) (initial : option num) : rstate * list event :=
    match ctx s, initial with
    | None, Some d => ({| ctx := Some d; pend := pend s; fvol := fvol s |}, [Adopt d])
    | _, _ =>
        match raop_volume (ctx s) with
        | Raise e => (s, [Exc e])
        | Ok v =>
            let '(s1, ev) := raop_set s v in
            if existsb is_exc ev then
              let ev' := filter (fun e => negb (is_exc e)) ev in
              match raop_volume (ctx s1) with
              | Raise e2 => (s1, ev' ++ [Exc e2])
              | Ok v2 =>
                  if deq D v2 zero then (s1, ev')
                  else match pct_to_dbfs v2 with
                       | Raise e3 => (s1, ev' ++ [Exc e3])
                       | Ok d => ({| ctx := Some d; pend := pend s1; fvol := fvol s1 |}, ev' ++ [Dev d])
                       end
              end
            else (s1, ev)
        end
    end.

  Definition rstep (s : rstate) (o : rop) : rstate * list event :=
    match o with
    | RSet level =>
        if in_range level then raop_set s level else (s, [Exc ProtocolError])
    | RUp =>
        match raop_volume (ctx s) with
        | Raise e => (s, [Exc e])
        | Ok v => raop_set s (step_up v)
        end
    | RDown =>
        match raop_volume (ctx s) with
        | Raise e => (s, [Exc e])
        | Ok v => raop_set s (step_down v)
        end
    | RRead =>
        match raop_volume (ctx s) with
        | Raise e => (s, [Exc e])
        | Ok v => if in_range v then (s, [Ret v]) else (s, [Exc ProtocolError])
        end
    | RReport v => ({| ctx := ctx s; pend := pend s ++ [v]; fvol := fvol s |}, [])
    | RPump => deliver_all {| ctx := ctx s; pend := []; fvol := fvol s |} (pend s)
    | RInject d => ({| ctx := Some d; pend := pend s; fvol := fvol s |}, [])
    | RStream initial => rstream s initial
    end.

  Fixpoint rrun (s : rstate) (ops : list rop) : list (list event) :=
    match ops with
    | [] => []
    | o :: t => let '(s', ev) := rstep s o in ev :: rrun s' t
    end.

  (* ---------------------------------------------------------------- facade + MrpAudio
     volume controls available, device uid known; [absolute]/[relative] as reported by the
     device.  The device's answers arrive as MReport (value of MrpAudio._volume after
     _volume_did_change, i.e. already round(inner.volume * 100.0, 1)). *)

  Inductive mop :=
  | MSet (level : num) | MUp | MDown | MRead
  | MReport (v : num)
  | MOther (v : num).             (* VolumeDidChange for ANOTHER output device of the group: nothing changes *)

  Record mstate := { mvol : num; mabs : bool; mrel : bool }.

  Definition mstep (s : mstate) (o : mop) : mstate * list event :=
    match o with
    | MSet level => if in_range level then (s, [Fwd level]) else (s, [Exc ProtocolError])
    | MUp =>
        if mabs s && deq D (mvol s) (dZ D 100) then (s, [])
        else if mrel s then (s, [Key])
        else if mabs s then (s, [Fwd (step_up (mvol s))])
        else (s, [])
    | MDown =>
        if mabs s && deq D (mvol s) (dZ D 0) then (s, [])
        else if mrel s then (s, [Key])
        else if mabs s then (s, [Fwd (step_down (mvol s))])
        else (s, [])
    | MRead => if in_range (mvol s) then (s, [Ret (mvol s)]) else (s, [Exc ProtocolError])
    | MReport v => ({| mvol := v; mabs := mabs s; mrel := mrel s |}, [])
    | MOther _ => (s, [])
    end.

  Fixpoint mrun (s : mstate) (ops : list mop) : list (list event) :=
    match ops with
    | [] => []
    | o :: t => let '(s', ev) := mstep s o in ev :: mrun s' t
    end.

  (* ---------------------------------------------------------------- facade + CompanionAudio + RaopAudio
     on ONE core state dispatcher (pyatv/protocols/companion/__init__.py:410-466).  Companion is the
     protocol the facade relays audio calls to (DEFAULT_PRIORITIES); every level the device reports is
     announced as UpdatedState.Volume and intercepted by RaopAudio._volume_changed, which forwards it to
     the receiver at the next stream start.  The device reports its level as a FRACTION `_vol`;
     CompanionAudio turns it into percent (`_vol * 100.0`) before storing AND before announcing it. *)

  Inductive xop :=
  | XSet (level : num) | XUp | XDown | XRead      (* through the facade, relayed to CompanionAudio *)
  | XReport (frac : num)          (* _iMC event with the volume flag; GetVolume answers _vol = frac *)
  | XNoVol                        (* _iMC event without the volume flag *)
  | XMissing                      (* GetVolume answer without _vol: the handler dies before changing anything *)
  | XPump                         (* the event loop runs the queued Volume listeners (facade, RaopAudio) *)
  | XStream (initial : option num). (* a RAOP stream starts (RaopStream.stream_file) *)

  Record xstate := { cvol : num; xr : rstate }.

  Definition xinit : xstate := {| cvol := zero; xr := rinit |}.

  Definition announce (r : rstate) (v : num) : rstate :=
    {| ctx := ctx r; pend := pend r ++ [v]; fvol := fvol r |}.

  Definition xstep (s : xstate) (o : xop) : xstate * list event :=
    match o with
    | XSet level => if in_range level then (s, [Fwd level]) else (s, [Exc ProtocolError])
    | XUp | XDown => (s, [Key])
    | XRead => if in_range (cvol s) then (s, [Ret (cvol s)]) else (s, [Exc ProtocolError])
    | XReport f => let v := dmul D f (dZ D 100) in ({| cvol := v; xr := announce (xr s) v |}, [])
    | XNoVol => ({| cvol := zero; xr := announce (xr s) zero |}, [])
    | XMissing => (s, [])
    | XPump => let '(r, ev) := rstep (xr s) RPump in ({| cvol := cvol s; xr := r |}, ev)
    | XStream i => let '(r, ev) := rstep (xr s) (RStream i) in ({| cvol := cvol s; xr := r |}, ev)
    end.

  Fixpoint xrun (s : xstate) (ops : list xop) : list (list event) :=
    match ops with
    | [] => []
    | o :: t => let '(s', ev) := xstep s o in ev :: xrun s' t
    end.

End Interp.

Arguments Ret {D} v.
Arguments Exc {D} e.
Arguments Fwd {D} v.
Arguments Dev {D} d.
Arguments Key {D}.
Arguments Push {D} old new.
Arguments Echo {D} d.
Arguments Adopt {D} d.
Arguments Swallowed {D} e.
Arguments RSet {D} level.
Arguments RUp {D}.
Arguments RDown {D}.
Arguments RRead {D}.
Arguments RReport {D} v.
Arguments RPump {D}.
Arguments RInject {D} d.
Arguments RStream {D} initial.
Arguments MSet {D} level.
Arguments MUp {D}.
Arguments MDown {D}.
Arguments MRead {D}.
Arguments MReport {D} v.
Arguments MOther {D} v.
Arguments XSet {D} level.
Arguments XUp {D}.
Arguments XDown {D}.
Arguments XRead {D}.
Arguments XReport {D} frac.
Arguments XNoVol {D}.
Arguments XMissing {D}.
Arguments XPump {D}.
Arguments XStream {D} initial.

(* ------------------------------------------------------------------ guard comparisons on
   the extended values a Python float can take.  Every finite binary64 value is a rational
   and IEEE comparison does not round, so this is exact. *)

Inductive fval := Fin (q : Q) | PInf | NInf | NaN.

Definition fle (a b : fval) : bool :=
  match a, b with
  | NaN, _ | _, NaN => false
  | NInf, _ => true
  | _, PInf => true
  | Fin x, Fin y => Qle_bool x y
  | _, _ => false
  end.

Definition guard_fval (v : fval) : bool := fle (Fin 0) v && fle v (Fin 100).

(* ------------------------------------------------------------------ bit-exact comparison of
   primitive floats (all NaNs are identified; +0 and -0 are told apart by 1/x) *)

Definition fnan (a : float) : bool := negb (PrimFloat.eqb a a).
Definition fsame (a b : float) : bool :=
  (fnan a && fnan b)
  || (PrimFloat.eqb a b && PrimFloat.eqb (PrimFloat.div PrimFloat.one a) (PrimFloat.div PrimFloat.one b)).

Definition res_same (a b : res float) : bool :=
  match a, b with
  | Ok x, Ok y => fsame x y
  | Raise e, Raise f => exn_eqb e f
  | _, _ => false
  end.

Definition event_same (a b : @event DF) : bool :=
  match a, b with
  | Ret x, Ret y => fsame x y
  | Exc e, Exc f => exn_eqb e f
  | Fwd x, Fwd y => fsame x y
  | Dev x, Dev y => fsame x y
  | Key, Key => true
  | Push o n, Push o' n' => fsame o o' && fsame n n'
  | Echo x, Echo y => fsame x y
  | Adopt x, Adopt y => fsame x y
  | Swallowed e, Swallowed f => exn_eqb e f
  | _, _ => false
  end.
