(* C20 - fourth number domain: IEEE 754 binary64 as formalised by Flocq
   (BinarySingleNaN.binary_float 53 1024 with round-to-nearest-even operations).
   Unlike Coq's primitive floats these operations are Gallina definitions with PROVED
   specifications (Bplus_correct ...), so this instance can be both executed - and compared
   bit for bit with CPython and with the PrimFloat instance in the correspondence run - and
   proved to refine the rounded-real domain DR on finite values (LinkB.v).  NaN and the
   infinities exist in this domain.  No proofs in this file. *)
From Coq Require Import ZArith Bool.
From Flocq Require Import Core BinarySingleNaN.
From PV Require Import C20.Model.

Definition bf : Type := binary_float 53 1024.

Definition P53 : Prec_gt_0 53 := eq_refl.
Definition PL53 : Prec_lt_emax 53 1024 := eq_refl.

Definition bZ (z : Z) : bf := binary_normalize 53 1024 P53 PL53 mode_NE z 0 false.
Definition bplus : bf -> bf -> bf := @Bplus 53 1024 P53 PL53 mode_NE.
Definition bminus : bf -> bf -> bf := @Bminus 53 1024 P53 PL53 mode_NE.
Definition bmult : bf -> bf -> bf := @Bmult 53 1024 P53 PL53 mode_NE.
Definition bdiv : bf -> bf -> bf := @Bdiv 53 1024 P53 PL53 mode_NE.

Definition bltb (a b : bf) : bool := match Bcompare a b with Some Lt => true | _ => false end.
Definition bleb (a b : bf) : bool := match Bcompare a b with Some Lt | Some Eq => true | _ => false end.
Definition beqb (a b : bf) : bool := match Bcompare a b with Some Eq => true | _ => false end.

Definition DB : Dom := {|
  T := bf; dZ := bZ;
  dadd := bplus; dsub := bminus; dmul := bmult; ddiv := bdiv;
  dlt := bltb; dle := bleb; deq := beqb |}.

(* bit pattern, without the proof component *)
Definition bits (x : bf) : SpecFloat.spec_float := B2SF x.

Definition sf_same (a b : SpecFloat.spec_float) : bool :=
  match a, b with
  | SpecFloat.S754_zero s, SpecFloat.S754_zero t => Bool.eqb s t
  | SpecFloat.S754_infinity s, SpecFloat.S754_infinity t => Bool.eqb s t
  | SpecFloat.S754_nan, SpecFloat.S754_nan => true
  | SpecFloat.S754_finite s m e, SpecFloat.S754_finite t n f => Bool.eqb s t && Pos.eqb m n && Z.eqb e f
  | _, _ => false
  end.

(* from a bit pattern (used by the generated case files; an invalid pattern becomes NaN) *)
Definition of_bits (x : SpecFloat.spec_float) : bf :=
  match x with
  | SpecFloat.S754_zero s => B754_zero s
  | SpecFloat.S754_infinity s => B754_infinity s
  | SpecFloat.S754_nan => B754_nan
  | SpecFloat.S754_finite s m e =>
      match Bool.bool_dec (SpecFloat.bounded 53 1024 m e) true with
      | left H => B754_finite s m e H
      | right _ => B754_nan
      end
  end.
