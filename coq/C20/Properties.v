(* C20 - property theorems only.  Each is closed by a lemma of Tie / ProofsQ / ProofsR /
   ProofsM / ProofsG; Print Assumptions follows each.

   The theorems speak about the GENERATED trees of Gen.v (what /repo's source says on this
   run) wherever a single function is concerned - [run D g_f args] - through the Tie lemmas,
   and about the state machines of Model.v (which call the same functions) for histories.

   Domains:  DQ exact rationals;  DR reals with every operation rounded to binary64
   (Flocq; depends on the axioms of the standard library's Reals, listed by Print
   Assumptions);  DB Flocq's bit-level IEEE 754 binary64 with NaN / infinities / signed
   zeros, PROVED to refine DR on finite values (theorems C20_binary64_xxx);  DF Coq primitive binary64
   floats (computed witnesses; compared bit for bit with DB and with CPython on every run).

   The exact inverse law holds over Q and is FALSE over binary64
   (C20_roundtrip_exact_refuted); over binary64 what holds is the error bound
   C20_roundtrip_error_bound.  The step law needs the side condition that the device reports
   a level within [0,100] (C20_mrp_step_refuted / C20_mrp_step_refuted_binary64 /
   C20_raop_nan_report_refuted show it cannot be dropped for pyatv as it stands). *)
From Coq Require Import Reals Lra ZArith QArith List Bool PrimFloat.
From Flocq Require Import Core.
From Flocq Require Import BinarySingleNaN.
From PV Require Import Common.Cases C20.Model C20.ModelR C20.ModelB C20.Gen C20.Tie
                       C20.ProofsQ C20.ProofsR C20.ProofsM C20.ProofsG C20.LinkB.
Import ListNotations.

(* ------------------------------------------------------------------ tie: source = model *)

Theorem C20_generated_code_is_the_model : forall D : Dom,
  (forall v a b c d, run D g_map_range [v; a; b; c; d] = map_range D v a b c d) /\
  (forall x, run D g_pct_to_dbfs [x] = pct_to_dbfs D x) /\
  (forall x, run D g_dbfs_to_pct [x] = dbfs_to_pct D x) /\
  (forall v, run D g_facade_read [v] = if in_range D v then Ok v else Raise ProtocolError) /\
  (forall v, run D g_facade_write [v] = if in_range D v then Ok v else Raise ProtocolError) /\
  (forall v, run D g_raop_volume_up [v] = Ok (step_up D v)) /\
  (forall v, run D g_raop_volume_down [v] = Ok (step_down D v)) /\
  (forall v, run D g_mrp_volume_up [v] = Ok (step_up D v)) /\
  (forall v, run D g_mrp_volume_down [v] = Ok (step_down D v)) /\
  dZ D g_INITIAL_VOLUME = INITIAL_VOLUME D.
Proof.
  intros D.
  exact (conj (tie_map_range D) (conj (tie_pct_to_dbfs D) (conj (tie_dbfs_to_pct D)
        (conj (tie_facade_read D) (conj (tie_facade_write D) (conj (tie_raop_up D)
        (conj (tie_raop_down D) (conj (tie_mrp_up D) (conj (tie_mrp_down D)
        (proj2 (proj2 (proj2 (proj2 (tie_constants D)))))))))))))).
Qed.
Print Assumptions C20_generated_code_is_the_model.

(* ------------------------------------------------------------------ the formula (exact, Q) *)

(* percent -> dBFS -> percent is the identity on (0,100] ... *)
Theorem C20_Q_inverse_pct : forall x : Q, (0 < x)%Q -> (x <= 100)%Q ->
  exists d y, run DQ g_pct_to_dbfs [x] = Ok d /\ run DQ g_dbfs_to_pct [d] = Ok y /\ (y == x)%Q.
Proof. intros x. rewrite tie_pct_to_dbfs. intros H0 H1.
  destruct (inverse_pct x H0 H1) as (d & y & A & B & C). exists d, y. now rewrite tie_dbfs_to_pct. Qed.
Print Assumptions C20_Q_inverse_pct.

(* ... and on 0 through the mute sentinel -144 dBFS *)
Theorem C20_Q_inverse_zero :
  exists y, run DQ g_pct_to_dbfs [0%Q] = Ok (inject_Z (-144)) /\
            run DQ g_dbfs_to_pct [inject_Z (-144)] = Ok y /\ (y == 0)%Q.
Proof. exists (inject_Z 0). rewrite tie_pct_to_dbfs, tie_dbfs_to_pct.
  split; [now apply pct_to_dbfs_Q0|]. split; [now apply dbfs_to_pct_Q_low | reflexivity]. Qed.
Print Assumptions C20_Q_inverse_zero.

(* dBFS -> percent -> dBFS is the identity on (-30,0] *)
Theorem C20_Q_inverse_dbfs : forall l : Q, (-30 < l)%Q -> (l <= 0)%Q ->
  exists p d, run DQ g_dbfs_to_pct [l] = Ok p /\ run DQ g_pct_to_dbfs [p] = Ok d /\ (d == l)%Q.
Proof. intros l H0 H1. destruct (inverse_dbfs l H0 H1) as (p & d & A & B & C).
  exists p, d. now rewrite tie_dbfs_to_pct, tie_pct_to_dbfs. Qed.
Print Assumptions C20_Q_inverse_dbfs.

Theorem C20_Q_strict_mono_pct : forall x y : Q, (0 < x)%Q -> (x < y)%Q -> (y <= 100)%Q ->
  exists dx dy, run DQ g_pct_to_dbfs [x] = Ok dx /\ run DQ g_pct_to_dbfs [y] = Ok dy /\
                (inject_Z (-144) < dx)%Q /\ (dx < dy)%Q.
Proof. intros x y H0 H1 H2. rewrite !tie_pct_to_dbfs.
  destruct (strict_mono_pct x y H0 H1 H2) as (dx & dy & A & B & C).
  destruct (mute_below x H0) as (dx' & A' & M).
  { apply Qlt_le_weak. eapply Qlt_le_trans; [exact H1 | exact H2]. }
  exists dx, dy. rewrite A in A'. injection A' as <-. auto. Qed.
Print Assumptions C20_Q_strict_mono_pct.

Theorem C20_Q_strict_mono_dbfs : forall a b : Q, (-30 <= a)%Q -> (a < b)%Q -> (b <= 0)%Q ->
  exists pa pb, run DQ g_dbfs_to_pct [a] = Ok pa /\ run DQ g_dbfs_to_pct [b] = Ok pb /\ (pa < pb)%Q.
Proof. intros a b. rewrite !tie_dbfs_to_pct. exact (strict_mono_dbfs a b). Qed.
Print Assumptions C20_Q_strict_mono_dbfs.

(* ------------------------------------------------------------------ binary64 (Flocq) *)
Open Scope R_scope.

(* a percentage converts iff it is within [0,100]; the result is -144 or within [-30,0];
   anything else raises (ValueError - reached only from RaopAudio, behind the facade guard) *)
Theorem C20_closure_pct : forall x : R,
  (0 <= x <= 100 /\ exists d, run DR g_pct_to_dbfs [x] = Ok d /\ (d = -144 \/ -30 <= d <= 0)) \/
  (~ 0 <= x <= 100 /\ run DR g_pct_to_dbfs [x] = Raise ValueError).
Proof. intros x. rewrite tie_pct_to_dbfs. exact (pct_to_dbfs_cases x). Qed.
Print Assumptions C20_closure_pct.

(* every device-side level converts to a percentage within [0,100] or raises ProtocolError
   (never ValueError: the defect fixed by 030b7e7) *)
Theorem C20_closure_dbfs : forall l : R,
  (0 < l /\ run DR g_dbfs_to_pct [l] = Raise ProtocolError) \/
  (l <= 0 /\ exists p, run DR g_dbfs_to_pct [l] = Ok p /\ 0 <= p <= 100).
Proof. intros l. rewrite tie_dbfs_to_pct. exact (dbfs_to_pct_cases l). Qed.
Print Assumptions C20_closure_dbfs.

Theorem C20_weak_mono_pct : forall x y dx dy : R, x <= y ->
  run DR g_pct_to_dbfs [x] = Ok dx -> run DR g_pct_to_dbfs [y] = Ok dy -> dx <= dy.
Proof. intros x y dx dy. rewrite !tie_pct_to_dbfs. exact (weak_mono_pct x y dx dy). Qed.
Print Assumptions C20_weak_mono_pct.

Theorem C20_weak_mono_dbfs : forall a b pa pb : R, a <= b ->
  run DR g_dbfs_to_pct [a] = Ok pa -> run DR g_dbfs_to_pct [b] = Ok pb -> pa <= pb.
Proof. intros a b pa pb. rewrite !tie_dbfs_to_pct. exact (weak_mono_dbfs a b pa pb). Qed.
Print Assumptions C20_weak_mono_dbfs.

(* |x' - x| <= 2^-43 for set-then-read of any level in (0,100] (0 is exact, see C20_set_then_read) *)
Theorem C20_roundtrip_error_bound : forall x d y : R, 0 < x <= 100 ->
  run DR g_pct_to_dbfs [x] = Ok d -> run DR g_dbfs_to_pct [d] = Ok y ->
  Rabs (y - x) <= bpow radix2 (-43).
Proof. intros x d y. rewrite tie_pct_to_dbfs, tie_dbfs_to_pct. exact (roundtrip_bound x d y). Qed.
Print Assumptions C20_roundtrip_error_bound.

(* the +/-5 step expressions of RaopAudio and MrpAudio never leave [0,100] from inside it,
   and never move the level the wrong way *)
Theorem C20_step_closed : forall v : R, 0 <= v <= 100 ->
  exists u w, run DR g_raop_volume_up [v] = Ok u /\ run DR g_mrp_volume_up [v] = Ok u /\
              run DR g_raop_volume_down [v] = Ok w /\ run DR g_mrp_volume_down [v] = Ok w /\
              0 <= u <= 100 /\ 0 <= w <= 100 /\
              (generic_format radix2 fexp v -> w <= v <= u).
Proof.
  intros v Hv. exists (step_up DR v), (step_down DR v).
  rewrite tie_raop_up, tie_mrp_up, tie_raop_down, tie_mrp_down.
  repeat split; try reflexivity; try apply step_up_closed; try apply step_down_closed; try assumption.
  - now apply step_down_le.
  - now apply step_up_ge.
Qed.
Print Assumptions C20_step_closed.

(* the facade guards let a value through iff it is within [0,100]; otherwise ProtocolError *)
Theorem C20_facade_guard : forall v : R,
  (0 <= v <= 100 /\ run DR g_facade_read [v] = Ok v /\ run DR g_facade_write [v] = Ok v) \/
  (~ 0 <= v <= 100 /\ run DR g_facade_read [v] = Raise ProtocolError /\
                      run DR g_facade_write [v] = Raise ProtocolError).
Proof.
  intros v. rewrite tie_facade_read, tie_facade_write. unfold guarded.
  destruct (guarded_R v) as [[H ->]|[H ->]]; [left | right]; auto.
Qed.
Print Assumptions C20_facade_guard.

(* the same comparison on every value a Python float can take: NaN and both infinities fail it *)
Theorem C20_guard_fval : forall v : fval,
  guard_fval v = true <-> exists q, v = Fin q /\ (0 <= q /\ q <= 100)%Q.
Proof. exact guard_fval_spec. Qed.
Print Assumptions C20_guard_fval.

(* ------------------------------------------------------------------ all histories *)

(* facade + RaopAudio: for EVERY state and EVERY sequence of set_volume(any real) / volume_up /
   volume_down / read / level reports by other protocols (any real) / injected device-side
   levels (any real) / listener deliveries: every value returned is within [0,100], every level
   handed to RaopAudio.set_volume is within [0,100], every level sent to the device is -144
   or within [-30,0], and the only exception a caller can see is ProtocolError *)
Theorem C20_raop_all_histories : forall (s : rstate DR) (ops : list (@rop DR)),
  Forall (Forall good_event) (rrun DR s ops).
Proof. intros s ops. exact (rrun_events ops s). Qed.
Print Assumptions C20_raop_all_histories.

(* ... and nothing valid is rejected: unless a device-side level above 0 dBFS is injected, an
   exception is raised only by set_volume(level) with level outside [0,100] *)
Theorem C20_raop_nothing_valid_rejected : forall ops : list (@rop DR),
  Forall inject_ok ops -> Forall2 only_bad_set ops (rrun DR (rinit DR) ops).
Proof. intros ops H. apply rrun_no_spurious; [exact I | exact H]. Qed.
Print Assumptions C20_raop_nothing_valid_rejected.

(* set a level in [0,100], read it back: the protocol gets exactly that level, the device a
   valid dBFS value, and the value read is within 2^-43 of the level *)
Theorem C20_set_then_read : forall x : R, 0 <= x <= 100 ->
  exists d y, rrun DR (rinit DR) [@RSet DR x; @RRead DR] = [[@Fwd DR x; @Dev DR d]; [@Ret DR y]] /\
              (d = -144 \/ -30 <= d <= 0) /\ 0 <= y <= 100 /\ Rabs (y - x) <= bpow radix2 (-43).
Proof. exact set_then_read. Qed.
Print Assumptions C20_set_then_read.

(* a level set by the user survives the start of a stream, whatever initial level the receiver
   advertises (RaopStream.stream_file consults has_changed_volume): the stored level is sent to the
   receiver again and reads back within 2^-42 of the level set - for EVERY level in [0,100],
   100 (= 0.0 dBFS) and 0 (= the mute sentinel) included *)
Theorem C20_level_survives_stream_start : forall (x : R) (initial : option R), 0 <= x <= 100 ->
  exists d y d' y',
    rrun DR (rinit DR) [@RSet DR x; @RStream DR initial; @RRead DR] =
      [[@Fwd DR x; @Dev DR d]; [@Fwd DR y; @Dev DR d']; [@Ret DR y']] /\
    (d = -144 \/ -30 <= d <= 0) /\ (d' = -144 \/ -30 <= d' <= 0) /\
    Rabs (y - x) <= bpow radix2 (-43) /\ 0 <= y' <= 100 /\ Rabs (y' - x) <= bpow radix2 (-42).
Proof. intros x i. exact (set_stream_read x i). Qed.
Print Assumptions C20_level_survives_stream_start.

(* a VolumeDidChange for ANOTHER output device of the group is invisible to this device's level *)
Theorem C20_mrp_other_device_ignored : forall (s : mstate DR) (v : R) (ops : list (@mop DR)),
  mrun DR s (@MOther DR v :: ops) = [] :: mrun DR s ops.
Proof. intros s v ops. reflexivity. Qed.
Print Assumptions C20_mrp_other_device_ignored.

(* facade + CompanionAudio + RaopAudio on one core state dispatcher: for EVERY state and EVERY
   history - set/step/read through the facade, device reports of any real fraction `_vol`, reports
   without volume control or without `_vol`, listener deliveries, RAOP stream starts with any
   advertised initial level - whatever reaches a protocol's set_volume (Companion's from the facade,
   RAOP's at stream start from the intercepted announcement) is within [0,100], every dBFS sent to the
   receiver is valid, every value read is within [0,100], the only exception is ProtocolError *)
Theorem C20_cross_all_histories : forall (s : xstate DR) (ops : list (@xop DR)),
  Forall (Forall good_event) (xrun DR s ops).
Proof. intros s ops. exact (xrun_events ops s). Qed.
Print Assumptions C20_cross_all_histories.

(* the dispatcher hop is faithful: the percent level the device reported (fraction f, announced as
   rnd(f*100)) is the level RaopAudio hands on at the next stream start, within 2^-43 ... *)
Theorem C20_cross_report_forwarded : forall (f : R) (initial : option R), 0 <= rnd (f * 100) <= 100 ->
  exists evp d y d',
    xrun DR (xinit DR) [@XReport DR f; @XPump DR; @XStream DR initial] = [[]; evp; [@Fwd DR y; @Dev DR d']] /\
    ~ (exists e, In (@Exc DR e) evp) /\ In (@Echo DR d) evp /\
    (d = -144 \/ -30 <= d <= 0) /\ (d' = -144 \/ -30 <= d' <= 0) /\
    Rabs (y - rnd (f * 100)) <= bpow radix2 (-43).
Proof. intros f i. exact (cross_forward f i). Qed.
Print Assumptions C20_cross_report_forwarded.

(* ... and a report outside [0,100] percent is rejected on the way: nothing is stored, the next
   stream starts from the default level *)
Theorem C20_cross_report_rejected : forall f : R, ~ 0 <= rnd (f * 100) <= 100 ->
  exists evp d,
    xrun DR (xinit DR) [@XReport DR f; @XPump DR; @XStream DR None] = [[]; evp; [@Fwd DR 33; @Dev DR d]] /\
    In (@Swallowed DR ValueError) evp /\ (forall d0, ~ In (@Echo DR d0) evp) /\ (d = -144 \/ -30 <= d <= 0).
Proof. exact cross_rejected. Qed.
Print Assumptions C20_cross_report_rejected.

(* facade + MrpAudio: as long as the device reports levels within [0,100], every history keeps
   every returned value and every level handed to MrpAudio.set_volume within [0,100] *)
Theorem C20_mrp_all_histories : forall (s : mstate DR) (ops : list (@mop DR)),
  0 <= mvol DR s <= 100 -> Forall mreport_ok ops -> Forall (Forall good_event) (mrun DR s ops).
Proof. intros s ops. exact (mrun_events ops s). Qed.
Print Assumptions C20_mrp_all_histories.

(* the side condition cannot be dropped (pyatv as it stands; listed as a known finding) *)
Theorem C20_mrp_step_refuted :
  exists ops l, mrun DR (Build_mstate DR 0 true false) ops = [[]; [@Fwd DR l]] /\ ~ 0 <= l <= 100.
Proof. exact mrp_step_refuted. Qed.
Print Assumptions C20_mrp_step_refuted.

(* ------------------------------------------------------------------ bit-level binary64 (Flocq binary_float) *)

(* on every finite binary64 input the bit-level arithmetic returns a finite value whose real
   value is the one computed by the rounded-real model, and raises exactly when it raises *)
Theorem C20_binary64_refines : forall x : bf, is_finite x = true ->
  rel (run DB g_pct_to_dbfs [x]) (run DR g_pct_to_dbfs [B2R x]) /\
  rel (run DB g_dbfs_to_pct [x]) (run DR g_dbfs_to_pct [B2R x]).
Proof. intros x Fx. rewrite !tie_pct_to_dbfs, !tie_dbfs_to_pct.
  exact (conj (pct_to_dbfs_B x Fx) (dbfs_to_pct_B x Fx)). Qed.
Print Assumptions C20_binary64_refines.

(* the facade guards on EVERY binary64 value - NaN, both infinities, both zeros, subnormals:
   a value passes iff it is finite and within [0,100]; anything else is a ProtocolError *)
Theorem C20_binary64_guard : forall x : bf,
  (is_finite x = true /\ 0 <= B2R x <= 100 /\
     run DB g_facade_read [x] = Ok x /\ run DB g_facade_write [x] = Ok x) \/
  (~ (is_finite x = true /\ 0 <= B2R x <= 100) /\
     run DB g_facade_read [x] = Raise ProtocolError /\ run DB g_facade_write [x] = Raise ProtocolError).
Proof.
  intros x. rewrite tie_facade_read, tie_facade_write. unfold guarded.
  destruct (in_range DB x) eqn:G.
  - left. apply in_range_B in G. destruct G as [F H]. auto.
  - right. split; [|auto]. intros H. apply in_range_B in H. congruence.
Qed.
Print Assumptions C20_binary64_guard.

(* set any accepted binary64 level and read it back: valid dBFS to the device, value read is a
   finite binary64 within [0,100] and within 2^-43 of the level *)
Theorem C20_binary64_set_then_read : forall x : bf, in_range DB x = true ->
  exists d y, run DB g_pct_to_dbfs [x] = Ok d /\ run DB g_dbfs_to_pct [d] = Ok y /\
              is_finite d = true /\ (B2R d = -144 \/ -30 <= B2R d <= 0) /\
              is_finite y = true /\ 0 <= B2R y <= 100 /\ Rabs (B2R y - B2R x) <= bpow radix2 (-43).
Proof. intros x G. destruct (set_then_read_B x G) as (d & y & H). exists d, y.
  now rewrite tie_pct_to_dbfs, tie_dbfs_to_pct. Qed.
Print Assumptions C20_binary64_set_then_read.

(* a device-side binary64 level converts to an accepted percentage or raises ProtocolError *)
Theorem C20_binary64_read : forall l : bf, is_finite l = true ->
  (0 < B2R l /\ run DB g_dbfs_to_pct [l] = Raise ProtocolError) \/
  (B2R l <= 0 /\ exists p, run DB g_dbfs_to_pct [l] = Ok p /\ in_range DB p = true).
Proof. intros l Fl. rewrite tie_dbfs_to_pct. exact (dbfs_read_B l Fl). Qed.
Print Assumptions C20_binary64_read.

(* stepping an accepted binary64 level up or down gives an accepted level, in the right direction *)
Theorem C20_binary64_step_closed : forall v : bf, in_range DB v = true ->
  exists u w, run DB g_raop_volume_up [v] = Ok u /\ run DB g_mrp_volume_up [v] = Ok u /\
              run DB g_raop_volume_down [v] = Ok w /\ run DB g_mrp_volume_down [v] = Ok w /\
              in_range DB u = true /\ in_range DB w = true /\ B2R w <= B2R v <= B2R u.
Proof.
  intros v G. exists (step_up DB v), (step_down DB v).
  rewrite tie_raop_up, tie_mrp_up, tie_raop_down, tie_mrp_down.
  destruct (step_closed_B v G) as (A & B & C). auto 10.
Qed.
Print Assumptions C20_binary64_step_closed.

(* ------------------------------------------------------------------ binary64 witnesses (PrimFloat) *)
Close Scope R_scope.

(* the exact inverse law is false on binary64: 33.0 -> -20.1 dBFS -> 32.99999999999999 *)
Theorem C20_roundtrip_exact_refuted :
  exists x d y : PrimFloat.float, in_range DF x = true /\ run DF g_pct_to_dbfs [x] = Ok d /\
                        run DF g_dbfs_to_pct [d] = Ok y /\ PrimFloat.eqb y x = false.
Proof.
  exists 33%float, (-0x1.419999999999ap+4)%float, 0x1.07fffffffffffp+5%float.
  rewrite tie_pct_to_dbfs, tie_dbfs_to_pct. exact roundtrip_33.
Qed.
Print Assumptions C20_roundtrip_exact_refuted.

Theorem C20_mrp_step_refuted_binary64 :
  same_events (mrun DF (Build_mstate DF 0%float true false)
                 [@MReport DF (-50)%float; @MRead DF; @MUp DF])
              [[]; [@Exc DF ProtocolError]; [@Fwd DF (-45)%float]] = true /\
  same_events (mrun DF (Build_mstate DF 0%float true false)
                 [@MReport DF 150%float; @MRead DF; @MDown DF])
              [[]; [@Exc DF ProtocolError]; [@Fwd DF 145%float]] = true.
Proof. exact (conj mrp_low_witness mrp_high_witness). Qed.
Print Assumptions C20_mrp_step_refuted_binary64.

(* a NaN level reported by another protocol is stored by RaopAudio; audio.volume then raises
   ProtocolError but volume_up hands NaN to set_volume and to the device (known finding) *)
Theorem C20_raop_nan_report_refuted :
  let evs := rrun DF (rinit DF) [@RReport DF nan; @RPump DF; @RRead DF; @RUp DF] in
  has_bad_fwd evs = true /\ has_nan_dev evs = true /\
  list_beq event_same (nth 2 evs []) [@Exc DF ProtocolError] = true.
Proof. exact raop_nan_witness. Qed.
Print Assumptions C20_raop_nan_report_refuted.

(* regression witness for fix 030b7e7 on binary64: +1.0 dBFS in the context *)
Theorem C20_dbfs_above_max_is_protocol_error :
  same_events (rrun DF (rinit DF) [@RInject DF 1%float; @RRead DF; @RUp DF; @RDown DF])
              [[]; [@Exc DF ProtocolError]; [@Exc DF ProtocolError]; [@Exc DF ProtocolError]] = true.
Proof. exact dbfs_above_max_witness. Qed.
Print Assumptions C20_dbfs_above_max_is_protocol_error.

(* ------------------------------------------------------------------ non-vacuity *)
Open Scope R_scope.

Example C20_ex_history :
  exists ops : list (@rop DR), Forall inject_ok ops /\ length ops = 9%nat /\
    Forall (Forall good_event) (rrun DR (rinit DR) ops).
Proof.
  exists [@RSet DR 50; @RUp DR; @RPump DR; @RRead DR; @RReport DR 150; @RPump DR; @RDown DR;
          @RInject DR (-144); @RRead DR].
  split; [|split; [reflexivity | apply C20_raop_all_histories]].
  repeat constructor. simpl. lra.
Qed.

Example C20_ex_levels : 0 < 33 <= 100 /\ 0 <= 97.5 <= 100.
Proof. lra. Qed.
