(* C20 - check functions evaluated by vm_compute in the correspondence files
   (build/cases/C20/*.v): the observable behaviour recorded from the real pyatv code is
   compared with the PrimFloat instance of the model, both through the generated trees
   (Gen.v) and through the hand-written functions (Model.v), AND with the Flocq binary64
   instance DB (the one proved to refine the rounded reals in LinkB.v), bit for bit.
   Prim2SF (Coq.Floats.FloatOps, plain Gallina over the primitives) is used only here, to turn a
   float literal into its sign/mantissa/exponent triple.  No proofs. *)
From Coq Require Import ZArith QArith List Bool PrimFloat FloatOps.
From Flocq Require Import BinarySingleNaN.
From PV Require Import Common.Cases C20.Model C20.ModelB C20.Gen.
Import ListNotations.

Inductive fn := FMapRange | FPct | FDbfs | FFacRead | FFacWrite
              | FRaopUp | FRaopDown | FMrpUp | FMrpDown.

Definition tree (f : fn) : stmt :=
  match f with
  | FMapRange => g_map_range | FPct => g_pct_to_dbfs | FDbfs => g_dbfs_to_pct
  | FFacRead => g_facade_read | FFacWrite => g_facade_write
  | FRaopUp => g_raop_volume_up | FRaopDown => g_raop_volume_down
  | FMrpUp => g_mrp_volume_up | FMrpDown => g_mrp_volume_down
  end.

Definition guardedF (v : float) : res float := if in_range DF v then Ok v else Raise ProtocolError.

Definition hand (f : fn) (args : list float) : res float :=
  match f, args with
  | FMapRange, [v; a; b; c; d] => map_range DF v a b c d
  | FPct, [x] => pct_to_dbfs DF x
  | FDbfs, [x] => dbfs_to_pct DF x
  | FFacRead, [x] | FFacWrite, [x] => guardedF x
  | FRaopUp, [x] | FMrpUp, [x] => Ok (step_up DF x)
  | FRaopDown, [x] | FMrpDown, [x] => Ok (step_down DF x)
  | _, _ => Raise ZeroDivisionError
  end.

Definition resQ_same (a b : res Q) : bool :=
  match a, b with
  | Ok x, Ok y => Qeq_bool x y
  | Raise e, Raise f => exn_eqb e f
  | _, _ => false
  end.

(* primitive float literal -> Flocq binary64 value with the same bits *)
Definition toB (x : float) : bf := of_bits (Prim2SF x).

Definition resB_same (a : res bf) (b : res float) : bool :=
  match a, b with
  | Ok x, Ok y => sf_same (bits x) (Prim2SF y)
  | Raise e, Raise f => exn_eqb e f
  | _, _ => false
  end.

Definition eventB_same (a : @event DB) (b : @event DF) : bool :=
  match a, b with
  | Ret x, Ret y | Fwd x, Fwd y | Dev x, Dev y | Echo x, Echo y | Adopt x, Adopt y => sf_same (bits x) (Prim2SF y)
  | Exc e, Exc f | Swallowed e, Swallowed f => exn_eqb e f
  | Key, Key => true
  | Push o n, Push o' n' => sf_same (bits o) (Prim2SF o') && sf_same (bits n) (Prim2SF n')
  | _, _ => false
  end.

Definition ropB (o : @rop DF) : @rop DB :=
  match o with
  | RSet x => @RSet DB (toB x) | RReport x => @RReport DB (toB x) | RInject x => @RInject DB (toB x)
  | RUp => @RUp DB | RDown => @RDown DB | RRead => @RRead DB | RPump => @RPump DB
  | RStream i => @RStream DB (option_map toB i)
  end.

Definition mopB (o : @mop DF) : @mop DB :=
  match o with
  | MSet x => @MSet DB (toB x) | MReport x => @MReport DB (toB x) | MOther x => @MOther DB (toB x)
  | MUp => @MUp DB | MDown => @MDown DB | MRead => @MRead DB
  end.

Definition xopB (o : @xop DF) : @xop DB :=
  match o with
  | XSet x => @XSet DB (toB x) | XReport x => @XReport DB (toB x)
  | XUp => @XUp DB | XDown => @XDown DB | XRead => @XRead DB | XNoVol => @XNoVol DB
  | XMissing => @XMissing DB | XPump => @XPump DB
  | XStream i => @XStream DB (option_map toB i)
  end.

Fixpoint list_beq2 {A B} (f : A -> B -> bool) (a : list A) (b : list B) : bool :=
  match a, b with
  | [], [] => true
  | x :: a', y :: b' => f x y && list_beq2 f a' b'
  | _, _ => false
  end.

Inductive ccase :=
| CFun (f : fn) (args : list float) (r : res float)      (* real function on binary64 *)
| CMapQ (args : list Q) (r : res Q)                      (* real map_range on fractions.Fraction *)
| CGuard (fv : fval) (x : float) (accepted : bool)       (* facade guard on a reported / requested value *)
| CRaop (ops : list (@rop DF)) (obs : list (list (@event DF)))
| CMrp (vabs vrel : bool) (v0 : float) (ops : list (@mop DF)) (obs : list (list (@event DF)))
| CCross (ops : list (@xop DF)) (obs : list (list (@event DF))).   (* Companion + RAOP on one dispatcher *)

Definition check_case (c : ccase) : bool :=
  match c with
  | CFun f args r => res_same (run DF (tree f) args) r && res_same (hand f args) r
                     && resB_same (run DB (tree f) (map toB args)) r
  | CMapQ args r =>
      resQ_same (run DQ g_map_range args) r &&
      match args with
      | [v; a; b; c; d] => resQ_same (map_range DQ v a b c d) r
      | _ => false
      end
  | CGuard fv x acc => Bool.eqb (in_range DF x) acc && Bool.eqb (guard_fval fv) acc
  | CRaop ops obs => list_beq (list_beq event_same) (rrun DF (rinit DF) ops) obs
                     && list_beq2 (list_beq2 eventB_same) (rrun DB (rinit DB) (map ropB ops)) obs
  | CMrp a r v0 ops obs =>
      list_beq (list_beq event_same) (mrun DF (Build_mstate DF v0 a r) ops) obs
      && list_beq2 (list_beq2 eventB_same) (mrun DB (Build_mstate DB (toB v0) a r) (map mopB ops)) obs
  | CCross ops obs =>
      list_beq (list_beq event_same) (xrun DF (xinit DF) ops) obs
      && list_beq2 (list_beq2 eventB_same) (xrun DB (xinit DB) (map xopB ops)) obs
  end.

(* monomorphic constructors for the generated case files *)
Definition eRet (x : float) : @event DF := @Ret DF x.
Definition eExc (e : exn) : @event DF := @Exc DF e.
Definition eFwd (x : float) : @event DF := @Fwd DF x.
Definition eDev (x : float) : @event DF := @Dev DF x.
Definition eEcho (x : float) : @event DF := @Echo DF x.
Definition eAdopt (x : float) : @event DF := @Adopt DF x.
Definition eKey : @event DF := @Key DF.
Definition ePush (a b : float) : @event DF := @Push DF a b.
Definition eSwallowed (e : exn) : @event DF := @Swallowed DF e.
Definition rSet (x : float) : @rop DF := @RSet DF x.
Definition rReport (x : float) : @rop DF := @RReport DF x.
Definition rInject (x : float) : @rop DF := @RInject DF x.
Definition rStream (i : option float) : @rop DF := @RStream DF i.
Definition rUp : @rop DF := @RUp DF.
Definition rDown : @rop DF := @RDown DF.
Definition rRead : @rop DF := @RRead DF.
Definition rPump : @rop DF := @RPump DF.
Definition mSet (x : float) : @mop DF := @MSet DF x.
Definition mReport (x : float) : @mop DF := @MReport DF x.
Definition mOther (x : float) : @mop DF := @MOther DF x.
Definition mUp : @mop DF := @MUp DF.
Definition mDown : @mop DF := @MDown DF.
Definition mRead : @mop DF := @MRead DF.
Definition xSet (x : float) : @xop DF := @XSet DF x.
Definition xReport (x : float) : @xop DF := @XReport DF x.
Definition xStream (i : option float) : @xop DF := @XStream DF i.
Definition xUp : @xop DF := @XUp DF.
Definition xDown : @xop DF := @XDown DF.
Definition xRead : @xop DF := @XRead DF.
Definition xNoVol : @xop DF := @XNoVol DF.
Definition xMissing : @xop DF := @XMissing DF.
Definition xPump : @xop DF := @XPump DF.
