(* C20 - check functions evaluated by vm_compute in the correspondence files
   (build/cases/C20/*.v): the observable behaviour recorded from the real pyatv code is
   compared with the PrimFloat instance of the model, both through the generated trees
   (Gen.v) and through the hand-written functions (Model.v).  No proofs. *)
From Coq Require Import ZArith QArith List Bool PrimFloat.
From PV Require Import Common.Cases C20.Model C20.Gen.
Import ListNotations.

Inductive fn := FMapRange | FPct | FDbfs | FFacRead | FFacWrite
              | FRaopUp | FRaopDown | FMrpUp | FMrpDown.

Definition tree (f : fn) : stmt :=
  match f with
  | FMapRange => g_map_range | FPct => g_pct_to_dbfs | FDbfs => g_dbfs_to_pct
  | FFacRead => g_facade_read | FFacWrite => g_facade_write
  | FRaopUp => g_raop_volume_up | FRaopDown => g_raop_volume_down
  | FMrpUp => g_mrp_volume_up | FMrpDown => g_mrp_volume_down
  end.

Definition guardedF (v : float) : res float := if in_range DF v then Ok v else Raise ProtocolError.

Definition hand (f : fn) (args : list float) : res float :=
  match f, args with
  | FMapRange, [v; a; b; c; d] => map_range DF v a b c d
  | FPct, [x] => pct_to_dbfs DF x
  | FDbfs, [x] => dbfs_to_pct DF x
  | FFacRead, [x] | FFacWrite, [x] => guardedF x
  | FRaopUp, [x] | FMrpUp, [x] => Ok (step_up DF x)
  | FRaopDown, [x] | FMrpDown, [x] => Ok (step_down DF x)
  | _, _ => Raise ZeroDivisionError
  end.

Definition resQ_same (a b : res Q) : bool :=
  match a, b with
  | Ok x, Ok y => Qeq_bool x y
  | Raise e, Raise f => exn_eqb e f
  | _, _ => false
  end.

Inductive ccase :=
| CFun (f : fn) (args : list float) (r : res float)      (* real function on binary64 *)
| CMapQ (args : list Q) (r : res Q)                      (* real map_range on fractions.Fraction *)
| CGuard (fv : fval) (x : float) (accepted : bool)       (* facade guard on a reported / requested value *)
| CRaop (ops : list (@rop DF)) (obs : list (list (@event DF)))
| CMrp (vabs vrel : bool) (v0 : float) (ops : list (@mop DF)) (obs : list (list (@event DF))).

Definition check_case (c : ccase) : bool :=
  match c with
  | CFun f args r => res_same (run DF (tree f) args) r && res_same (hand f args) r
  | CMapQ args r =>
      resQ_same (run DQ g_map_range args) r &&
      match args with
      | [v; a; b; c; d] => resQ_same (map_range DQ v a b c d) r
      | _ => false
      end
  | CGuard fv x acc => Bool.eqb (in_range DF x) acc && Bool.eqb (guard_fval fv) acc
  | CRaop ops obs => list_beq (list_beq event_same) (rrun DF (rinit DF) ops) obs
  | CMrp a r v0 ops obs =>
      list_beq (list_beq event_same) (mrun DF (Build_mstate DF v0 a r) ops) obs
  end.
