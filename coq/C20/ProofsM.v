(* C20 - the two facade+protocol state machines over the rounded-real domain DR:
   every observable event of every history is within the property's ranges. *)
From Coq Require Import Reals Lra ZArith Lia List Bool.
From Flocq Require Import Core.
From PV Require Import C20.Model C20.ModelR C20.ProofsR.
Import ListNotations.
Open Scope R_scope.

Definition pct_ok (v : R) : Prop := 0 <= v <= 100.
Definition dbfs_good (d : R) : Prop := d = -144 \/ -30 <= d <= 0.

Definition good_event (e : @event DR) : Prop :=
  match e with
  | Ret v => pct_ok v
  | Fwd l => pct_ok l
  | Dev d => dbfs_good d
  | Echo d => dbfs_good d
  | Exc x => x = ProtocolError
  | Adopt _                       (* a level taken over from the receiver: judged when it is read *)
  | Key | Push _ _ | Swallowed _ => True
  end.

(* ------------------------------------------------------------------ conversions, case by case *)

Lemma pct_to_dbfs_ok v d : pct_to_dbfs DR v = Ok d -> pct_ok v /\ dbfs_good d.
Proof.
  rewrite pct_to_dbfs_R. unfold pct_ok, dbfs_good.
  destruct (Req_EM_T v 0) as [E|E].
  - intros H. injection H as <-. split; [lra | now left].
  - destruct (Rlt_dec v 0) as [L|L]; [discriminate|].
    destruct (Rlt_dec 100 v) as [G|G]; [discriminate|].
    intros H. injection H as <-. split; [lra|]. right. apply p2d_closed. lra.
Qed.

Lemma pct_to_dbfs_total v : pct_ok v -> exists d, pct_to_dbfs DR v = Ok d /\ dbfs_good d.
Proof.
  unfold pct_ok. intros [H0 H1]. rewrite pct_to_dbfs_R.
  destruct (Req_EM_T v 0) as [E|E].
  - exists (-144). split; [reflexivity | now left].
  - destruct (Rlt_dec v 0) as [L|L]; [lra|].
    destruct (Rlt_dec 100 v) as [G|G]; [lra|].
    exists (p2d v). split; [reflexivity|]. right. apply p2d_closed. lra.
Qed.

Lemma pct_to_dbfs_raise v e : pct_to_dbfs DR v = Raise e -> e = ValueError /\ ~ pct_ok v.
Proof.
  rewrite pct_to_dbfs_R. unfold pct_ok.
  destruct (Req_EM_T v 0) as [E|E]; [discriminate|].
  destruct (Rlt_dec v 0) as [L|L]; [intros H; injection H as <-; split; [reflexivity|lra]|].
  destruct (Rlt_dec 100 v) as [G|G]; [intros H; injection H as <-; split; [reflexivity|lra]|].
  discriminate.
Qed.

Lemma dbfs_to_pct_ok l p : dbfs_to_pct DR l = Ok p -> pct_ok p /\ l <= 0.
Proof.
  rewrite dbfs_to_pct_R. unfold pct_ok.
  destruct (Rlt_dec l (-30)) as [L|L]; [intros H; injection H as <-; lra|].
  destruct (Rlt_dec 0 l) as [G|G]; [discriminate|].
  intros H. injection H as <-. split; [apply d2p_closed|]; lra.
Qed.

Lemma dbfs_to_pct_raise l e : dbfs_to_pct DR l = Raise e -> e = ProtocolError /\ 0 < l.
Proof.
  rewrite dbfs_to_pct_R.
  destruct (Rlt_dec l (-30)) as [L|L]; [discriminate|].
  destruct (Rlt_dec 0 l) as [G|G]; [intros H; injection H as <-; now split|].
  discriminate.
Qed.

Lemma dbfs_to_pct_total l : l <= 0 -> exists p, dbfs_to_pct DR l = Ok p /\ pct_ok p.
Proof.
  intros H. destruct (dbfs_to_pct DR l) as [p|e] eqn:E.
  - exists p. split; [reflexivity|]. now apply dbfs_to_pct_ok in E.
  - apply dbfs_to_pct_raise in E. lra.
Qed.

Lemma dbfs_good_le0 d : dbfs_good d -> d <= 0.
Proof. unfold dbfs_good. lra. Qed.

(* RaopAudio.volume *)
Lemma raop_volume_ok c v : raop_volume DR c = Ok v -> pct_ok v.
Proof.
  destruct c as [d|]; cbn [raop_volume].
  - intros H. now apply dbfs_to_pct_ok in H.
  - unfold INITIAL_VOLUME. cbn [dZ DR]. intros H. injection H as <-. unfold pct_ok. lra.
Qed.

Lemma raop_volume_raise c e : raop_volume DR c = Raise e -> e = ProtocolError /\ exists d, c = Some d /\ 0 < d.
Proof.
  destruct c as [d|]; cbn [raop_volume].
  - intros H. apply dbfs_to_pct_raise in H. destruct H. split; [assumption|]. now exists d.
  - discriminate.
Qed.

(* ------------------------------------------------------------------ RAOP machine: every step *)

Definition ctx_le0 (s : rstate DR) : Prop := match ctx DR s with None => True | Some d => d <= 0 end.

Lemma raop_set_valid s level :
  pct_ok level ->
  exists d v, pct_to_dbfs DR level = Ok d /\ dbfs_good d /\ raop_volume DR (Some d) = Ok v /\ pct_ok v /\
    raop_set DR s level = (Build_rstate DR (Some d) (pend DR s ++ [v]) (fvol DR s), [@Fwd DR level; @Dev DR d]).
Proof.
  intros Hl. destruct (pct_to_dbfs_total level Hl) as (d & Ed & Gd).
  destruct (dbfs_to_pct_total d (dbfs_good_le0 d Gd)) as (v & Ev & Gv).
  exists d, v. split; [exact Ed|]. split; [exact Gd|]. split; [exact Ev|]. split; [exact Gv|].
  unfold raop_set. rewrite Ed. cbn [raop_volume]. rewrite Ev. reflexivity.
Qed.

Lemma raop_set_events s level :
  pct_ok level -> Forall good_event (snd (raop_set DR s level)) /\ ctx_le0 (fst (raop_set DR s level)).
Proof.
  intros Hl. destruct (raop_set_valid s level Hl) as (d & v & _ & Gd & _ & _ & E).
  rewrite E. cbn [fst snd]. split.
  - constructor; [exact Hl|]. constructor; [exact Gd|]. constructor.
  - unfold ctx_le0. cbn. now apply dbfs_good_le0.
Qed.

Lemma deliver_events s v : Forall good_event (snd (deliver DR s v)).
Proof.
  unfold deliver. destruct (pct_to_dbfs DR v) as [d|e] eqn:E; cbn [snd].
  - apply pct_to_dbfs_ok in E. destruct E as [_ Gd].
    apply Forall_app. split.
    + destruct (deq DR v (fvol DR s)); repeat constructor.
    + constructor; [exact Gd | constructor].
  - apply Forall_app. split.
    + destruct (deq DR v (fvol DR s)); repeat constructor.
    + repeat constructor.
Qed.

Lemma deliver_ctx s v : ctx_le0 s -> ctx_le0 (fst (deliver DR s v)).
Proof.
  unfold deliver, ctx_le0. destruct (pct_to_dbfs DR v) as [d|e] eqn:E; cbn.
  - intros _. apply pct_to_dbfs_ok in E. now apply dbfs_good_le0.
  - auto.
Qed.

Lemma deliver_all_events vs : forall s, Forall good_event (snd (deliver_all DR s vs)).
Proof.
  induction vs as [|v t IH]; intros s; cbn [deliver_all].
  - constructor.
  - pose proof (deliver_events s v) as H1.
    destruct (deliver DR s v) as [s1 e1]. specialize (IH s1).
    destruct (deliver_all DR s1 t) as [s2 e2]. cbn [snd] in *. apply Forall_app. now split.
Qed.

Lemma deliver_all_ctx vs : forall s, ctx_le0 s -> ctx_le0 (fst (deliver_all DR s vs)).
Proof.
  induction vs as [|v t IH]; intros s Hs; cbn [deliver_all].
  - exact Hs.
  - pose proof (deliver_ctx s v Hs) as H1.
    destruct (deliver DR s v) as [s1 e1]. cbn [fst] in H1. specialize (IH s1 H1).
    destruct (deliver_all DR s1 t) as [s2 e2]. exact IH.
Qed.

Lemma deliver_no_exc s v e : ~ In (@Exc DR e) (snd (deliver DR s v)).
Proof.
  unfold deliver. cbv zeta.
  destruct (pct_to_dbfs DR v); destruct (deq DR v (fvol DR s)); cbn; intuition discriminate.
Qed.

Lemma deliver_all_no_exc vs : forall s e, ~ In (@Exc DR e) (snd (deliver_all DR s vs)).
Proof.
  induction vs as [|v t IH]; intros s e; cbn [deliver_all].
  - intros [].
  - pose proof (deliver_no_exc s v e) as H1.
    destruct (deliver DR s v) as [s1 e1]. specialize (IH s1 e).
    destruct (deliver_all DR s1 t) as [s2 e2]. cbn [snd] in *.
    intros H. apply in_app_or in H. tauto.
Qed.

(* stream start: either the receiver's level is taken over (nothing was set before), or the
   current level is sent again - and that level is a valid one *)
Lemma rstream_resend s v :
  raop_volume DR (ctx DR s) = Ok v ->
  (ctx DR s <> None \/ True) ->
  forall i, (ctx DR s = None -> i = None) ->
  rstream DR s i = raop_set DR s v.
Proof.
  intros Ev _ i Hi. pose proof (raop_volume_ok _ _ Ev) as Gv.
  destruct (raop_set_valid s v Gv) as (d & w & _ & _ & _ & _ & E).
  unfold rstream. destruct (ctx DR s) as [c|] eqn:C.
  - rewrite Ev, E. reflexivity.
  - rewrite (Hi eq_refl), Ev, E. reflexivity.
Qed.

Lemma rstream_cases s i :
  (exists d, ctx DR s = None /\ i = Some d /\
             rstream DR s i = (Build_rstate DR (Some d) (pend DR s) (fvol DR s), [@Adopt DR d])) \/
  (exists e, raop_volume DR (ctx DR s) = Raise e /\ rstream DR s i = (s, [@Exc DR e])) \/
  (exists v, raop_volume DR (ctx DR s) = Ok v /\ rstream DR s i = raop_set DR s v).
Proof.
  destruct (ctx DR s) as [c|] eqn:C.
  - destruct (raop_volume DR (Some c)) as [v|e] eqn:Ev.
    + right. right. exists v. split; [reflexivity|].
      apply rstream_resend; [now rewrite C | now left; rewrite C | intros H; now rewrite C in H].
    + right. left. exists e. split; [reflexivity|]. unfold rstream. rewrite C, Ev. reflexivity.
  - destruct i as [d|].
    + left. exists d. repeat split. unfold rstream. rewrite C. reflexivity.
    + right. right. exists 33. split; [reflexivity|].
      apply rstream_resend; [now rewrite C | now right | reflexivity].
Qed.

(* any state, any operation, any real arguments *)
Lemma rstep_events s o : Forall good_event (snd (rstep DR s o)).
Proof.
  destruct o as [level| | | |v| |d|i]; cbn [rstep].
  - destruct (in_range DR level) eqn:G.
    + apply in_range_R in G. now apply raop_set_events.
    + constructor; [reflexivity | constructor].
  - destruct (raop_volume DR (ctx DR s)) as [v|e] eqn:E.
    + apply raop_volume_ok in E. apply raop_set_events. now apply step_up_closed.
    + apply raop_volume_raise in E. constructor; [apply E | constructor].
  - destruct (raop_volume DR (ctx DR s)) as [v|e] eqn:E.
    + apply raop_volume_ok in E. apply raop_set_events. now apply step_down_closed.
    + apply raop_volume_raise in E. constructor; [apply E | constructor].
  - destruct (raop_volume DR (ctx DR s)) as [v|e] eqn:E.
    + destruct (in_range DR v) eqn:G.
      * constructor; [|constructor]. now apply in_range_R in G.
      * constructor; [reflexivity | constructor].
    + apply raop_volume_raise in E. constructor; [apply E | constructor].
  - constructor.
  - apply deliver_all_events.
  - constructor.
  - destruct (rstream_cases s i) as [(d & _ & _ & E)|[(e & Ev & E)|(v & Ev & E)]]; rewrite E.
    + constructor; [exact I | constructor].
    + apply raop_volume_raise in Ev. constructor; [apply Ev | constructor].
    + apply raop_set_events. now apply raop_volume_ok in Ev.
Qed.

Lemma rrun_events ops : forall s, Forall (Forall good_event) (rrun DR s ops).
Proof.
  induction ops as [|o t IH]; intros s; cbn [rrun].
  - constructor.
  - pose proof (rstep_events s o) as H. destruct (rstep DR s o) as [s' ev]. constructor; [exact H | apply IH].
Qed.

(* nothing valid is rejected: as long as no device-side level above 0 dBFS is injected,
   the only exception a caller ever sees is ProtocolError for a set_volume outside [0,100] *)
Definition only_bad_set (o : @rop DR) (ev : list (@event DR)) : Prop :=
  forall e, In (Exc e) ev -> exists level, o = @RSet DR level /\ ~ pct_ok level /\ ev = [@Exc DR ProtocolError].

Definition inject_ok (o : @rop DR) : Prop :=
  match o with RInject d => d <= 0 | RStream (Some d) => d <= 0 | _ => True end.

Lemma rstep_no_spurious s o :
  ctx_le0 s -> inject_ok o ->
  only_bad_set o (snd (rstep DR s o)) /\ ctx_le0 (fst (rstep DR s o)).
Proof.
  intros Hs Ho.
  assert (V : exists v, raop_volume DR (ctx DR s) = Ok v /\ pct_ok v).
  { unfold ctx_le0 in Hs. destruct (ctx DR s) as [d|]; cbn [raop_volume].
    - now apply dbfs_to_pct_total.
    - exists 33. split; [reflexivity | unfold pct_ok; lra]. }
  destruct V as (v & Ev & Gv).
  assert (SetOK : forall level, pct_ok level ->
            only_bad_set o (snd (raop_set DR s level)) /\ ctx_le0 (fst (raop_set DR s level))).
  { intros level Hl. destruct (raop_set_valid s level Hl) as (d & w & _ & Gd & _ & _ & E).
    rewrite E. cbn [fst snd]. split.
    - intros e [H|[H|[]]]; discriminate.
    - unfold ctx_le0. cbn. now apply dbfs_good_le0. }
  destruct o as [level| | | |w| |d|i]; cbn [rstep].
  - destruct (in_range DR level) eqn:G.
    + apply in_range_R in G. now apply SetOK.
    + apply in_range_R_false in G. cbn [fst snd]. split; [|exact Hs].
      intros e [H|[]]. injection H as <-. exists level. auto.
  - rewrite Ev. apply SetOK. now apply step_up_closed.
  - rewrite Ev. apply SetOK. now apply step_down_closed.
  - rewrite Ev. apply in_range_R in Gv. rewrite Gv. cbn [fst snd]. split; [|exact Hs].
    intros e [H|[]]; discriminate.
  - cbn [fst snd]. split; [intros e []|exact Hs].
  - split.
    + intros e He. exfalso. exact (deliver_all_no_exc _ _ _ He).
    + apply deliver_all_ctx. exact Hs.
  - cbn [fst snd]. split; [intros e []|]. unfold ctx_le0. cbn. exact Ho.
  - destruct (rstream_cases s i) as [(d & _ & Ei & E)|[(e & Ev' & E)|(v' & Ev' & E)]]; rewrite E.
    + subst i. cbn [fst snd]. split; [intros e [H|[]]; discriminate|]. unfold ctx_le0. cbn. exact Ho.
    + rewrite Ev in Ev'. discriminate.
    + rewrite Ev in Ev'. injection Ev' as <-. now apply SetOK.
Qed.

Lemma rrun_no_spurious ops : forall s,
  ctx_le0 s -> Forall inject_ok ops ->
  Forall2 only_bad_set ops (rrun DR s ops).
Proof.
  induction ops as [|o t IH]; intros s Hs Ho; cbn [rrun].
  - constructor.
  - inversion Ho as [|? ? Ho1 Ho2]; subst.
    destruct (rstep_no_spurious s o Hs Ho1) as [H1 H2].
    destruct (rstep DR s o) as [s' ev]. cbn [fst snd] in *. constructor; [exact H1 | now apply IH].
Qed.

(* RaopAudio.set_volume with a valid level: what is stored reads back within 2^-43 *)
Lemma raop_set_bound s x :
  pct_ok x ->
  exists d y, raop_set DR s x = (Build_rstate DR (Some d) (pend DR s ++ [y]) (fvol DR s), [@Fwd DR x; @Dev DR d]) /\
              dbfs_good d /\ raop_volume DR (Some d) = Ok y /\ pct_ok y /\ Rabs (y - x) <= bpow radix2 (-43).
Proof.
  intros Hx. destruct (raop_set_valid s x Hx) as (d & y & Ed & Gd & Ey & Gy & E).
  exists d, y. split; [exact E|]. split; [exact Gd|]. split; [exact Ey|]. split; [exact Gy|].
  cbn [raop_volume] in Ey.
  destruct (Req_EM_T x 0) as [Z|NZ].
  - subst x. rewrite pct_to_dbfs_R in Ed. destruct (Req_EM_T 0 0); [|contradiction].
    injection Ed as <-. rewrite dbfs_to_pct_R in Ey.
    destruct (Rlt_dec (-144) (-30)); [|lra]. injection Ey as <-.
    rewrite Rminus_0_r, Rabs_R0. apply bpow_ge_0.
  - apply (roundtrip_bound x d y); try assumption. unfold pct_ok in Hx. lra.
Qed.

(* a level set by the user survives the start of a stream, whatever initial level the receiver
   advertises: it is sent to the receiver again and reads back within 2^-42 *)
Lemma set_stream_read x i :
  pct_ok x ->
  exists d y d' y',
    rrun DR (rinit DR) [@RSet DR x; @RStream DR i; @RRead DR] =
      [[@Fwd DR x; @Dev DR d]; [@Fwd DR y; @Dev DR d']; [@Ret DR y']] /\
    dbfs_good d /\ dbfs_good d' /\ Rabs (y - x) <= bpow radix2 (-43) /\
    pct_ok y' /\ Rabs (y' - x) <= bpow radix2 (-42).
Proof.
  intros Hx. pose proof Hx as Hx'. apply in_range_R in Hx'.
  destruct (raop_set_bound (rinit DR) x Hx) as (d & y & E1 & Gd & Ey & Gy & B1).
  set (s1 := Build_rstate DR (Some d) (pend DR (rinit DR) ++ [y]) (fvol DR (rinit DR))) in *.
  destruct (raop_set_bound s1 y Gy) as (d' & y' & E2 & Gd' & Ey' & Gy' & B2).
  exists d, y, d', y'. cbn [rrun rstep]. rewrite Hx', E1.
  assert (ES : rstream DR s1 i = raop_set DR s1 y).
  { apply rstream_resend; [exact Ey | now left | intros H; discriminate H]. }
  rewrite ES, E2. cbn [ctx]. rewrite Ey'.
  pose proof Gy' as G2. apply in_range_R in G2. rewrite G2.
  split; [reflexivity|]. split; [exact Gd|]. split; [exact Gd'|]. split; [exact B1|]. split; [exact Gy'|].
  replace (y' - x) with ((y' - y) + (y - x)) by ring.
  eapply Rle_trans; [apply Rabs_triang|].
  replace (bpow radix2 (-42)) with (bpow radix2 (-43) + bpow radix2 (-43)).
  - lra.
  - change (-42)%Z with (-43 + 1)%Z. rewrite bpow_plus, bpow_1. change (IZR radix2) with 2. lra.
Qed.

(* set a level, read it back *)
Lemma set_then_read x :
  pct_ok x ->
  exists d y, rrun DR (rinit DR) [@RSet DR x; @RRead DR] = [[@Fwd DR x; @Dev DR d]; [@Ret DR y]] /\
              dbfs_good d /\ pct_ok y /\ Rabs (y - x) <= bpow radix2 (-43).
Proof.
  intros Hx. pose proof Hx as Hx'. apply in_range_R in Hx'.
  destruct (raop_set_valid (rinit DR) x Hx) as (d & y & Ed & Gd & Ey & Gy & E).
  exists d, y. cbn [rrun rstep]. rewrite Hx'. rewrite E.
  cbn [ctx]. rewrite Ey. pose proof Gy as Gy'. apply in_range_R in Gy'. rewrite Gy'.
  repeat split; try assumption; try apply Gy.
  cbn [raop_volume] in Ey.
  destruct (Req_EM_T x 0) as [Z|NZ].
  - subst x. rewrite pct_to_dbfs_R in Ed. destruct (Req_EM_T 0 0); [|contradiction].
    injection Ed as <-. rewrite dbfs_to_pct_R in Ey.
    destruct (Rlt_dec (-144) (-30)); [|lra]. injection Ey as <-.
    rewrite Rminus_0_r, Rabs_R0. apply bpow_ge_0.
  - apply (roundtrip_bound x d y); try assumption. unfold pct_ok in Hx. lra.
Qed.

(* ------------------------------------------------------------------ MRP machine *)

Definition mreport_ok (o : @mop DR) : Prop := match o with MReport v => pct_ok v | _ => True end.
(* note: MOther v (a level change of ANOTHER output device) carries no condition at all *)

Lemma mstep_events s o :
  pct_ok (mvol DR s) -> mreport_ok o ->
  Forall good_event (snd (mstep DR s o)) /\ pct_ok (mvol DR (fst (mstep DR s o))).
Proof.
  intros Hv Ho. destruct o as [level| | | |v|w]; cbn [mstep].
  - destruct (in_range DR level) eqn:G; cbn [fst snd]; (split; [|exact Hv]).
    + constructor; [|constructor]. now apply in_range_R in G.
    + constructor; [reflexivity | constructor].
  - destruct (mabs DR s && deq DR (mvol DR s) (dZ DR 100)); [split; [constructor|assumption]|].
    destruct (mrel DR s); [split; [constructor; [exact I | constructor]|assumption]|].
    destruct (mabs DR s); cbn [fst snd]; (split; [|exact Hv]).
    + constructor; [|constructor]. now apply step_up_closed.
    + constructor.
  - destruct (mabs DR s && deq DR (mvol DR s) (dZ DR 0)); [split; [constructor|assumption]|].
    destruct (mrel DR s); [split; [constructor; [exact I | constructor]|assumption]|].
    destruct (mabs DR s); cbn [fst snd]; (split; [|exact Hv]).
    + constructor; [|constructor]. now apply step_down_closed.
    + constructor.
  - pose proof Hv as Hv'. apply in_range_R in Hv'. rewrite Hv'. cbn [fst snd]. split; [|assumption].
    constructor; [exact Hv | constructor].
  - cbn [fst snd mvol]. split; [constructor | exact Ho].
  - cbn [fst snd]. split; [constructor | exact Hv].
Qed.

(* a level change of another output device of the group changes nothing and shows nothing *)
Lemma mother_noop s v : mstep DR s (@MOther DR v) = (s, []).
Proof. reflexivity. Qed.

Lemma mrun_events ops : forall s,
  pct_ok (mvol DR s) -> Forall mreport_ok ops -> Forall (Forall good_event) (mrun DR s ops).
Proof.
  induction ops as [|o t IH]; intros s Hs Ho; cbn [mrun].
  - constructor.
  - inversion Ho as [|? ? Ho1 Ho2]; subst.
    destruct (mstep_events s o Hs Ho1) as [H1 H2].
    destruct (mstep DR s o) as [s' ev]. cbn [fst snd] in *. constructor; [exact H1 | now apply IH].
Qed.

(* the side condition is needed: a device that reports a level below 0 gets an
   out-of-range level back on volume_up (this is pyatv's behaviour, see known findings) *)
Lemma mrp_step_refuted :
  exists ops l, mrun DR (Build_mstate DR 0 true false) ops = [[]; [@Fwd DR l]] /\ ~ pct_ok l.
Proof.
  exists [@MReport DR (-50); @MUp DR], (-45). split.
  - cbn [mrun mstep mabs mrel mvol andb].
    cbn [deq dZ DR T]. rewrite (Reqb_false (-50) 100) by lra. cbn [andb].
    rewrite step_up_R.
    replace (-50 + 5) with (IZR (-45)) by (simpl; lra). rewrite (rnd_Z (-45)) by zb.
    destruct (Rlt_dec 100 (IZR (-45))) as [L|L]; [exfalso; simpl in L; lra | reflexivity].
  - unfold pct_ok. lra.
Qed.

(* ------------------------------------------------------------------ monotone, sentinel included *)

Lemma weak_mono_pct x y dx dy :
  x <= y -> pct_to_dbfs DR x = Ok dx -> pct_to_dbfs DR y = Ok dy -> dx <= dy.
Proof.
  intros Hxy Hx Hy.
  pose proof (pct_to_dbfs_ok _ _ Hx) as [[X0 X1] Gx].
  pose proof (pct_to_dbfs_ok _ _ Hy) as [[Y0 Y1] Gy].
  rewrite pct_to_dbfs_R in Hx, Hy.
  destruct (Req_EM_T x 0) as [Ex|Ex].
  - injection Hx as <-. unfold dbfs_good in Gy. lra.
  - destruct (Rlt_dec x 0); [discriminate|]. destruct (Rlt_dec 100 x); [discriminate|].
    injection Hx as <-.
    destruct (Req_EM_T y 0) as [Ey|Ey]; [lra|].
    destruct (Rlt_dec y 0); [discriminate|]. destruct (Rlt_dec 100 y); [discriminate|].
    injection Hy as <-. now apply p2d_mono.
Qed.

Lemma weak_mono_dbfs a b pa pb :
  a <= b -> dbfs_to_pct DR a = Ok pa -> dbfs_to_pct DR b = Ok pb -> pa <= pb.
Proof.
  intros Hab Ha Hb.
  pose proof (dbfs_to_pct_ok _ _ Hb) as [[B0 B1] _].
  rewrite dbfs_to_pct_R in Ha, Hb.
  destruct (Rlt_dec a (-30)) as [La|La].
  - injection Ha as <-. exact B0.
  - destruct (Rlt_dec 0 a); [discriminate|]. injection Ha as <-.
    destruct (Rlt_dec b (-30)); [lra|]. destruct (Rlt_dec 0 b); [discriminate|].
    injection Hb as <-. now apply d2p_mono.
Qed.

Lemma dbfs_to_pct_cases l :
  (0 < l /\ dbfs_to_pct DR l = Raise ProtocolError) \/
  (l <= 0 /\ exists p, dbfs_to_pct DR l = Ok p /\ pct_ok p).
Proof.
  destruct (Rlt_dec 0 l) as [G|G].
  - left. split; [exact G|]. rewrite dbfs_to_pct_R.
    destruct (Rlt_dec l (-30)); [lra|]. destruct (Rlt_dec 0 l); [reflexivity | contradiction].
  - right. split; [lra|]. apply dbfs_to_pct_total. lra.
Qed.

Lemma pct_to_dbfs_cases x :
  (pct_ok x /\ exists d, pct_to_dbfs DR x = Ok d /\ dbfs_good d) \/
  (~ pct_ok x /\ pct_to_dbfs DR x = Raise ValueError).
Proof.
  destruct (pct_to_dbfs DR x) as [d|e] eqn:E.
  - left. apply pct_to_dbfs_ok in E. destruct E. split; [assumption|]. now exists d.
  - right. apply pct_to_dbfs_raise in E. destruct E as [-> H]. now split.
Qed.

Lemma guarded_R v :
  (pct_ok v /\ in_range DR v = true) \/ (~ pct_ok v /\ in_range DR v = false).
Proof.
  destruct (in_range DR v) eqn:E.
  - left. split; [now apply in_range_R | reflexivity].
  - right. split; [now apply in_range_R_false | reflexivity].
Qed.

(* ------------------------------------------------------------------ Companion + RAOP on one dispatcher *)

Lemma xstep_events s o : Forall good_event (snd (xstep DR s o)).
Proof.
  destruct o as [level| | | |f| | | |i]; cbn [xstep].
  - destruct (in_range DR level) eqn:G; cbn [snd].
    + constructor; [|constructor]. now apply in_range_R in G.
    + constructor; [reflexivity | constructor].
  - constructor; [exact I | constructor].
  - constructor; [exact I | constructor].
  - destruct (in_range DR (cvol DR s)) eqn:G; cbn [snd].
    + constructor; [|constructor]. now apply in_range_R in G.
    + constructor; [reflexivity | constructor].
  - constructor.
  - constructor.
  - constructor.
  - pose proof (rstep_events (xr DR s) (@RPump DR)) as H.
    destruct (rstep DR (xr DR s) (@RPump DR)) as [r ev]. exact H.
  - pose proof (rstep_events (xr DR s) (@RStream DR i)) as H.
    destruct (rstep DR (xr DR s) (@RStream DR i)) as [r ev]. exact H.
Qed.

Lemma xrun_events ops : forall s, Forall (Forall good_event) (xrun DR s ops).
Proof.
  induction ops as [|o t IH]; intros s; cbn [xrun].
  - constructor.
  - pose proof (xstep_events s o) as H. destruct (xstep DR s o) as [s' ev]. constructor; [exact H | apply IH].
Qed.

(* the hop through the dispatcher: a level the device reports (as a fraction f) is what RaopAudio
   sends to the receiver at the next stream start - rnd(f*100) percent, within 2^-43 - whatever
   initial level the receiver advertises ... *)
Lemma cross_forward f i :
  pct_ok (rnd (f * 100)) ->
  exists evp d y d',
    xrun DR (xinit DR) [@XReport DR f; @XPump DR; @XStream DR i] = [[]; evp; [@Fwd DR y; @Dev DR d']] /\
    ~ (exists e, In (@Exc DR e) evp) /\ In (@Echo DR d) evp /\
    dbfs_good d /\ dbfs_good d' /\ Rabs (y - rnd (f * 100)) <= bpow radix2 (-43).
Proof.
  intros Hv. set (v := rnd (f * 100)) in *.
  destruct (pct_to_dbfs_total v Hv) as (d & Ed & Gd).
  destruct (dbfs_to_pct_total d (dbfs_good_le0 _ Gd)) as (y & Ey & Gy).
  set (s1 := Build_rstate DR (Some d) [] v).
  destruct (raop_set_bound s1 y Gy) as (d' & y' & E2 & Gd' & _ & _ & _).
  exists ((if deq DR v (zero DR) then [] else [@Push DR (zero DR) v]) ++ [@Echo DR d]), d, y, d'.
  split; [|split; [|split; [|split; [|split]]]].
  - cbn [xrun xstep rstep announce xinit rinit xr cvol pend ctx fvol app deliver_all].
    change (dmul DR f (dZ DR 100)) with v.
    unfold deliver. cbn [fvol pend ctx]. rewrite Ed. cbn [app].
    rewrite app_nil_r.
    assert (ES : rstream DR s1 i = raop_set DR s1 y).
    { apply rstream_resend; [exact Ey | now left | intros H; discriminate H]. }
    unfold s1 in ES. cbn [xr cvol]. rewrite ES. fold s1. rewrite E2. reflexivity.
  - intros (e & He). apply in_app_or in He. destruct He as [He|[He|[]]]; [|discriminate].
    destruct (deq DR v (zero DR)); [destruct He | destruct He as [He|[]]; discriminate].
  - apply in_or_app. right. now left.
  - exact Gd.
  - exact Gd'.
  - destruct (Req_EM_T v 0) as [Z|NZ].
    + rewrite Z in *. rewrite pct_to_dbfs_R in Ed. destruct (Req_EM_T 0 0); [|contradiction].
      injection Ed as <-. cbn [raop_volume] in Ey. rewrite dbfs_to_pct_R in Ey.
      destruct (Rlt_dec (-144) (-30)); [|lra]. injection Ey as <-.
      rewrite Rminus_0_r, Rabs_R0. apply bpow_ge_0.
    + apply (roundtrip_bound v d y); try assumption. unfold pct_ok in Hv. lra.
Qed.

(* ... and a report outside [0,100] percent is NOT taken over: the listener's failure is swallowed,
   the stored level is untouched, the next stream starts from the default *)
Lemma cross_rejected f :
  ~ pct_ok (rnd (f * 100)) ->
  exists evp d,
    xrun DR (xinit DR) [@XReport DR f; @XPump DR; @XStream DR None] = [[]; evp; [@Fwd DR 33; @Dev DR d]] /\
    In (@Swallowed DR ValueError) evp /\ (forall d0, ~ In (@Echo DR d0) evp) /\ dbfs_good d.
Proof.
  intros Hv. set (v := rnd (f * 100)) in *.
  destruct (pct_to_dbfs_cases v) as [[H _]|[_ Ed]]; [contradiction|].
  set (s1 := Build_rstate DR None [] v).
  assert (G33 : pct_ok 33) by (unfold pct_ok; lra).
  destruct (raop_set_bound s1 33 G33) as (d & y & E2 & Gd & _ & _ & _).
  exists ((if deq DR v (zero DR) then [] else [@Push DR (zero DR) v]) ++ [@Swallowed DR ValueError]), d.
  split; [|split; [|split]].
  - cbn [xrun xstep rstep announce xinit rinit xr cvol pend ctx fvol app deliver_all].
    change (dmul DR f (dZ DR 100)) with v.
    unfold deliver. cbn [fvol pend ctx]. rewrite Ed. cbn [app]. rewrite app_nil_r.
    assert (ES : rstream DR s1 None = raop_set DR s1 33).
    { apply rstream_resend; [reflexivity | now right | reflexivity]. }
    unfold s1 in ES. cbn [xr cvol]. rewrite ES. fold s1. rewrite E2. reflexivity.
  - apply in_or_app. right. now left.
  - intros d0 He. apply in_app_or in He. destruct He as [He|[He|[]]]; [|discriminate].
    destruct (deq DR v (zero DR)); [destruct He | destruct He as [He|[]]; discriminate].
  - exact Gd.
Qed.
