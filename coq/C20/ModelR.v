(* C20 - third number domain: the reals with every operation rounded to binary64
   (round to nearest, ties to even) by Flocq's [round].  This is IEEE 754 arithmetic on
   finite values as long as nothing overflows; every value handled by the volume code is
   below 2^12 in magnitude, so overflow cannot occur (the closure theorems bound every
   intermediate result).  NaN, infinities and the sign of zero do not exist in this domain;
   they are covered by the guard theorems on [fval] and by the PrimFloat witnesses.
   No proofs in this file. *)
From Coq Require Import Reals ZArith.
From Flocq Require Import Core.
From PV Require Import C20.Model.
Open Scope R_scope.

Definition fexp := FLT_exp (-1074) 53.
Definition rnd : R -> R := round radix2 fexp ZnearestE.

Definition Rltb (a b : R) : bool := if Rlt_dec a b then true else false.
Definition Rleb (a b : R) : bool := if Rle_dec a b then true else false.
Definition Reqb (a b : R) : bool := if Req_EM_T a b then true else false.

Definition DR : Dom := {|
  T := R; dZ := IZR;
  dadd := fun a b => rnd (a + b);
  dsub := fun a b => rnd (a - b);
  dmul := fun a b => rnd (a * b);
  ddiv := fun a b => rnd (a / b);
  dlt := Rltb; dle := Rleb; deq := Reqb |}.
