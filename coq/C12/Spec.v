(* C12 - the property as mathematical objects: when two scan results are "the same set of
   configurations", and what "self-consistent devices" means.

   The snapshot the property talks about is, per configuration: address, identifiers,
   services with ports and properties (the merged per-protocol ones and the per-service-type
   table config.properties), model, deep-sleep flag - plus what a user derives from it: the device name, the main
   identifier (config.identifier) and the main service (config.main_service()). *)
From Coq Require Import List Bool Arith NArith.
From PV Require Import Common.Cases C12.Model C12.DictLemmas.
Import ListNotations.

(* two property dictionaries are the same mapping *)
Definition props_equiv (p q : dict) : Prop := forall k, pget k p = pget k q.

Definition bsvc_equiv (b c : bsvc) : Prop :=
  bident b = bident c /\ bproto b = bproto c /\ bport b = bport c /\ props_equiv (bprops b) (bprops c).

(* same set of services (up to the order of properties) *)
Definition svcs_equiv (l l' : list bsvc) : Prop :=
  (forall b, In b l -> exists b', In b' l' /\ bsvc_equiv b b') /\
  (forall b', In b' l' -> exists b, In b l /\ bsvc_equiv b b').

Definition config_equiv (c d : config) : Prop :=
  caddr c = caddr d /\ cdeep c = cdeep d /\ cmodel c = cmodel d /\ svcs_equiv (csvcs c) (csvcs d) /\
  (* the per-service-type property table config.properties *)
  (forall ty, dget str_eqb ty (cprops c) = dget str_eqb ty (cprops d)) /\
  (* derived attributes a user reads: name, main identifier, main service *)
  cname c = cname d /\ main_identifier c = main_identifier d /\ main_service c = main_service d.

(* same set of configurations *)
Definition snapshot_equiv (l l' : list config) : Prop :=
  (forall c, In c l -> exists c', In c' l' /\ config_equiv c c') /\
  (forall c', In c' l' -> exists c, In c l /\ config_equiv c c').

(* ------------------------------------------------------------ what the scanner extracts from responses *)

(* one call of _service_discovered that changes the scanner state *)
Record item := mkI
  { ia : N; ity : str; iprops : dict; ih : option (option str * bsvc); ideep : bool; imodel : N }.

Definition item_of (lk : lookups) (types : list str) (deep : bool) (model : option str) (sv : service) : list item :=
  if existsb (str_eqb (stype sv)) types then
    match saddr sv with
    | None => []
    | Some a =>
        if N.eqb (sport sv) 0 then []
        else match handler sv with
             | HRaise => []
             | HNone => [mkI a (stype sv) (sprops sv) None deep (lk_internal lk model)]
             | HSome nm b => [mkI a (stype sv) (sprops sv) (Some (nm, b)) deep (lk_internal lk model)]
             end
    end
  else [].

Definition items_of (lk : lookups) (types : list str) (r : response) : list item :=
  flat_map (item_of lk types (rdeep r) (rmodel r)) (rservices r).
Definition all_items (lk : lookups) (types : list str) (rs : list response) : list item :=
  flat_map (items_of lk types) rs.

Definition hint_of (lk : lookups) (it : item) : option N := model_hint lk (ity it) (iprops it).

(* ------------------------------------------------------------ self-consistent devices *)

(* Consistency of what is announced about ONE address (across sources and service instances):
   K1  services that map to the same protocol agree on identifier and port and do not
       contradict each other in any property,
   K2  two announcements of the same service type carry the same properties,
   K3  all announcements come with the same deep-sleep flag, _device-info model and device name,
   K4  the model hints of the different service types do not contradict each other. *)
Definition items_consistent (lk : lookups) (D : list item) : Prop :=
  (forall x y nm b nm' b', In x D -> In y D -> ia x = ia y ->
      ih x = Some (nm, b) -> ih y = Some (nm', b') -> bproto b = bproto b' ->
      bident b = bident b' /\ bport b = bport b' /\
      (forall k v v', In (k, v) (bprops b) -> In (k, v') (bprops b') -> v = v')) /\
  (forall x y, In x D -> In y D -> ia x = ia y -> ity x = ity y -> iprops x = iprops y) /\
  (forall x y nm b nm' b', In x D -> In y D -> ia x = ia y ->
      ih x = Some (nm, b) -> ih y = Some (nm', b') -> ideep x = ideep y /\ imodel x = imodel y /\ nm = nm') /\
  (forall x y m m', In x D -> In y D -> ia x = ia y ->
      hint_of lk x = Some m -> hint_of lk y = Some m' -> m = m').

Lemma items_consistent_same_set : forall lk D D', same_set D D' -> items_consistent lk D -> items_consistent lk D'.
Proof.
  intros lk D D' S (K1 & K2 & K3 & K4). split; [|split; [|split]].
  - intros x y nm b nm' b' I I'. apply S in I, I'. eapply K1; eassumption.
  - intros x y I I'. apply S in I, I'. now apply K2.
  - intros x y nm b nm' b' I I'. apply S in I, I'. eapply K3; eassumption.
  - intros x y m m' I I'. apply S in I, I'. now apply K4.
Qed.
