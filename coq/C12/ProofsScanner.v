(* C12 - BaseScanner: the scanner state is a fold over "items"; the configuration of one
   address is an explicit function of the items of that address; under items_consistent it
   only depends on the SET of items. *)
From Coq Require Import List Bool Arith NArith Lia.
From PV Require Import Common.Cases C12.Model C12.DictLemmas C12.Spec.
Import ListNotations.

Lemma Neqb_eq' : forall x y, N.eqb x y = true <-> x = y.
Proof. apply N.eqb_eq. Qed.

(* ------------------------------------------------------------ handle_response as a fold over items *)

Definition apply_item (st : sstate) (it : item) : sstate :=
  mkS (match ih it with
       | Some (nm, b) => add_found (ia it) nm (ideep it) (imodel it) b (found st)
       | None => found st
       end)
      (save_props (ia it) (ity it) (iprops it) (sprops_ st)).

Lemma service_discovered_items : forall lk types r st sv,
  (if existsb (str_eqb (stype sv)) types then service_discovered lk r st sv else st) =
  fold_left apply_item (item_of lk types (rdeep r) (rmodel r) sv) st.
Proof.
  intros lk types r st sv. unfold item_of, service_discovered.
  destruct (existsb (str_eqb (stype sv)) types); [|reflexivity].
  destruct (saddr sv) as [a|]; [|reflexivity].
  destruct (N.eqb (sport sv) 0); [reflexivity|].
  destruct (handler sv); reflexivity.
Qed.

Lemma handle_response_items : forall lk types r st,
  handle_response lk types st r = fold_left apply_item (items_of lk types r) st.
Proof.
  intros lk types r. unfold handle_response, items_of.
  induction (rservices r) as [|sv t IH]; intro st; simpl; [reflexivity|].
  rewrite fold_left_app, <- service_discovered_items. apply IH.
Qed.

Lemma scan_items : forall lk types rs st,
  fold_left (handle_response lk types) rs st = fold_left apply_item (all_items lk types rs) st.
Proof.
  intros lk types. unfold all_items. induction rs as [|r t IH]; intro st; simpl; [reflexivity|].
  rewrite fold_left_app, <- handle_response_items. apply IH.
Qed.

(* ------------------------------------------------------------ the two maps separately *)

Notation hitem := (item * option str * bsvc)%type.
Definition hitems (D : list item) : list hitem :=
  flat_map (fun it => match ih it with Some (nm, b) => [(it, nm, b)] | None => [] end) D.
Definition h_it (x : hitem) : item := fst (fst x).
Definition h_nm (x : hitem) : option str := snd (fst x).
Definition h_b (x : hitem) : bsvc := snd x.

Definition f_ins (x : hitem) : fdev := mkF (h_nm x) (ideep (h_it x)) (imodel (h_it x)) [h_b x].
Definition f_upd (x : hitem) (d : fdev) : fdev := mkF (fname d) (fdeep d) (fmodel d) (fsvcs d ++ [h_b x]).
Definition p_upd (it : item) (d : list (str * dict)) := dset str_eqb (ity it) (iprops it) d.

Lemma found_fold : forall D st,
  found (fold_left apply_item D st) =
  fold_left (ustep N.eqb (fun x => ia (h_it x)) f_ins f_upd) (hitems D) (found st).
Proof.
  induction D as [|it t IH]; intro st; simpl; [reflexivity|].
  rewrite IH, fold_left_app. simpl found. f_equal.
  destruct (ih it) as [[nm b]|]; reflexivity.
Qed.

Lemma props_fold : forall D st,
  sprops_ (fold_left apply_item D st) =
  fold_left (ustep N.eqb ia (fun it => p_upd it []) p_upd) D (sprops_ st).
Proof.
  induction D as [|it t IH]; intro st; simpl; [reflexivity|].
  rewrite IH. reflexivity.
Qed.

Definition at_addr (a : N) (D : list item) : list item := filter (fun it => N.eqb a (ia it)) D.

Lemma hitems_filter : forall a D,
  filter (fun x => N.eqb a (ia (h_it x))) (hitems D) = hitems (at_addr a D).
Proof.
  intros a. induction D as [|it t IH]; [reflexivity|].
  change (hitems (it :: t)) with
    ((match ih it with Some (nm, b) => [(it, nm, b)] | None => [] end) ++ hitems t).
  rewrite filter_app, IH.
  change (at_addr a (it :: t)) with (if N.eqb a (ia it) then it :: at_addr a t else at_addr a t).
  destruct (N.eqb a (ia it)) eqn:E.
  - change (hitems (it :: at_addr a t)) with
      ((match ih it with Some (nm, b) => [(it, nm, b)] | None => [] end) ++ hitems (at_addr a t)).
    f_equal. destruct (ih it) as [[nm b]|]; [|reflexivity].
    cbn [filter h_it fst]. now rewrite E.
  - destruct (ih it) as [[nm b]|]; [|reflexivity].
    cbn [filter h_it fst app]. now rewrite E.
Qed.

Lemma f_upd_fold : forall l d,
  fold_left (fun a x => f_upd x a) l d = mkF (fname d) (fdeep d) (fmodel d) (fsvcs d ++ map h_b l).
Proof.
  induction l as [|x t IH]; intro d; simpl.
  - rewrite app_nil_r. now destruct d.
  - rewrite IH. simpl. now rewrite <- app_assoc.
Qed.

Definition fdev_of (l : list hitem) : option fdev :=
  match l with
  | [] => None
  | x :: t => Some (mkF (h_nm x) (ideep (h_it x)) (imodel (h_it x)) (map h_b (x :: t)))
  end.

Lemma found_get : forall D a,
  dget N.eqb a (found (fold_left apply_item D sstate0)) = fdev_of (hitems (at_addr a D)).
Proof.
  intros D a. rewrite found_fold. simpl found.
  rewrite (dget_fold_upsert N.eqb Neqb_eq'). simpl dget. rewrite hitems_filter.
  destruct (hitems (at_addr a D)) as [|x t]; [reflexivity|]. simpl.
  change (kstep f_ins f_upd None x) with (Some (f_ins x)). rewrite kstep_fold_some. rewrite f_upd_fold. reflexivity.
Qed.

Definition props_of (l : list item) : list (str * dict) := fold_left (fun d it => p_upd it d) l [].

Lemma props_get : forall D a,
  dget N.eqb a (sprops_ (fold_left apply_item D sstate0)) =
  match at_addr a D with [] => None | l => Some (props_of l) end.
Proof.
  intros D a. rewrite props_fold. simpl sprops_.
  rewrite (dget_fold_upsert N.eqb Neqb_eq'). simpl dget.
  rewrite (kstep_fold_none p_upd []). fold (at_addr a D).
  destruct (at_addr a D); reflexivity.
Qed.

Lemma found_NoDup : forall D, NoDup (map fst (found (fold_left apply_item D sstate0))).
Proof. intro D. rewrite found_fold. apply (NoDup_fold_upsert N.eqb Neqb_eq'). constructor. Qed.

Lemma hitems_In : forall D it nm b, In (it, nm, b) (hitems D) <-> In it D /\ ih it = Some (nm, b).
Proof.
  intros D it nm b. unfold hitems. rewrite in_flat_map. split.
  - intros (x & I & H). destruct (ih x) as [[n c]|] eqn:E; [|destruct H].
    destruct H as [[= -> -> ->]|[]]. auto.
  - intros [I E]. exists it. rewrite E. split; [assumption|now left].
Qed.

Lemma at_addr_In : forall a D it, In it (at_addr a D) <-> In it D /\ ia it = a.
Proof.
  intros a D it. unfold at_addr. rewrite filter_In. split; intros [I E]; (split; [assumption|]).
  - apply N.eqb_eq in E. congruence.
  - apply N.eqb_eq. congruence.
Qed.

Lemma at_addr_same_set : forall a D D', same_set D D' -> same_set (at_addr a D) (at_addr a D').
Proof. intros a D D' S it. rewrite !at_addr_In. specialize (S it). tauto. Qed.

Lemma hitems_same_set : forall D D', same_set D D' -> same_set (hitems D) (hitems D').
Proof. intros D D' S [[it nm] b]. rewrite !hitems_In. specialize (S it). tauto. Qed.

(* ------------------------------------------------------------ merged services of one address *)

Definition compatible (bs : list bsvc) : Prop :=
  forall b b', In b bs -> In b' bs -> bproto b = bproto b' ->
    bident b = bident b' /\ bport b = bport b' /\
    (forall k v v', In (k, v) (bprops b) -> In (k, v') (bprops b') -> v = v').

Lemma compatible_same_set : forall bs bs', same_set bs bs' -> compatible bs -> compatible bs'.
Proof. intros bs bs' S C b b' I I'. apply S in I, I'. now apply C. Qed.

Definition of_proto (p : proto) (bs : list bsvc) : list bsvc := filter (fun b => proto_eqb p (bproto b)) bs.
Definition mprops (t : list bsvc) (p0 : dict) : dict :=
  fold_left (fun pr b => dupdate str_eqb pr (bprops b)) t p0.
Definition merged (bs : list bsvc) : option bsvc :=
  match bs with
  | [] => None
  | b0 :: t => Some (mkB (bident b0) (bproto b0) (bport b0) (mprops t (bprops b0)))
  end.

Lemma merge_fold : forall t b0,
  fold_left (fun e b => merge b e) t b0 = mkB (bident b0) (bproto b0) (bport b0) (mprops t (bprops b0)).
Proof.
  induction t as [|b t IH]; intro b0; simpl.
  - now destruct b0.
  - rewrite IH. reflexivity.
Qed.

Lemma services_get : forall bs p,
  dget proto_eqb p (fold_left add_service bs []) = merged (of_proto p bs).
Proof.
  intros bs p.
  change add_service with (ustep proto_eqb bproto (fun b : bsvc => b) merge).
  rewrite (dget_fold_upsert proto_eqb proto_eqb_eq). simpl dget. fold (of_proto p bs).
  destruct (of_proto p bs) as [|b0 t]; [reflexivity|]. simpl fold_left.
  change (kstep (fun b : bsvc => b) merge None b0) with (Some b0).
  rewrite kstep_fold_some, merge_fold. reflexivity.
Qed.

Lemma services_NoDup : forall bs, NoDup (map fst (fold_left add_service bs [])).
Proof.
  intro bs. change add_service with (ustep proto_eqb bproto (fun b : bsvc => b) merge).
  apply (NoDup_fold_upsert proto_eqb proto_eqb_eq). constructor.
Qed.

Lemma services_In : forall bs e,
  In e (map snd (fold_left add_service bs [])) <-> exists p, merged (of_proto p bs) = Some e.
Proof.
  intros bs e. rewrite in_map_iff. split.
  - intros ([p e'] & <- & I). exists p. rewrite <- services_get.
    apply (dget_In proto_eqb proto_eqb_eq); [apply services_NoDup|assumption].
  - intros (p & H). rewrite <- services_get in H. exists (p, e). split; [reflexivity|].
    now apply (dget_In_pair proto_eqb proto_eqb_eq).
Qed.

Lemma of_proto_In : forall p bs b, In b (of_proto p bs) <-> In b bs /\ bproto b = p.
Proof.
  intros p bs b. unfold of_proto. rewrite filter_In. split; intros [I E]; (split; [assumption|]).
  - apply proto_eqb_eq in E. congruence.
  - apply proto_eqb_eq. congruence.
Qed.

Lemma mprops_In : forall t p0 x, In x (mprops t p0) -> In x p0 \/ exists b, In b t /\ In x (bprops b).
Proof.
  unfold mprops. induction t as [|b t IH]; intros p0 x; simpl; [auto|].
  intro H. apply IH in H as [H|(b' & I & H)].
  - apply (dupdate_In str_eqb str_eqb_eq) in H as [H|H]; [auto|]. right. exists b. auto.
  - right. exists b'. auto.
Qed.

Lemma mprops_keeps : forall t p0 k v,
  (In (k, v) p0 \/ exists b, In b t /\ In (k, v) (bprops b)) -> exists v', In (k, v') (mprops t p0).
Proof.
  unfold mprops. induction t as [|b t IH]; intros p0 k v; simpl.
  - intros [H|(b & [] & _)]. eauto.
  - intros [H|(b' & [<-|I] & H)].
    + destruct (dupdate_keeps str_eqb str_eqb_eq (bprops b) p0 k v (or_introl H)) as (v' & H').
      apply (IH _ k v'). auto.
    + destruct (dupdate_keeps str_eqb str_eqb_eq (bprops b) p0 k v (or_intror H)) as (v' & H').
      apply (IH _ k v'). auto.
    + apply (IH _ k v). right. exists b'. auto.
Qed.

(* the merged property map binds k to v exactly when some contributing service does *)
Lemma merged_pget : forall b0 t k v,
  compatible (b0 :: t) -> (forall b, In b (b0 :: t) -> bproto b = bproto b0) ->
  (pget k (mprops t (bprops b0)) = Some v <-> exists b, In b (b0 :: t) /\ In (k, v) (bprops b)).
Proof.
  intros b0 t k v C P. split.
  - intro H. apply (dget_In_pair str_eqb str_eqb_eq) in H. apply mprops_In in H as [H|(b & I & H)].
    + exists b0. simpl; auto.
    + exists b. simpl; auto.
  - intros (b & I & H).
    assert (E : exists v', In (k, v') (mprops t (bprops b0))).
    { apply (mprops_keeps t (bprops b0) k v). destruct I as [<-|I]; [auto|]. right. eauto. }
    destruct E as (v' & E). apply (In_dget_some str_eqb str_eqb_eq) in E as (v'' & G & E).
    unfold pget. rewrite G. f_equal.
    apply mprops_In in E as [E|(b' & I' & E)].
    + destruct (C b0 b (or_introl eq_refl) I) as (_ & _ & F); [symmetry; now apply P|]. eapply F; eassumption.
    + destruct (C b' b (or_intror I') I) as (_ & _ & F).
      { rewrite (P b' (or_intror I')). symmetry. now apply P. }
      eapply F; eassumption.
Qed.

Lemma merged_equiv : forall bs bs' e,
  same_set bs bs' -> compatible bs -> (forall b, In b bs -> forall b', In b' bs -> bproto b = bproto b') ->
  merged bs = Some e -> exists e', merged bs' = Some e' /\ bsvc_equiv e e'.
Proof.
  intros bs bs' e S C P H. destruct bs as [|b0 t]; [discriminate|]. injection H as <-.
  destruct bs' as [|b0' t'].
  - exfalso. apply (S b0). simpl; auto.
  - eexists. split; [reflexivity|].
    assert (I0 : In b0' (b0 :: t)) by (apply S; simpl; auto).
    assert (C' : compatible (b0' :: t')) by (eapply compatible_same_set; eassumption).
    assert (P0 : forall b, In b (b0 :: t) -> bproto b = bproto b0) by (intros; apply P; simpl; auto).
    assert (P0' : forall b, In b (b0' :: t') -> bproto b = bproto b0').
    { intros b I. apply S in I. apply P; assumption. }
    destruct (C b0 b0' (or_introl eq_refl) I0 (eq_sym (P0 _ I0))) as (E1 & E2 & _).
    unfold bsvc_equiv; simpl. repeat split; try assumption.
    + symmetry. now apply P0.
    + intro k. destruct (pget k (mprops t (bprops b0))) as [v|] eqn:G.
      * symmetry. apply (merged_pget b0' t' k v C' P0'). apply (merged_pget b0 t k v C P0) in G as (b & I & H).
        exists b. split; [now apply S|assumption].
      * destruct (pget k (mprops t' (bprops b0'))) as [v|] eqn:G'; [|reflexivity].
        apply (merged_pget b0' t' k v C' P0') in G' as (b & I & H).
        assert (pget k (mprops t (bprops b0)) = Some v); [|congruence].
        apply (merged_pget b0 t k v C P0). exists b. split; [now apply S|assumption].
Qed.

Lemma of_proto_same_set : forall p bs bs', same_set bs bs' -> same_set (of_proto p bs) (of_proto p bs').
Proof. intros p bs bs' S b. rewrite !of_proto_In. specialize (S b). tauto. Qed.

Lemma compatible_of_proto : forall p bs, compatible bs -> compatible (of_proto p bs).
Proof. intros p bs C b b' I I'. apply of_proto_In in I as [I _]. apply of_proto_In in I' as [I' _]. now apply C. Qed.

Lemma services_value_proto : forall bs k v, In (k, v) (fold_left add_service bs []) -> bproto v = k.
Proof.
  intros bs k v I. apply (dget_In proto_eqb proto_eqb_eq _ _ _ (services_NoDup bs)) in I.
  rewrite services_get in I. destruct (of_proto k bs) as [|b0 t0] eqn:F; [discriminate|]. injection I as <-. simpl.
  assert (I0 : In b0 (of_proto k bs)) by (rewrite F; simpl; auto). now apply of_proto_In in I0 as [_ I0].
Qed.

Lemma find_values_dget : forall (m : list (proto * bsvc)) p,
  (forall k v, In (k, v) m -> bproto v = k) ->
  find (fun b => proto_eqb p (bproto b)) (map snd m) = dget proto_eqb p m.
Proof.
  induction m as [|[k v] t IH]; intros p H; simpl; [reflexivity|].
  rewrite (H k v (or_introl eq_refl)). destruct (proto_eqb p k); [reflexivity|].
  apply IH. intros k' v' I. apply H. now right.
Qed.

(* config.get_service(p) on the merged services *)
Lemma svc_of_services : forall bs p,
  svc_of p (map snd (fold_left add_service bs [])) = merged (of_proto p bs).
Proof.
  intros bs p. unfold svc_of. rewrite find_values_dget by apply services_value_proto. apply services_get.
Qed.

Lemma merged_attr_invariant {A} (f : bsvc -> A) : forall bs bs' p,
  (forall b b', bsvc_equiv b b' -> f b = f b') -> same_set bs bs' -> compatible bs ->
  match merged (of_proto p bs) with Some b => Some (f b) | None => None end =
  match merged (of_proto p bs') with Some b => Some (f b) | None => None end.
Proof.
  intros bs bs' p R S C.
  assert (P : forall l, forall b, In b (of_proto p l) -> forall b', In b' (of_proto p l) -> bproto b = bproto b').
  { intros l b I b' I'. apply of_proto_In in I as [_ ->]. apply of_proto_In in I' as [_ ->]. reflexivity. }
  destruct (merged (of_proto p bs)) as [e|] eqn:M.
  - destruct (merged_equiv _ (of_proto p bs') e (of_proto_same_set p _ _ S) (compatible_of_proto p _ C) (P bs) M)
      as (e' & -> & Q). f_equal. now apply R.
  - destruct (merged (of_proto p bs')) as [e'|] eqn:M'; [|reflexivity].
    destruct (merged_equiv _ (of_proto p bs) e' (of_proto_same_set p _ _ (same_set_sym _ _ S))
                (compatible_of_proto p _ (compatible_same_set _ _ S C)) (P bs') M') as (e & M2 & _). congruence.
Qed.

Theorem services_equiv : forall bs bs', same_set bs bs' -> compatible bs ->
  svcs_equiv (map snd (fold_left add_service bs [])) (map snd (fold_left add_service bs' [])).
Proof.
  assert (half : forall bs bs', same_set bs bs' -> compatible bs ->
            forall e, In e (map snd (fold_left add_service bs [])) ->
            exists e', In e' (map snd (fold_left add_service bs' [])) /\ bsvc_equiv e e').
  { intros bs bs' S C e I. apply services_In in I as (p & H).
    destruct (merged_equiv (of_proto p bs) (of_proto p bs') e) as (e' & H' & Q); try assumption.
    - now apply of_proto_same_set.
    - now apply compatible_of_proto.
    - intros b I b' I'. apply of_proto_In in I as [_ ->]. apply of_proto_In in I' as [_ ->]. reflexivity.
    - exists e'. split; [|assumption]. apply services_In. eauto. }
  intros bs bs' S C. split.
  - now apply half.
  - intros e' I. destruct (half bs' bs (same_set_sym _ _ S) (compatible_same_set _ _ S C) e' I) as (e & I' & (Q1 & Q2 & Q3 & Q4)).
    exists e. split; [assumption|]. repeat split; try (symmetry; assumption). intro k. symmetry. apply Q4.
Qed.

(* ------------------------------------------------------------ model of one address *)

Lemma props_of_gen_entries : forall l d x,
  In x (fold_left (fun d it => p_upd it d) l d) -> In x d \/ exists it, In it l /\ x = (ity it, iprops it).
Proof.
  induction l as [|it t IH]; intros d x; simpl; [auto|].
  intro H. apply IH in H as [H|(it' & I & ->)]; [|right; eauto].
  apply (dset_In str_eqb str_eqb_eq) in H as [->|H]; [right; eauto|auto].
Qed.

Lemma props_of_gen_keys : forall l d ty,
  ((exists p, In (ty, p) d) \/ exists it, In it l /\ ity it = ty) ->
  exists p, In (ty, p) (fold_left (fun d it => p_upd it d) l d).
Proof.
  induction l as [|it t IH]; intros d ty; simpl.
  - intros [H|(it & [] & _)]. exact H.
  - intros [(p & H)|(it' & [<-|I] & E)]; apply IH.
    + left. apply (dset_keeps_key str_eqb _ _ _ _ _ H).
    + left. subst ty. exists (iprops it). apply (dset_key_In str_eqb str_eqb_eq).
    + right. eauto.
Qed.

Lemma props_of_entries : forall l ty p, In (ty, p) (props_of l) -> exists it, In it l /\ ity it = ty /\ iprops it = p.
Proof.
  intros l ty p H. apply props_of_gen_entries in H as [[]|(it & I & [= -> ->])]. eauto.
Qed.

Lemma props_of_keys : forall l it, In it l -> exists p, In (ity it, p) (props_of l).
Proof. intros l it I. apply props_of_gen_keys. right. eauto. Qed.

Lemma first_some_In {A} : forall (l : list (option A)) m, first_some l = Some m -> In (Some m) l.
Proof.
  induction l as [|[x|] t IH]; intros m; simpl; [discriminate| |]; [intros [= ->]; auto|auto].
Qed.
Lemma first_some_ex {A} : forall (l : list (option A)) m, In (Some m) l -> exists m', first_some l = Some m'.
Proof.
  induction l as [|[x|] t IH]; intros m; simpl; [tauto| |]; [eauto|].
  intros [H|H]; [discriminate|eauto].
Qed.

Definition hints_ok (lk : lookups) (l : list item) : Prop :=
  (forall x y, In x l -> In y l -> ity x = ity y -> hint_of lk x = hint_of lk y) /\
  (forall x y m m', In x l -> In y l -> hint_of lk x = Some m -> hint_of lk y = Some m' -> m = m').

Definition hint_list (lk : lookups) (l : list item) : list (option N) :=
  map (fun tp => model_hint lk (fst tp) (snd tp)) (props_of l).

Lemma hint_some_item : forall lk l m, first_some (hint_list lk l) = Some m ->
  exists it, In it l /\ hint_of lk it = Some m.
Proof.
  intros lk l m H. apply first_some_In in H. apply in_map_iff in H as ([ty p] & E & I).
  apply props_of_entries in I as (it & I & <- & <-). exists it. auto.
Qed.

Lemma item_hint_some : forall lk l it m, hints_ok lk l -> In it l -> hint_of lk it = Some m ->
  first_some (hint_list lk l) = Some m.
Proof.
  intros lk l it m [K2 K4] I H.
  destruct (props_of_keys l it I) as (p & Ip).
  destruct (props_of_entries l _ _ Ip) as (it' & I' & E1 & E2).
  assert (In (Some m) (hint_list lk l)).
  { unfold hint_list. apply in_map_iff. exists (ity it, p). split; [|assumption]. simpl.
    rewrite <- H, <- (K2 it' it I' I E1). unfold hint_of. now rewrite E1, E2. }
  destruct (first_some_ex _ _ H0) as (m' & F). rewrite F. f_equal.
  destruct (hint_some_item lk l m' F) as (it2 & I2 & H2). exact (K4 it2 it m' m I2 I H2 H).
Qed.

Lemma hints_ok_same_set : forall lk l l', same_set l l' -> hints_ok lk l -> hints_ok lk l'.
Proof.
  intros lk l l' S [K2 K4]. split.
  - intros x y I I'. apply S in I, I'. now apply K2.
  - intros x y m m' I I'. apply S in I, I'. now apply K4.
Qed.

Lemma hints_invariant : forall lk l l', same_set l l' -> hints_ok lk l ->
  first_some (hint_list lk l) = first_some (hint_list lk l').
Proof.
  intros lk l l' S K. pose proof (hints_ok_same_set lk l l' S K) as K'.
  destruct (first_some (hint_list lk l)) as [m|] eqn:F.
  - destruct (hint_some_item lk l m F) as (it & I & H). symmetry.
    eapply item_hint_some; [assumption|apply S; eassumption|assumption].
  - destruct (first_some (hint_list lk l')) as [m|] eqn:F'; [|reflexivity].
    destruct (hint_some_item lk l' m F') as (it & I & H).
    rewrite (item_hint_some lk l it m K) in F; [discriminate| |assumption]. now apply S.
Qed.

(* ------------------------------------------------------------ the configuration of one address *)

Definition config_of (lk : lookups) (a : N) (l : list item) : option config :=
  match hitems l with
  | [] => None
  | x :: t =>
      Some (mkC a (h_nm x) (ideep (h_it x))
                (match first_some (hint_list lk l) with Some m => m | None => imodel (h_it x) end)
                (props_of l)
                (map snd (fold_left add_service (map h_b (x :: t)) [])))
  end.

Lemma hitems_nonempty_items : forall l x, In x (hitems l) -> l <> [].
Proof. intros [|it t] x H; [destruct H|discriminate]. Qed.

Lemma discover_In : forall lk D c,
  In c (discover lk (fold_left apply_item D sstate0)) <-> exists a, config_of lk a (at_addr a D) = Some c.
Proof.
  intros lk D c. unfold discover. rewrite in_map_iff. split.
  - intros ([a d] & <- & I). exists a.
    apply (dget_In N.eqb Neqb_eq' _ _ _ (found_NoDup D)) in I. rewrite found_get in I.
    unfold config_of, make_config. rewrite props_get.
    destruct (hitems (at_addr a D)) as [|x t] eqn:E; [discriminate|]. simpl in I. injection I as <-.
    destruct (at_addr a D) as [|i l] eqn:E2; [discriminate|]. reflexivity.
  - intros (a & H). unfold config_of in H.
    destruct (hitems (at_addr a D)) as [|x t] eqn:E; [discriminate|]. injection H as <-.
    exists (a, mkF (h_nm x) (ideep (h_it x)) (imodel (h_it x)) (map h_b (x :: t))). split.
    + unfold make_config. rewrite props_get.
      destruct (at_addr a D) as [|i l] eqn:E2; [discriminate|]. reflexivity.
    + apply (dget_In_pair N.eqb Neqb_eq'). rewrite found_get, E. reflexivity.
Qed.

Lemma config_of_addr : forall lk a l c, config_of lk a l = Some c -> caddr c = a.
Proof. intros lk a l c. unfold config_of. destruct (hitems l); [discriminate|]. now intros [= <-]. Qed.

Lemma discover_NoDup : forall lk D, NoDup (map caddr (discover lk (fold_left apply_item D sstate0))).
Proof.
  intros lk D. unfold discover. rewrite map_map.
  replace (map (fun x => caddr (make_config lk (fold_left apply_item D sstate0) x))
               (found (fold_left apply_item D sstate0)))
    with (map fst (found (fold_left apply_item D sstate0))); [apply found_NoDup|].
  apply map_ext. now intros [a d].
Qed.

(* consistency of the items of one address *)
Definition addr_consistent (lk : lookups) (l : list item) : Prop :=
  compatible (map h_b (hitems l)) /\ hints_ok lk l /\
  (forall x y, In x (hitems l) -> In y (hitems l) ->
               ideep (h_it x) = ideep (h_it y) /\ imodel (h_it x) = imodel (h_it y) /\ h_nm x = h_nm y) /\
  (forall x y, In x l -> In y l -> ity x = ity y -> iprops x = iprops y).

Lemma items_consistent_addr : forall lk D a, items_consistent lk D -> addr_consistent lk (at_addr a D).
Proof.
  intros lk D a (K1 & K2 & K3 & K4). split; [|split; [|split]].
  - intros b b' I I' E. apply in_map_iff in I as ([[x nm] b0] & <- & I). apply in_map_iff in I' as ([[y nm'] b1] & <- & I').
    apply hitems_In in I as [I H]. apply hitems_In in I' as [I' H']. apply at_addr_In in I as [I A]. apply at_addr_In in I' as [I' A'].
    exact (K1 x y nm b0 nm' b1 I I' (eq_trans A (eq_sym A')) H H' E).
  - split.
    + intros x y I I' E. apply at_addr_In in I as [I A]. apply at_addr_In in I' as [I' A']. unfold hint_of.
      rewrite E, (K2 x y I I' (eq_trans A (eq_sym A')) E). reflexivity.
    + intros x y m m' I I'. apply at_addr_In in I as [I A]. apply at_addr_In in I' as [I' A']. intros H1 H2. exact (K4 x y m m' I I' (eq_trans A (eq_sym A')) H1 H2).
  - intros [[x nm] b] [[y nm'] b'] I I'. apply hitems_In in I as [I H]. apply hitems_In in I' as [I' H'].
    apply at_addr_In in I as [I A]. apply at_addr_In in I' as [I' A']. simpl. exact (K3 x y nm b nm' b' I I' (eq_trans A (eq_sym A')) H H').
  - intros x y I I' E. apply at_addr_In in I as [I A]. apply at_addr_In in I' as [I' A'].
    exact (K2 x y I I' (eq_trans A (eq_sym A')) E).
Qed.

(* config.properties of one address: the entry of a type is the properties of the items of that type *)
Lemma props_of_get : forall l ty p,
  (forall x y, In x l -> In y l -> ity x = ity y -> iprops x = iprops y) ->
  (dget str_eqb ty (props_of l) = Some p <-> exists it, In it l /\ ity it = ty /\ iprops it = p).
Proof.
  intros l ty p K. split.
  - intro H. apply (dget_In_pair str_eqb str_eqb_eq) in H. now apply props_of_entries.
  - intros (it & I & <- & <-). destruct (props_of_keys l it I) as (p' & Ip).
    apply (In_dget_some str_eqb str_eqb_eq) in Ip as (p2 & G & Ip2). rewrite G. f_equal.
    apply props_of_entries in Ip2 as (it' & I' & E1 & <-). now apply K.
Qed.

Lemma props_of_invariant : forall l l' ty, same_set l l' ->
  (forall x y, In x l -> In y l -> ity x = ity y -> iprops x = iprops y) ->
  dget str_eqb ty (props_of l) = dget str_eqb ty (props_of l').
Proof.
  intros l l' ty S K.
  assert (K' : forall x y, In x l' -> In y l' -> ity x = ity y -> iprops x = iprops y).
  { intros x y I I'. apply S in I, I'. now apply K. }
  destruct (dget str_eqb ty (props_of l)) as [p|] eqn:G.
  - symmetry. apply (props_of_get l' ty p K'). apply (props_of_get l ty p K) in G as (it & I & H).
    exists it. split; [now apply S|assumption].
  - destruct (dget str_eqb ty (props_of l')) as [p|] eqn:G'; [|reflexivity].
    apply (props_of_get l' ty p K') in G' as (it & I & H).
    assert (dget str_eqb ty (props_of l) = Some p); [|congruence].
    apply (props_of_get l ty p K). exists it. split; [now apply S|assumption].
Qed.

Lemma map_same_set {A B} (f : A -> B) : forall l l', same_set l l' -> same_set (map f l) (map f l').
Proof.
  intros l l' S y. rewrite !in_map_iff. split; intros (x & E & I); exists x; (split; [assumption|now apply S]).
Qed.

Lemma config_of_equiv : forall lk a l l' c,
  same_set l l' -> addr_consistent lk l -> config_of lk a l = Some c ->
  exists c', config_of lk a l' = Some c' /\ config_equiv c c'.
Proof.
  intros lk a l l' c S (C & Hk & K3 & Kp) H. unfold config_of in *.
  pose proof (hitems_same_set l l' S) as SH.
  destruct (hitems l) as [|x t] eqn:E; [discriminate|]. injection H as <-.
  destruct (hitems l') as [|x' t'] eqn:E'.
  - exfalso. apply (SH x). simpl; auto.
  - eexists. split; [reflexivity|].
    assert (Ix' : In x' (x :: t)) by (apply SH; simpl; auto).
    destruct (K3 x x' (or_introl eq_refl) Ix') as [D1 [D2 D3]].
    assert (SB : same_set (map h_b (x :: t)) (map h_b (x' :: t'))) by now apply map_same_set.
    unfold config_equiv, main_identifier, main_service; cbn [caddr cdeep cmodel csvcs cprops cname].
    change (fold_left add_service (map h_b t) (add_service [] (h_b x)))
      with (fold_left add_service (map h_b (x :: t)) []).
    change (fold_left add_service (map h_b t') (add_service [] (h_b x')))
      with (fold_left add_service (map h_b (x' :: t')) []).
    split; [reflexivity|split; [assumption|split; [|split; [|split; [|split; [assumption|split]]]]]].
    + rewrite (hints_invariant lk l l' S Hk). now rewrite D2.
    + apply (services_equiv (map h_b (x :: t)) (map h_b (x' :: t'))); [now apply map_same_set|assumption].
    + intro ty. now apply props_of_invariant.
    + f_equal. apply map_ext. intro p. rewrite !svc_of_services.
      assert (R : forall b b', bsvc_equiv b b' -> bident b = bident b') by now intros b b' (Eb & _).
      pose proof (merged_attr_invariant bident _ _ p R SB C) as H.
      destruct (merged (of_proto p (map h_b (x :: t)))), (merged (of_proto p (map h_b (x' :: t')))); congruence.
    + f_equal. apply map_ext. intro p. rewrite !svc_of_services.
      assert (R : forall b b', bsvc_equiv b b' -> (bproto b, bport b) = (bproto b', bport b')).
      { intros b b' (_ & E1 & E2 & _). now rewrite E1, E2. }
      pose proof (merged_attr_invariant (fun b => (bproto b, bport b)) _ _ p R SB C) as H.
      destruct (merged (of_proto p (map h_b (x :: t)))), (merged (of_proto p (map h_b (x' :: t')))); simpl; congruence.
Qed.

(* ------------------------------------------------------------ the filter of pyatv.scan *)

Lemma existsb_svcs_equiv : forall (f : bsvc -> bool) l l',
  (forall b b', bsvc_equiv b b' -> f b = f b') -> svcs_equiv l l' -> existsb f l = existsb f l'.
Proof.
  intros f l l' R [S1 S2]. destruct (existsb f l) eqn:E; symmetry.
  - apply existsb_exists in E as (b & I & H). destruct (S1 b I) as (b' & I' & Q).
    apply existsb_exists. exists b'. split; [assumption|]. now rewrite <- (R b b' Q).
  - destruct (existsb f l') eqn:E'; [|reflexivity]. apply existsb_exists in E' as (b' & I' & H).
    destruct (S2 b' I') as (b & I & Q). assert (existsb f l = true); [|congruence].
    apply existsb_exists. exists b. split; [assumption|]. now rewrite (R b b' Q).
Qed.

Lemma intersects_ids : forall ids c,
  intersects ids (all_identifiers c) =
  existsb (fun b => match bident b with Some i => existsb (str_eqb i) ids | None => false end) (csvcs c).
Proof.
  intros ids c. unfold intersects, all_identifiers.
  destruct (existsb (fun x => existsb (str_eqb x) (flat_map _ (csvcs c))) ids) eqn:E; symmetry.
  - apply existsb_exists in E as (x & I & H). apply existsb_exists in H as (y & Iy & Ey).
    apply str_eqb_eq in Ey; subst y. apply in_flat_map in Iy as (b & Ib & Hb).
    apply existsb_exists. exists b. split; [assumption|]. destruct (bident b) as [i|]; [|destruct Hb].
    destruct Hb as [->|[]]. apply existsb_exists. exists x. split; [assumption|apply str_eqb_refl].
  - match goal with |- ?X = false => destruct X eqn:E2; [|reflexivity] end.
    apply existsb_exists in E2 as (b & Ib & H). destruct (bident b) as [i|] eqn:Bi; [|discriminate].
    apply existsb_exists in H as (x & Ix & Ex). apply str_eqb_eq in Ex; subst x.
    assert (existsb (fun x => existsb (str_eqb x)
              (flat_map (fun b => match bident b with Some i => [i] | None => [] end) (csvcs c))) ids = true); [|congruence].
    apply existsb_exists. exists i. split; [assumption|]. apply existsb_exists. exists i. split; [|apply str_eqb_refl].
    apply in_flat_map. exists b. split; [assumption|]. rewrite Bi. now left.
Qed.

Lemma should_include_equiv : forall ids c c', config_equiv c c' -> should_include ids c = should_include ids c'.
Proof.
  intros ids c c' (_ & _ & _ & S & _). unfold should_include, ready. f_equal.
  - apply existsb_svcs_equiv; [|assumption]. intros b b' (E & _). now rewrite E.
  - destruct ids as [|i t]; [reflexivity|]. rewrite !intersects_ids.
    apply existsb_svcs_equiv; [|assumption]. intros b b' (E & _). now rewrite E.
Qed.

(* ------------------------------------------------------------ the scanner on two item lists with the same elements *)

Definition result_of (lk : lookups) (ids : list str) (D : list item) : list config :=
  filter (should_include ids) (discover lk (fold_left apply_item D sstate0)).

Lemma scan_result_items : forall lk wanted ids rs,
  scan_result lk wanted ids rs = result_of lk ids (all_items lk (scan_types wanted) rs).
Proof. intros. unfold scan_result, result_of. now rewrite scan_items. Qed.

Theorem result_of_invariant : forall lk ids D D',
  same_set D D' -> items_consistent lk D -> snapshot_equiv (result_of lk ids D) (result_of lk ids D').
Proof.
  assert (half : forall lk ids D D', same_set D D' -> items_consistent lk D ->
            forall c, In c (result_of lk ids D) -> exists c', In c' (result_of lk ids D') /\ config_equiv c c').
  { intros lk ids D D' S K c I. unfold result_of in *. apply filter_In in I as [I F].
    apply discover_In in I as (a & H).
    destruct (config_of_equiv lk a _ (at_addr a D') c (at_addr_same_set a D D' S) (items_consistent_addr lk D a K) H)
      as (c' & H' & Q).
    exists c'. split; [|assumption]. apply filter_In. split.
    - apply discover_In. eauto.
    - now rewrite <- (should_include_equiv ids c c' Q). }
  intros lk ids D D' S K. split.
  - now apply half.
  - intros c' I.
    destruct (half lk ids D' D (same_set_sym _ _ S) (items_consistent_same_set lk D D' S K) c' I) as (c & I' & (Q1 & Q2 & Q3 & (Q4 & Q5) & Q6 & Q7 & Q8 & Q9)).
    exists c. split; [assumption|]. unfold config_equiv, svcs_equiv.
    split; [now symmetry|split; [now symmetry|split; [now symmetry|split; [split|
      split; [intro ty; symmetry; apply Q6|split; [now symmetry|split; now symmetry]]]]]].
    + intros b Ib. destruct (Q5 b Ib) as (b' & Ib' & (E1 & E2 & E3 & E4)). exists b'. split; [assumption|].
      repeat split; try (symmetry; assumption). intro k. symmetry. apply E4.
    + intros b Ib. destruct (Q4 b Ib) as (b' & Ib' & (E1 & E2 & E3 & E4)). exists b'. split; [assumption|].
      repeat split; try (symmetry; assumption). intro k. symmetry. apply E4.
Qed.

(* every result has at most one configuration per address, for every input *)
Lemma NoDup_map_filter {A B} (f : A -> B) (p : A -> bool) : forall l, NoDup (map f l) -> NoDup (map f (filter p l)).
Proof.
  induction l as [|x t IH]; simpl; intro ND; [constructor|]. inversion ND; subst.
  destruct (p x); simpl; [|auto]. constructor; [|auto].
  rewrite in_map_iff. intros (y & E & I). apply filter_In in I as [I _]. apply H1. rewrite <- E. now apply in_map.
Qed.

Theorem result_of_NoDup : forall lk ids D, NoDup (map caddr (result_of lk ids D)).
Proof. intros. unfold result_of. apply NoDup_map_filter. apply discover_NoDup. Qed.
