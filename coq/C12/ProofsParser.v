(* C12 - ServiceParser: what parse() returns depends only on the SET of records added,
   provided one (name, SRV/TXT) has one rdata and one host has one routable address. *)
From Coq Require Import List Bool Arith NArith Lia.
From PV Require Import Common.Cases C12.Model C12.DictLemmas.
Import ListNotations.

(* ------------------------------------------------------------ record equality facts *)

Lemma rec_eqb_fields : forall r r0, rec_eqb r r0 = true ->
  qn r = qn r0 /\ qt r = qt r0 /\ rdata_eqb (rd r) (rd r0) = true.
Proof.
  intros r r0 H. unfold rec_eqb in H.
  repeat (apply andb_true_iff in H; destruct H as [H ?]).
  apply str_eqb_eq in H. apply N.eqb_eq in H4. auto.
Qed.

Lemma rdata_eqb_RA : forall ip x, rdata_eqb (RA ip) x = true -> x = RA ip.
Proof. intros ip [] H; simpl in H; try discriminate. apply N.eqb_eq in H. now subst. Qed.
Lemma rdata_eqb_RA_r : forall ip x, rdata_eqb x (RA ip) = true -> x = RA ip.
Proof. intros ip [] H; simpl in H; try discriminate. apply N.eqb_eq in H. now subst. Qed.

(* r0 stands for r in the table: r itself or an equal record stored earlier *)
Definition rep (r r0 : rec) : Prop := r0 = r \/ rec_eqb r r0 = true.

Lemma rep_fields : forall r r0, rep r r0 -> qn r = qn r0 /\ qt r = qt r0.
Proof. intros r r0 [->|H]; [auto|]. apply rec_eqb_fields in H. tauto. Qed.

Lemma rep_is_rec : forall n t r r0, rep r r0 -> is_rec n t r0 = is_rec n t r.
Proof. intros n t r r0 H. apply rep_fields in H as [E1 E2]. unfold is_rec. now rewrite E1, E2. Qed.

Lemma rep_is_ptr : forall r r0, rep r r0 -> is_ptr_rec r0 = is_ptr_rec r.
Proof. intros r r0 H. apply rep_fields in H as [E1 E2]. unfold is_ptr_rec. now rewrite E1, E2. Qed.

Lemma rep_usable : forall t r r0, rep r r0 -> usable_a t r0 = usable_a t r.
Proof.
  intros t r r0 H. unfold usable_a. rewrite (rep_is_rec _ _ _ _ H).
  destruct H as [->|H]; [reflexivity|]. apply rec_eqb_fields in H as (_ & _ & H).
  destruct (rd r) eqn:E; destruct (rd r0) eqn:E0; simpl in H; try discriminate; try reflexivity.
  apply N.eqb_eq in H. now subst.
Qed.

(* ------------------------------------------------------------ the table as a function of the raw records *)

Definition table_of (raw : list rec) : parser := fold_left add_record raw parser0.

Lemma add_messages_concat : forall ds p,
  fold_left add_message ds p = fold_left add_record (concat ds) p.
Proof.
  induction ds as [|d t IH]; intros p; simpl; [reflexivity|].
  rewrite IH. unfold add_message. now rewrite fold_left_app.
Qed.

Lemma precs_add_record_sub : forall p r x,
  In x (precs (add_record p r)) -> In x (precs p) \/ (x = r /\ is_ptr_rec r = false).
Proof.
  intros p r x. unfold add_record. destruct (is_ptr_rec r) eqn:E; simpl; [auto|].
  destruct (existsb (rec_eqb r) (precs p)); simpl; [auto|].
  rewrite in_app_iff; simpl. intros [H|[H|[]]]; auto.
Qed.

Lemma precs_add_record_mono : forall p r x, In x (precs p) -> In x (precs (add_record p r)).
Proof.
  intros p r x I. unfold add_record. destruct (is_ptr_rec r); simpl; [assumption|].
  destruct (existsb (rec_eqb r) (precs p)); simpl; [assumption|]. rewrite in_app_iff; auto.
Qed.

Lemma precs_add_record_rep : forall p r, is_ptr_rec r = false ->
  exists r0, In r0 (precs (add_record p r)) /\ rep r r0.
Proof.
  intros p r E. unfold add_record. rewrite E.
  destruct (existsb (rec_eqb r) (precs p)) eqn:X; simpl.
  - apply existsb_exists in X as (r0 & I & H). exists r0; split; [assumption|now right].
  - exists r. split; [rewrite in_app_iff; simpl; auto|now left].
Qed.

Lemma precs_fold_sub : forall raw p x,
  In x (precs (fold_left add_record raw p)) -> In x (precs p) \/ (In x raw /\ is_ptr_rec x = false).
Proof.
  induction raw as [|r t IH]; intros p x; simpl; [auto|].
  intro H. apply IH in H as [H|[H1 H2]]; [|auto].
  apply precs_add_record_sub in H as [H|[-> H]]; auto.
Qed.

Lemma precs_fold_mono : forall raw p x, In x (precs p) -> In x (precs (fold_left add_record raw p)).
Proof.
  induction raw as [|r t IH]; intros p x I; simpl; [assumption|].
  apply IH. now apply precs_add_record_mono.
Qed.

Lemma precs_fold_rep : forall raw p r, In r raw -> is_ptr_rec r = false ->
  exists r0, In r0 (precs (fold_left add_record raw p)) /\ rep r r0.
Proof.
  induction raw as [|x t IH]; intros p r; simpl; [tauto|].
  intros [->|I] E.
  - destruct (precs_add_record_rep p r E) as (r0 & I0 & R).
    exists r0. split; [now apply precs_fold_mono|assumption].
  - now apply IH.
Qed.

Lemma table_sub : forall raw x, In x (precs (table_of raw)) -> In x raw /\ is_ptr_rec x = false.
Proof. intros raw x H. apply precs_fold_sub in H as [[]|H]; assumption. Qed.

Lemma table_rep : forall raw r, In r raw -> is_ptr_rec r = false ->
  exists r0, In r0 (precs (table_of raw)) /\ rep r r0.
Proof. intros; now apply precs_fold_rep. Qed.

(* ------------------------------------------------------------ find on the table vs the raw records *)

Lemma find_table_some : forall raw (f : rec -> bool) r0,
  find f (precs (table_of raw)) = Some r0 -> In r0 raw /\ is_ptr_rec r0 = false /\ f r0 = true.
Proof.
  intros raw f r0 H. apply find_some in H as [I F]. apply table_sub in I. tauto.
Qed.

Lemma find_table_none : forall raw (f : rec -> bool),
  (forall r r0, rep r r0 -> f r0 = f r) ->
  find f (precs (table_of raw)) = None ->
  forall r, In r raw -> is_ptr_rec r = false -> f r = false.
Proof.
  intros raw f Hf H r I E. destruct (table_rep raw r I E) as (r0 & I0 & R).
  rewrite <- (Hf _ _ R). eapply find_none; eauto.
Qed.

Lemma is_rec_not_ptr : forall n t r, t <> T_PTR -> is_rec n t r = true -> is_ptr_rec r = false.
Proof.
  intros n t r N H. unfold is_rec in H. apply andb_true_iff in H as [_ H]. apply N.eqb_eq in H.
  unfold is_ptr_rec. destruct (N.eqb (qt r) T_PTR) eqn:E; [|reflexivity].
  apply N.eqb_eq in E. congruence.
Qed.

Lemma usable_not_ptr : forall t r, usable_a t r = true -> is_ptr_rec r = false.
Proof.
  intros t r H. unfold usable_a in H. apply andb_true_iff in H as [H _].
  eapply is_rec_not_ptr; [|eassumption]. discriminate.
Qed.

(* ------------------------------------------------------------ consistency of the records of one source *)

Definition recs_consistent (raw : list rec) : Prop :=
  (forall r r', In r raw -> In r' raw -> qn r = qn r' -> qt r = qt r' ->
                (qt r = T_SRV \/ qt r = T_TXT) -> rd r = rd r') /\
  (forall r r' ip ip', In r raw -> In r' raw -> qn r = qn r' -> qt r = T_A -> qt r' = T_A ->
                rd r = RA ip -> rd r' = RA ip' -> link_local ip = false -> link_local ip' = false -> ip = ip').

Lemma recs_consistent_same_set : forall raw raw', same_set raw raw' -> recs_consistent raw -> recs_consistent raw'.
Proof.
  intros raw raw' S [C1 C2]. split.
  - intros r r' I I'. apply S in I, I'. now apply C1.
  - intros r r' ip ip' I I'. apply S in I, I'. now apply C2.
Qed.

Lemma is_rec_true : forall n t r, is_rec n t r = true -> qn r = n /\ qt r = t.
Proof.
  intros n t r H. unfold is_rec in H. apply andb_true_iff in H as [H1 H2].
  apply str_eqb_eq in H1. apply N.eqb_eq in H2. auto.
Qed.

Lemma first_rd_invariant : forall raw raw' t n,
  same_set raw raw' -> recs_consistent raw -> (t = T_SRV \/ t = T_TXT) ->
  first_rd t n (precs (table_of raw)) = first_rd t n (precs (table_of raw')).
Proof.
  intros raw raw' t n S [C1 _] Ht. unfold first_rd.
  assert (NP : t <> T_PTR) by (destruct Ht; subst; discriminate).
  destruct (find (is_rec n t) (precs (table_of raw))) as [r|] eqn:F;
    destruct (find (is_rec n t) (precs (table_of raw'))) as [r'|] eqn:F'; simpl.
  - apply find_table_some in F as (I & _ & M). apply find_table_some in F' as (I' & _ & M').
    apply S in I'. apply is_rec_true in M as [M1 M2]. apply is_rec_true in M' as [M1' M2'].
    f_equal. apply C1; try assumption; try congruence; destruct Ht; subst; auto.
  - apply find_table_some in F as (I & E & M). exfalso.
    assert (is_rec n t r = false); [|congruence].
    eapply find_table_none; [|exact F'| |assumption]. { intros; now apply rep_is_rec. } now apply S.
  - apply find_table_some in F' as (I & E & M). exfalso.
    assert (is_rec n t r' = false); [|congruence].
    eapply find_table_none; [|exact F| |assumption]. { intros; now apply rep_is_rec. } now apply S.
  - reflexivity.
Qed.

Lemma usable_true : forall t r, usable_a t r = true ->
  qn r = t /\ qt r = T_A /\ exists ip, rd r = RA ip /\ link_local ip = false.
Proof.
  intros t r H. unfold usable_a in H. apply andb_true_iff in H as [H1 H2].
  apply is_rec_true in H1 as [E1 E2]. destruct (rd r) eqn:E; try discriminate.
  repeat split; try assumption. exists ip. split; [reflexivity|]. now apply negb_true_iff in H2.
Qed.

Lemma first_addr_invariant : forall raw raw' target,
  same_set raw raw' -> recs_consistent raw ->
  first_addr target (precs (table_of raw)) = first_addr target (precs (table_of raw')).
Proof.
  intros raw raw' [t|] S [_ C2]; [|reflexivity]. unfold first_addr.
  destruct (find (usable_a t) (precs (table_of raw))) as [r|] eqn:F;
    destruct (find (usable_a t) (precs (table_of raw'))) as [r'|] eqn:F'.
  - apply find_table_some in F as (I & _ & M). apply find_table_some in F' as (I' & _ & M').
    apply S in I'. apply usable_true in M as (M1 & M2 & ip & M3 & M4).
    apply usable_true in M' as (M1' & M2' & ip' & M3' & M4'). rewrite M3, M3'. f_equal.
    apply (C2 r r' ip ip' I I'); congruence.
  - apply find_table_some in F as (I & E & M). exfalso.
    assert (usable_a t r = false); [|congruence].
    eapply find_table_none; [|exact F'| |assumption]. { intros; now apply rep_usable. } now apply S.
  - apply find_table_some in F' as (I & E & M). exfalso.
    assert (usable_a t r' = false); [|congruence].
    eapply find_table_none; [|exact F| |assumption]. { intros; now apply rep_usable. } now apply S.
  - reflexivity.
Qed.

Lemma real_service_invariant : forall raw raw' n,
  same_set raw raw' -> recs_consistent raw ->
  real_service (precs (table_of raw)) n = real_service (precs (table_of raw')) n.
Proof.
  intros raw raw' n S C. unfold real_service. destruct (split_name n) as [[inst ptrname]|]; [|reflexivity].
  rewrite (first_rd_invariant raw raw' T_SRV n S C (or_introl eq_refl)).
  rewrite (first_rd_invariant raw raw' T_TXT n S C (or_intror eq_refl)).
  now rewrite (first_addr_invariant raw raw' _ S C).
Qed.

(* ------------------------------------------------------------ table names *)

Lemma nodup_first_In : forall l seen x,
  In x (nodup_first seen l) <-> In x l /\ ~ In x seen.
Proof.
  induction l as [|y t IH]; intros seen x; simpl; [tauto|].
  destruct (existsb (str_eqb y) seen) eqn:E.
  - rewrite IH. apply existsb_exists in E as (z & Iz & Ez). apply str_eqb_eq in Ez; subst z.
    split; [tauto|]. intros [[->|H] N]; tauto.
  - assert (NI : ~ In y seen).
    { intro I. assert (existsb (str_eqb y) seen = true); [|congruence].
      apply existsb_exists. exists y. split; [assumption|apply str_eqb_refl]. }
    simpl. rewrite IH. simpl. split.
    + intros [->|[H N]]; [tauto|]. split; [tauto|]. intro; apply N; auto.
    + intros [[->|H] N]; [tauto|]. destruct (list_eq_dec N.eq_dec y x) as [->|D]; [tauto|].
      right. split; [assumption|]. intros [->|]; tauto.
Qed.

Lemma nodup_first_NoDup : forall l seen, NoDup (nodup_first seen l).
Proof.
  induction l as [|y t IH]; intros seen; simpl; [constructor|].
  destruct (existsb (str_eqb y) seen); [apply IH|]. constructor; [|apply IH].
  rewrite nodup_first_In. simpl. tauto.
Qed.

Lemma table_names_In : forall raw n,
  In n (table_names (precs (table_of raw))) <-> exists r, In r raw /\ is_ptr_rec r = false /\ qn r = n.
Proof.
  intros raw n. unfold table_names. rewrite nodup_first_In, in_map_iff. split.
  - intros [(r & <- & I) _]. apply table_sub in I. exists r; tauto.
  - intros (r & I & E & <-). split; [|tauto].
    destruct (table_rep raw r I E) as (r0 & I0 & R). exists r0. split; [|assumption].
    apply rep_fields in R. symmetry; tauto.
Qed.

Lemma table_names_same_set : forall raw raw', same_set raw raw' ->
  same_set (table_names (precs (table_of raw))) (table_names (precs (table_of raw'))).
Proof.
  intros raw raw' S n. rewrite !table_names_In. split; intros (r & I & H); exists r; (split; [now apply S|assumption]).
Qed.

(* ------------------------------------------------------------ real services *)

Definition real_results (p : parser) : list (str * service) :=
  flat_map (real_service (precs p)) (table_names (precs p)).

Lemma real_service_key : forall l n k sv, In (k, sv) (real_service l n) -> k = n.
Proof.
  intros l n k sv. unfold real_service. destruct (split_name n) as [[i p]|]; simpl; [|tauto].
  intros [[= <- _]|[]]. reflexivity.
Qed.

Lemma real_results_In : forall p k sv,
  In (k, sv) (real_results p) <-> In k (table_names (precs p)) /\ In (k, sv) (real_service (precs p) k).
Proof.
  intros p k sv. unfold real_results. rewrite in_flat_map. split.
  - intros (n & I & H). pose proof (real_service_key _ _ _ _ H). subst. tauto.
  - intros [I H]. exists k; tauto.
Qed.

Theorem real_results_same_set : forall raw raw',
  same_set raw raw' -> recs_consistent raw ->
  same_set (real_results (table_of raw)) (real_results (table_of raw')).
Proof.
  intros raw raw' S C [k sv]. rewrite !real_results_In.
  rewrite (real_service_invariant raw raw' k S C).
  pose proof (table_names_same_set raw raw' S k). tauto.
Qed.

Lemma real_results_keys_NoDup : forall p, NoDup (map fst (real_results p)).
Proof.
  intro p. unfold real_results, table_names.
  generalize (nodup_first_NoDup (map qn (precs p)) []). generalize (nodup_first [] (map qn (precs p))).
  induction l as [|n t IH]; intro ND; simpl; [constructor|].
  inversion ND; subst. rewrite map_app. unfold real_service at 1.
  destruct (split_name n) as [[i pn]|]; simpl; [|now apply IH].
  constructor; [|now apply IH]. rewrite in_map_iff. intros ([k sv] & E & I). simpl in E; subst k.
  apply in_flat_map in I as (m & Im & H). apply real_service_key in H. subst. contradiction.
Qed.

(* ------------------------------------------------------------ placeholders *)

Lemma placeholder_shape : forall res qr x,
  In x (placeholder res qr) -> In x res \/ (saddr (snd x) = None /\ sprops (snd x) = [] /\ sport (snd x) = 0%N).
Proof.
  intros res [q real] x. unfold placeholder. destruct (dmem str_eqb real res); [auto|].
  rewrite in_app_iff; simpl. intros [H|[<-|[]]]; auto.
Qed.

Lemma placeholder_prefix : forall res qr, exists extra, placeholder res qr = res ++ extra /\
  forall x, In x extra -> saddr (snd x) = None /\ sprops (snd x) = [].
Proof.
  intros res [q real]. unfold placeholder. destruct (dmem str_eqb real res).
  - exists []. rewrite app_nil_r. split; [reflexivity|]. intros x [].
  - eexists. split; [reflexivity|]. intros x [<-|[]]. auto.
Qed.

Lemma parse_results_shape : forall p, exists extra,
  parse_results p = real_results p ++ extra /\
  forall x, In x extra -> saddr (snd x) = None /\ sprops (snd x) = [].
Proof.
  intro p. unfold parse_results. fold (real_results p). generalize (real_results p) as res.
  induction (pptrs p) as [|qr t IH]; intro res; simpl.
  - exists []. rewrite app_nil_r. split; [reflexivity|]. intros x [].
  - destruct (placeholder_prefix res qr) as (e1 & -> & H1).
    destruct (IH (res ++ e1)) as (e2 & -> & H2).
    exists (e1 ++ e2). rewrite app_assoc. split; [reflexivity|].
    intros x I. apply in_app_iff in I as [I|I]; auto.
Qed.
