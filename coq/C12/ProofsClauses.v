(* C12 - the three side clauses of the property, for EVERY input (no consistency needed):
   at most one configuration per address, nothing from service types that were not requested,
   no configuration without identifier. *)
From Coq Require Import List Bool Arith NArith Lia.
From PV Require Import Common.Cases C12.Model C12.DictLemmas C12.Spec C12.ProofsScanner.
Import ListNotations.

Lemma str_neq_by_eqb : forall a b, str_eqb a b = false -> a <> b.
Proof. intros a b H. now apply str_eqb_neq. Qed.

Lemma types_disjoint : forall P P' ty, In ty (types_of P) -> In ty (types_of P') -> P = P'.
Proof.
  intros P P' ty H H'.
  destruct P, P'; try reflexivity; exfalso; simpl in H, H';
    repeat (destruct H as [H|H]; [|]); try contradiction; subst ty;
    repeat (destruct H' as [H'|H']; [|]); try contradiction;
    (apply str_eqb_eq in H'; vm_compute in H'; discriminate).
Qed.

Lemma types_not_special : forall P ty, In ty (types_of P) -> ty <> DEVINFO /\ ty <> SLEEPPROXY.
Proof.
  intros P ty H. destruct P; simpl in H;
    repeat (destruct H as [H|H]; [|]); try contradiction; subst ty;
    (split; apply str_neq_by_eqb; vm_compute; reflexivity).
Qed.

Lemma handler_proto : forall sv nm b, handler sv = HSome nm b -> In (stype sv) (types_of (bproto b)).
Proof.
  intros sv nm b. unfold handler.
  repeat match goal with
  | |- context [if str_eqb (stype sv) ?T then _ else _] =>
      let E := fresh "E" in destruct (str_eqb (stype sv) T) eqn:E;
      [apply str_eqb_eq in E; rewrite E|]
  end; try discriminate;
  try (destruct (sname sv); try discriminate);
  (destruct (get_unique_id _ _ _); [|discriminate]); intros [= _ <-]; simpl; auto 10.
Qed.

Lemma item_of_inv : forall lk T deep model sv it, In it (item_of lk T deep model sv) ->
  In (stype sv) T /\ ity it = stype sv /\ (forall nm b, ih it = Some (nm, b) -> handler sv = HSome nm b).
Proof.
  intros lk T deep model sv it. unfold item_of.
  destruct (existsb (str_eqb (stype sv)) T) eqn:E; [|intros []].
  apply existsb_exists in E as (x & Ix & Ex). apply str_eqb_eq in Ex; subst x.
  destruct (saddr sv); [|intros []]. destruct (N.eqb (sport sv) 0); [intros []|].
  destruct (handler sv) as [|nm0 b0|]; [| |intros []]; intros [<-|[]]; simpl; repeat split; try assumption.
  - discriminate.
  - now intros nm b [= -> ->].
Qed.

Lemma all_items_inv : forall lk T rs it, In it (all_items lk T rs) ->
  In (ity it) T /\ (forall nm b, ih it = Some (nm, b) -> exists sv, stype sv = ity it /\ handler sv = HSome nm b).
Proof.
  intros lk T rs it H. unfold all_items in H. apply in_flat_map in H as (r & _ & H).
  unfold items_of in H. apply in_flat_map in H as (sv & _ & H).
  apply item_of_inv in H as (H1 & H2 & H3). rewrite H2. split; [assumption|].
  intros nm b E. exists sv. split; [reflexivity|now apply H3].
Qed.

Lemma config_of_services : forall lk a l c e, config_of lk a l = Some c -> In e (csvcs c) ->
  exists it nm b, In it l /\ ih it = Some (nm, b) /\ bproto b = bproto e.
Proof.
  intros lk a l c e H I. unfold config_of in H. destruct (hitems l) as [|x t] eqn:E; [discriminate|].
  injection H as <-. cbn [csvcs] in I.
  change (fold_left add_service (map h_b t) (add_service [] (h_b x)))
    with (fold_left add_service (map h_b (x :: t)) []) in I.
  apply services_In in I as (p & M).
  destruct (of_proto p (map h_b (x :: t))) as [|b0 t0] eqn:F; [discriminate|]. injection M as <-.
  assert (I0 : In b0 (of_proto p (map h_b (x :: t)))) by (rewrite F; simpl; auto).
  apply of_proto_In in I0 as [I0 _]. apply in_map_iff in I0 as ([[it nm] b] & <- & I0).
  rewrite <- E in I0. apply hitems_In in I0 as [I0 H0]. exists it, nm, b. auto.
Qed.

Lemma config_of_props : forall lk a l c ty p, config_of lk a l = Some c -> In (ty, p) (cprops c) ->
  exists it, In it l /\ ity it = ty.
Proof.
  intros lk a l c ty p H I. unfold config_of in H. destruct (hitems l); [discriminate|]. injection H as <-.
  cbn [cprops] in I. apply props_of_entries in I as (it & I & E & _). eauto.
Qed.

Theorem scan_result_clauses : forall lk wanted ids rs,
  let res := scan_result lk wanted ids rs in
  NoDup (map caddr res) /\
  (forall c, In c res ->
     (exists b i, In b (csvcs c) /\ bident b = Some i /\ i <> []) /\
     (forall b, In b (csvcs c) -> In (bproto b) (wanted_protos wanted)) /\
     (forall ty p, In (ty, p) (cprops c) -> In ty (scan_types wanted))).
Proof.
  intros lk wanted ids rs res. unfold res. rewrite scan_result_items. split; [apply result_of_NoDup|].
  intros c I. unfold result_of in I. apply filter_In in I as [I F]. apply discover_In in I as (a & H).
  split; [|split].
  - unfold should_include in F. apply andb_true_iff in F as [R _]. unfold ready in R.
    apply existsb_exists in R as (b & Ib & T). exists b. unfold truthy in T.
    destruct (bident b) as [[|ch i]|] eqn:B; try discriminate. exists (ch :: i). repeat split; [assumption|discriminate].
  - intros b Ib. destruct (config_of_services _ _ _ _ _ H Ib) as (it & nm & b0 & Iit & Hit & P).
    apply at_addr_In in Iit as [Iit _]. apply all_items_inv in Iit as (Ty & Hh).
    destruct (Hh nm b0 Hit) as (sv & Es & Hs). apply handler_proto in Hs. rewrite Es, P in Hs.
    unfold scan_types in Ty. destruct (types_not_special _ _ Hs) as [N1 N2].
    destruct Ty as [Ty|[Ty|Ty]]; [congruence|congruence|].
    apply in_flat_map in Ty as (P' & IP & HP). now rewrite (types_disjoint _ _ _ Hs HP).
  - intros ty p Ip. destruct (config_of_props _ _ _ _ _ _ H Ip) as (it & Iit & <-).
    apply at_addr_In in Iit as [Iit _]. now apply all_items_inv in Iit as (Ty & _).
Qed.

Theorem multicast_clauses : forall lk wanted ids h,
  NoDup (map caddr (scan_multicast lk wanted ids h)) /\
  (forall c, In c (scan_multicast lk wanted ids h) ->
     (exists b i, In b (csvcs c) /\ bident b = Some i /\ i <> []) /\
     (forall b, In b (csvcs c) -> In (bproto b) (wanted_protos wanted)) /\
     (forall ty p, In (ty, p) (cprops c) -> In ty (scan_types wanted))).
Proof. intros. unfold scan_multicast. apply scan_result_clauses. Qed.

Theorem unicast_clauses : forall lk wanted ids hs,
  NoDup (map caddr (scan_unicast lk wanted ids hs)) /\
  (forall c, In c (scan_unicast lk wanted ids hs) ->
     (exists b i, In b (csvcs c) /\ bident b = Some i /\ i <> []) /\
     (forall b, In b (csvcs c) -> In (bproto b) (wanted_protos wanted)) /\
     (forall ty p, In (ty, p) (cprops c) -> In ty (scan_types wanted))).
Proof. intros. unfold scan_unicast. apply scan_result_clauses. Qed.

(* within one configuration, at most one service per protocol *)
Theorem services_unique_per_protocol : forall lk ids D c, In c (result_of lk ids D) -> NoDup (map bproto (csvcs c)).
Proof.
  intros lk ids D c I. unfold result_of in I. apply filter_In in I as [I _]. apply discover_In in I as (a & H).
  unfold config_of in H. destruct (hitems (at_addr a D)) as [|x t]; [discriminate|]. injection H as <-. cbn [csvcs].
  change (fold_left add_service (map h_b t) (add_service [] (h_b x)))
    with (fold_left add_service (map h_b (x :: t)) []).
  pose proof (services_NoDup (map h_b (x :: t))) as ND.
  assert (E : map bproto (map snd (fold_left add_service (map h_b (x :: t)) [])) =
              map fst (fold_left add_service (map h_b (x :: t)) [])).
  { rewrite map_map. apply map_ext_in. intros [p e] Ie. simpl.
    apply (dget_In proto_eqb proto_eqb_eq _ _ _ ND) in Ie. rewrite services_get in Ie.
    destruct (of_proto p (map h_b (x :: t))) as [|b0 t0] eqn:F; [discriminate|]. injection Ie as <-. simpl.
    assert (I0 : In b0 (of_proto p (map h_b (x :: t)))) by (rewrite F; simpl; auto).
    now apply of_proto_In in I0 as [_ I0]. }
  now rewrite E.
Qed.
