(* C12 - concrete witnesses: where completion is decided by COUNTING datagrams, a duplicated
   datagram changes the result. *)
From Coq Require Import List Bool Arith NArith Lia String.
From PV Require Import Common.Cases C12.Model C12.DictLemmas C12.Spec
     C12.ProofsParser C12.ProofsMulticast C12.ProofsScanner C12.ProofsMain C12.Checkers.
Import ListNotations.
Local Open Scope string_scope.

(* a necessary condition of snapshot_equiv that can be computed *)
Definition protos_cover (l l' : list config) : bool :=
  forallb (fun c => existsb (fun c' =>
     N.eqb (caddr c) (caddr c') &&
     forallb (fun b => existsb (fun b' => proto_eqb (bproto b) (bproto b')) (csvcs c')) (csvcs c)) l') l.

Lemma snapshot_equiv_cover : forall l l', snapshot_equiv l l' -> protos_cover l l' = true.
Proof.
  intros l l' [H _]. unfold protos_cover. apply forallb_forall. intros c I.
  destruct (H c I) as (c' & I' & (A & _ & _ & [S _] & _)). apply existsb_exists. exists c'. split; [assumption|].
  rewrite A, N.eqb_refl. simpl. apply forallb_forall. intros b Ib. destruct (S b Ib) as (b' & Ib' & (_ & P & _)).
  apply existsb_exists. exists b'. split; [assumption|]. now apply proto_eqb_eq.
Qed.

(* one Apple TV at 10.0.0.1 answering the two queries of a scan for MRP and AirPlay with one
   datagram each *)
Definition w_ip : N := 167772161.
Definition w_host : str := lit "atv.local".
Definition w_mrp : str := lit "ATV._mediaremotetv._tcp.local".
Definition w_ap : str := lit "ATV._airplay._tcp.local".
Definition w_d1 : dgram := Msg
  [ mkRec T_MRP 12 1 10 32 (RPtr w_mrp);
    mkRec w_mrp 33 32769 10 17 (RSrv 0 0 49152 w_host);
    mkRec w_mrp 16 32769 10 33 (RTxt [(lit "Name", lit "ATV"); (lit "UniqueIdentifier", lit "mrpid")]);
    mkRec w_host 1 32769 10 4 (RA w_ip) ].
Definition w_d2 : dgram := Msg
  [ mkRec T_AIRPLAY 12 1 10 26 (RPtr w_ap);
    mkRec w_ap 33 32769 10 17 (RSrv 0 0 7000 w_host);
    mkRec w_ap 16 32769 10 33 (RTxt [(lit "deviceid", lit "AA:BB:CC:DD:EE:FF"); (lit "features", lit "0x1")]);
    mkRec w_host 1 32769 10 4 (RA w_ip) ].
Definition w_lk : lookups := mkLk (fun _ => 0%N) (fun _ => 0%N).
Definition w_wanted : list proto := [MRP; AirPlay].
Definition w_ids : list str := [lit "mrpid"].
Definition w_h12 : list (N * dgram) := [(w_ip, w_d1); (w_ip, w_d2)].
Definition w_h112 : list (N * dgram) := [(w_ip, w_d1); (w_ip, w_d1); (w_ip, w_d2)].

Lemma w_redelivery : redelivery w_h12 w_h112.
Proof. split; intros x H; simpl in *; tauto. Qed.

Lemma w_consistent : mc_consistent w_lk w_wanted w_h12.
Proof. apply mc_consistentb_sound. vm_compute. reflexivity. Qed.

(* without identifier filter both deliveries give the same result (instance of the theorem) ... *)
Lemma w_plain_same : snapshot_equiv (scan_multicast w_lk w_wanted [] w_h12) (scan_multicast w_lk w_wanted [] w_h112).
Proof. apply multicast_invariant; [apply redelivery_same_set, w_redelivery|apply w_consistent]. Qed.

(* ... with the filter the duplicate makes the scan stop before the AirPlay answer arrives *)
Lemma w_ids_differ : ~ snapshot_equiv (scan_multicast w_lk w_wanted w_ids w_h12) (scan_multicast w_lk w_wanted w_ids w_h112).
Proof. intro H. apply snapshot_equiv_cover in H. vm_compute in H. discriminate. Qed.

Theorem early_abort_dup_refuted :
  exists lk wanted ids h h',
    redelivery h h' /\ mc_consistent lk wanted h /\
    ~ snapshot_equiv (scan_multicast lk wanted ids h) (scan_multicast lk wanted ids h').
Proof.
  exists w_lk, w_wanted, w_ids, w_h12, w_h112.
  split; [apply w_redelivery|split; [apply w_consistent|apply w_ids_differ]].
Qed.

(* unicast: the same two answers, the first one delivered twice *)
Definition w_u12 : list (list dgram) := [[w_d1; w_d2]].
Definition w_u112 : list (list dgram) := [[w_d1; w_d1; w_d2]].

Lemma w_uc_consistent : uc_consistentb w_lk w_wanted w_u12 = true.
Proof. vm_compute. reflexivity. Qed.

Lemma w_uc_differ : ~ snapshot_equiv (scan_unicast w_lk w_wanted [] w_u12) (scan_unicast w_lk w_wanted [] w_u112).
Proof. intro H. apply snapshot_equiv_cover in H. vm_compute in H. discriminate. Qed.

(* a single answer is ignored, the same answer delivered twice is accepted as complete *)
Lemma w_uc_appear : scan_unicast w_lk w_wanted [] [[w_d1]] = [] /\ scan_unicast w_lk w_wanted [] [[w_d1; w_d1]] <> [].
Proof. split; vm_compute; [reflexivity|discriminate]. Qed.

Theorem unicast_dup_refuted :
  exists lk wanted hs hs',
    Forall2 redelivery hs hs' /\ uc_consistentb lk wanted hs = true /\
    ~ snapshot_equiv (scan_unicast lk wanted [] hs) (scan_unicast lk wanted [] hs').
Proof.
  exists w_lk, w_wanted, w_u12, w_u112. split; [|split].
  - constructor; [|constructor]. split; intros x H; simpl in *; tauto.
  - apply w_uc_consistent.
  - apply w_uc_differ.
Qed.

(* ------------------------------------------------------------ order alone: three datagrams for two queries *)

Definition deep_cover (l l' : list config) : bool :=
  forallb (fun c => existsb (fun c' => N.eqb (caddr c) (caddr c') && Bool.eqb (cdeep c) (cdeep c')) l') l.

Lemma snapshot_equiv_deep : forall l l', snapshot_equiv l l' -> deep_cover l l' = true.
Proof.
  intros l l' [H _]. unfold deep_cover. apply forallb_forall. intros c I.
  destruct (H c I) as (c' & I' & (A & D & _)). apply existsb_exists. exists c'. split; [assumption|].
  now rewrite A, D, N.eqb_refl, eqb_reflx.
Qed.

(* the AirPlay answer split in two: SRV + A, and TXT on its own *)
Definition w_d2a : dgram := Msg
  [ mkRec T_AIRPLAY 12 1 10 26 (RPtr w_ap);
    mkRec w_ap 33 32769 10 17 (RSrv 0 0 7000 w_host);
    mkRec w_host 1 32769 10 4 (RA w_ip) ].
Definition w_d2b : dgram := Msg
  [ mkRec w_ap 16 32769 10 33 (RTxt [(lit "deviceid", lit "AA:BB:CC:DD:EE:FF"); (lit "features", lit "0x1")]) ].
Definition w_h123 : list (N * dgram) := [(w_ip, w_d1); (w_ip, w_d2a); (w_ip, w_d2b)].
Definition w_h132 : list (N * dgram) := [(w_ip, w_d1); (w_ip, w_d2b); (w_ip, w_d2a)].

Theorem early_abort_order_refuted :
  exists lk wanted ids h h',
    Permutation.Permutation h h' /\ mc_consistent lk wanted h /\
    ~ snapshot_equiv (scan_multicast lk wanted ids h) (scan_multicast lk wanted ids h').
Proof.
  exists w_lk, w_wanted, w_ids, w_h123, w_h132. split; [|split].
  - unfold w_h123, w_h132. constructor. apply Permutation.perm_swap.
  - apply mc_consistentb_sound. vm_compute. reflexivity.
  - intro H. apply snapshot_equiv_deep in H. vm_compute in H. discriminate.
Qed.
