(* C12 - MulticastDnsSdClientProtocol: per-source aggregation as a function of the datagrams of
   that source; the run with an identifier filter equals the run without up to the abort point. *)
From Coq Require Import List Bool Arith NArith Lia.
From PV Require Import Common.Cases C12.Model C12.DictLemmas C12.ProofsParser.
Import ListNotations.

Lemma Neqb_eq : forall x y, N.eqb x y = true <-> x = y.
Proof. apply N.eqb_eq. Qed.

(* effect of one datagram on the QueryResponse of its source (no end condition) *)
Definition gstep (types : list str) (d : dgram) (q : qresp) : qresp :=
  match d with
  | Garbage => q
  | Msg recs =>
      if accepted types recs
      then mkQ (S (qcount q)) (qdeep q || sleep_proxy recs) (add_message (qparser q) recs)
      else q
  end.

Definition mstep0 (types : list str) (m : list (N * qresp)) (sd : N * dgram) : list (N * qresp) :=
  upsert N.eqb (fst sd) (gstep types (snd sd) q0) (gstep types (snd sd)) m.

Lemma end_condition_nil : forall r, end_condition [] r = false.
Proof. reflexivity. Qed.

Lemma if_same {A} (b : bool) (x : A) : (if b then x else x) = x.
Proof. now destruct b. Qed.

Lemma mc_step_noids : forall types st sd, mclosed st = false ->
  mc_step types [] st sd = mkM (mstep0 types (qrs st) sd) false.
Proof.
  intros types st [src d] C. unfold mc_step, mstep0. rewrite C. cbv zeta. simpl fst. simpl snd.
  destruct d as [|recs]; simpl gstep.
  - now rewrite (setdefault_upsert N.eqb).
  - destruct (accepted types recs) eqn:A; simpl negb; cbv iota.
    + rewrite end_condition_nil, andb_false_r. rewrite if_same.
      pose proof (setdefault_set_upsert N.eqb Neqb_eq src q0
           (fun q => mkQ (S (qcount q)) (qdeep q || sleep_proxy recs) (add_message (qparser q) recs)) (qrs st)) as H.
      cbv zeta in H. cbv beta in H. rewrite H. unfold gstep. rewrite A. reflexivity.
    + rewrite (setdefault_upsert N.eqb). unfold gstep. rewrite A. reflexivity.
Qed.

Lemma mc_fold_noids : forall types h st, mclosed st = false ->
  fold_left (mc_step types []) h st = mkM (fold_left (mstep0 types) h (qrs st)) false.
Proof.
  induction h as [|x t IH]; intros st C; simpl.
  - destruct st; simpl in *; now subst.
  - rewrite (mc_step_noids types st x C). now rewrite IH.
Qed.

Lemma mc_run_noids : forall types h, mc_run types [] h = mkM (fold_left (mstep0 types) h []) false.
Proof. intros. unfold mc_run. now rewrite mc_fold_noids. Qed.

Definition dgrams_of (s : N) (h : list (N * dgram)) : list dgram :=
  map snd (filter (fun x => N.eqb s (fst x)) h).
Definition agg (types : list str) (ds : list dgram) : qresp :=
  fold_left (fun q d => gstep types d q) ds q0.

Lemma fold_left_map {A B C} (f : A -> B) (g : C -> B -> C) : forall l c,
  fold_left g (map f l) c = fold_left (fun a x => g a (f x)) l c.
Proof. induction l as [|x t IH]; intro c; simpl; [reflexivity|]. apply IH. Qed.

Lemma qrs_get : forall types h s,
  dget N.eqb s (fold_left (mstep0 types) h []) =
  match dgrams_of s h with [] => None | ds => Some (agg types ds) end.
Proof.
  intros types h s.
  change (mstep0 types) with (ustep N.eqb (@fst N dgram) (fun x => gstep types (snd x) q0) (fun x => gstep types (snd x))).
  rewrite (dget_fold_upsert N.eqb Neqb_eq). simpl dget.
  rewrite (kstep_fold_none (fun x : N * dgram => gstep types (snd x)) q0).
  unfold dgrams_of, agg.
  destruct (filter (fun x => N.eqb s (fst x)) h) as [|x l]; [reflexivity|].
  simpl. f_equal. symmetry. apply (fold_left_map snd (fun q d => gstep types d q)).
Qed.

Lemma qrs_keys : forall types h s,
  In s (map fst (fold_left (mstep0 types) h [])) <-> exists d, In (s, d) h.
Proof.
  intros types h s.
  change (mstep0 types) with (ustep N.eqb (@fst N dgram) (fun x => gstep types (snd x) q0) (fun x => gstep types (snd x))).
  rewrite (keys_fold_upsert N.eqb Neqb_eq). simpl. split.
  - intros [[]|([s' d] & I & <-)]. eauto.
  - intros (d & I). right. exists (s, d). auto.
Qed.

Lemma qrs_NoDup : forall types h, NoDup (map fst (fold_left (mstep0 types) h [])).
Proof.
  intros types h.
  change (mstep0 types) with (ustep N.eqb (@fst N dgram) (fun x => gstep types (snd x) q0) (fun x => gstep types (snd x))).
  apply (NoDup_fold_upsert N.eqb Neqb_eq). constructor.
Qed.

Lemma dgrams_of_In : forall s h d, In d (dgrams_of s h) <-> In (s, d) h.
Proof.
  intros s h d. unfold dgrams_of. rewrite in_map_iff. split.
  - intros ([s' d'] & <- & I). apply filter_In in I as [I E]. simpl in E. apply N.eqb_eq in E. now subst.
  - intro I. exists (s, d). split; [reflexivity|]. apply filter_In. split; [assumption|]. simpl. apply N.eqb_refl.
Qed.

Lemma dgrams_of_same_set : forall s h h', same_set h h' -> same_set (dgrams_of s h) (dgrams_of s h').
Proof. intros s h h' S d. rewrite !dgrams_of_In. apply S. Qed.

(* the record lists of the accepted datagrams *)
Definition acc (types : list str) (ds : list dgram) : list (list rec) :=
  flat_map (fun d => match d with
                     | Msg r => if accepted types r then [r] else []
                     | Garbage => []
                     end) ds.

Lemma acc_In : forall types ds r, In r (acc types ds) <-> In (Msg r) ds /\ accepted types r = true.
Proof.
  intros types ds r. unfold acc. rewrite in_flat_map. split.
  - intros ([|r'] & I & H); [destruct H|]. destruct (accepted types r') eqn:A; [|destruct H].
    destruct H as [<-|[]]. auto.
  - intros [I A]. exists (Msg r). split; [assumption|]. rewrite A. now left.
Qed.

Lemma acc_same_set : forall types ds ds', same_set ds ds' -> same_set (acc types ds) (acc types ds').
Proof. intros types ds ds' S r. rewrite !acc_In. specialize (S (Msg r)). tauto. Qed.

Lemma concat_same_set {A} : forall (l l' : list (list A)), same_set l l' -> same_set (concat l) (concat l').
Proof.
  intros l l' S x. rewrite !in_concat. split; intros (y & I & H); exists y; (split; [now apply S|assumption]).
Qed.

Lemma existsb_same_set {A} (f : A -> bool) : forall l l', same_set l l' -> existsb f l = existsb f l'.
Proof.
  intros l l' S. destruct (existsb f l) eqn:E; symmetry.
  - apply existsb_exists in E as (x & I & H). apply existsb_exists. exists x. split; [now apply S|assumption].
  - destruct (existsb f l') eqn:E'; [|reflexivity]. apply existsb_exists in E' as (x & I & H).
    assert (existsb f l = true); [|congruence]. apply existsb_exists. exists x. split; [now apply S|assumption].
Qed.

Lemma agg_gen : forall types ds q,
  let q' := fold_left (fun q d => gstep types d q) ds q in
  qparser q' = fold_left add_record (concat (acc types ds)) (qparser q) /\
  qdeep q' = (qdeep q || existsb sleep_proxy (acc types ds))%bool /\
  qcount q' = length (acc types ds) + qcount q.
Proof.
  induction ds as [|d t IH]; intro q; simpl.
  - rewrite orb_false_r. auto.
  - destruct (IH (gstep types d q)) as (H1 & H2 & H3). rewrite H1, H2, H3. clear IH H1 H2 H3.
    destruct d as [|r]; simpl; [auto|]. destruct (accepted types r); simpl; [|auto].
    rewrite fold_left_app. unfold add_message. rewrite orb_assoc. repeat split. lia.
Qed.

Lemma agg_parser : forall types ds, qparser (agg types ds) = table_of (concat (acc types ds)).
Proof. intros. apply (agg_gen types ds q0). Qed.
Lemma agg_deep : forall types ds, qdeep (agg types ds) = existsb sleep_proxy (acc types ds).
Proof. intros. apply (agg_gen types ds q0). Qed.
Lemma agg_count : forall types ds, qcount (agg types ds) = length (acc types ds).
Proof. intros. destruct (agg_gen types ds q0) as (_ & _ & H). unfold agg. rewrite H. simpl. lia. Qed.

(* ------------------------------------------------------------ identifier scans: equal to the plain run up to the abort *)

Lemma mc_step_ids : forall types ids st sd, mclosed st = false ->
  mc_step types ids st sd = mc_step types [] st sd \/
  exists q, dget N.eqb (fst sd) (qrs (mc_step types [] st sd)) = Some q /\
            mc_step types ids st sd = mkM [(fst sd, q)] true.
Proof.
  intros types ids st [src d] C. unfold mc_step. rewrite C. cbv zeta.
  destruct d as [|recs]; [now left|].
  destruct (negb (accepted types recs)); [now left|].
  destruct (sleep_proxy recs) eqn:SP; [now left|].
  rewrite end_condition_nil, andb_false_r.
  match goal with |- context [if ?c then mkM [(src, ?q')] true else _] => destruct c eqn:E; [right|now left] end.
  simpl fst. eexists. split; [|reflexivity]. simpl qrs. apply (dget_dset_same N.eqb Neqb_eq).
Qed.

Theorem mc_run_ids_prefix : forall types ids h,
  mc_run types ids h = mc_run types [] h \/
  exists pre s d post q,
    h = pre ++ (s, d) :: post /\
    mc_run types ids pre = mc_run types [] pre /\
    dget N.eqb s (qrs (mc_run types [] (pre ++ [(s, d)]))) = Some q /\
    mc_run types ids h = mkM [(s, q)] true.
Proof.
  intros types ids h. induction h as [|x t IH] using rev_ind; [now left|].
  unfold mc_run in *. rewrite !fold_left_app. simpl.
  destruct IH as [IH|(pre & s & d & post & q & E & P & G & R)].
  - rewrite IH. fold (mc_run types [] t).
    assert (C : mclosed (mc_run types [] t) = false) by (rewrite mc_run_noids; reflexivity).
    destruct (mc_step_ids types ids _ x C) as [H|(q & G & H)]; [now left|].
    right. exists t, (fst x), (snd x), [], q. destruct x as [s d]; simpl fst in *; simpl snd in *.
    repeat split; try assumption. unfold mc_run. now rewrite fold_left_app.
  - right. exists pre, s, d, (post ++ [x]), q. rewrite R. repeat split; try assumption.
    subst t. now rewrite <- app_assoc.
Qed.
