(* C12 - decidable versions of the consistency hypotheses, with soundness proofs.  They make the
   hypotheses of the theorems checkable on concrete scenarios (non-vacuity examples, and the
   generated "self-consistent" scenarios of the correspondence run). *)
From Coq Require Import List Bool Arith NArith Lia.
From PV Require Import Common.Cases C12.Model C12.DictLemmas C12.Spec
     C12.ProofsParser C12.ProofsMulticast C12.ProofsScanner C12.ProofsMain.
Import ListNotations.

Definition pairwise {A} (f : A -> A -> bool) (l : list A) : bool := forallb (fun x => forallb (f x) l) l.

Lemma pairwise_spec {A} (f : A -> A -> bool) : forall l, pairwise f l = true ->
  forall x y, In x l -> In y l -> f x y = true.
Proof.
  intros l H x y Ix Iy. unfold pairwise in H. rewrite forallb_forall in H.
  specialize (H x Ix). rewrite forallb_forall in H. now apply H.
Qed.

Lemma pair_eqb_eq : forall a b, pair_eqb a b = true -> a = b.
Proof.
  intros [a1 a2] [b1 b2] H. unfold pair_eqb in H. simpl in H. apply andb_true_iff in H as [H1 H2].
  apply str_eqb_eq in H1, H2. now subst.
Qed.

Lemma list_beq_sound {A} (eqb : A -> A -> bool) : (forall x y, eqb x y = true -> x = y) ->
  forall a b, list_beq eqb a b = true -> a = b.
Proof.
  intros H a; induction a as [|x a IH]; intros [|y b]; simpl; intro E; try reflexivity; try discriminate.
  apply andb_true_iff in E as [E1 E2]. apply H in E1. apply IH in E2. now subst.
Qed.

Definition rdata_seqb (a b : rdata) : bool :=
  match a, b with
  | RA x, RA y => N.eqb x y
  | RPtr x, RPtr y => str_eqb x y
  | RTxt x, RTxt y => list_beq pair_eqb x y
  | RSrv p w o t, RSrv p' w' o' t' => N.eqb p p' && N.eqb w w' && N.eqb o o' && str_eqb t t'
  | RRaw x, RRaw y => list_beq N.eqb x y
  | _, _ => false
  end.

Lemma rdata_seqb_eq : forall a b, rdata_seqb a b = true -> a = b.
Proof.
  intros [] []; simpl; intro H; try discriminate.
  - apply N.eqb_eq in H. now subst.
  - apply str_eqb_eq in H. now subst.
  - apply (list_beq_sound pair_eqb pair_eqb_eq) in H. now subst.
  - repeat (apply andb_true_iff in H; destruct H as [H ?]).
    apply N.eqb_eq in H, H2, H1. apply str_eqb_eq in H0. now subst.
  - apply (list_beq_sound N.eqb (fun x y => proj1 (N.eqb_eq x y))) in H. now subst.
Qed.

Definition rec_pair_ok (r r' : rec) : bool :=
  implb (str_eqb (qn r) (qn r') && N.eqb (qt r) (qt r') && (N.eqb (qt r) T_SRV || N.eqb (qt r) T_TXT))
        (rdata_seqb (rd r) (rd r')) &&
  implb (str_eqb (qn r) (qn r') && N.eqb (qt r) T_A && N.eqb (qt r') T_A)
        (match rd r, rd r' with
         | RA ip, RA ip' => link_local ip || link_local ip' || N.eqb ip ip'
         | _, _ => true
         end).
Definition recs_consistentb (raw : list rec) : bool := pairwise rec_pair_ok raw.

Lemma recs_consistentb_sound : forall raw, recs_consistentb raw = true -> recs_consistent raw.
Proof.
  intros raw H. pose proof (pairwise_spec _ _ H) as P. split.
  - intros r r' I I' E1 E2 E3. specialize (P r r' I I'). unfold rec_pair_ok in P.
    apply andb_true_iff in P as [P _]. apply rdata_seqb_eq.
    assert (C : str_eqb (qn r) (qn r') && N.eqb (qt r) (qt r') && (N.eqb (qt r) T_SRV || N.eqb (qt r) T_TXT) = true).
    { rewrite E1, E2, str_eqb_refl, N.eqb_refl. simpl. destruct E3 as [E3|E3]; rewrite <- E2, E3; reflexivity. }
    rewrite C in P. exact P.
  - intros r r' ip ip' I I' E1 E2 E3 R R' L L'. specialize (P r r' I I'). unfold rec_pair_ok in P.
    apply andb_true_iff in P as [_ P].
    rewrite E1, E2, E3, str_eqb_refl, R, R', L, L' in P. simpl in P. now apply N.eqb_eq.
Qed.

Definition devinfo_pair_ok (x y : service) : bool :=
  implb (str_eqb (stype x) DEVINFO && str_eqb (stype y) DEVINFO)
        (opt_beq str_eqb (pget K_MODEL (sprops x)) (pget K_MODEL (sprops y))).
Definition devinfo_agreeb (l : list service) : bool := pairwise devinfo_pair_ok l.

Lemma opt_str_beq_eq : forall a b : option str, opt_beq str_eqb a b = true -> a = b.
Proof. intros [a|] [b|]; simpl; intro H; try discriminate; [apply str_eqb_eq in H; now subst|reflexivity]. Qed.

Lemma devinfo_agreeb_sound : forall l, devinfo_agreeb l = true -> devinfo_agree l.
Proof.
  intros l H x y I I' E E'. pose proof (pairwise_spec _ _ H x y I I') as P. unfold devinfo_pair_ok in P.
  rewrite E, E', str_eqb_refl in P. simpl in P. now apply opt_str_beq_eq.
Qed.

Definition source_consistentb (types : list str) (ds : list dgram) : bool :=
  recs_consistentb (concat (acc types ds)) &&
  devinfo_agreeb (real_services (table_of (concat (acc types ds)))).

Lemma source_consistentb_sound : forall types ds, source_consistentb types ds = true -> source_consistent types ds.
Proof.
  intros types ds H. apply andb_true_iff in H as [H1 H2]. split.
  - now apply recs_consistentb_sound.
  - now apply devinfo_agreeb_sound.
Qed.

Definition host_consistentb (ms : list (list rec)) : bool :=
  recs_consistentb (concat ms) && devinfo_agreeb (real_services (table_of (concat ms))).
Lemma host_consistentb_sound : forall ms, host_consistentb ms = true -> host_consistent ms.
Proof.
  intros ms H. apply andb_true_iff in H as [H1 H2]. split.
  - now apply recs_consistentb_sound.
  - now apply devinfo_agreeb_sound.
Qed.

(* ------------------------------------------------------------ items *)

Definition binds_ok (p p' : dict) : bool :=
  forallb (fun kv => forallb (fun kv' => implb (str_eqb (fst kv) (fst kv')) (str_eqb (snd kv) (snd kv'))) p') p.

Lemma binds_ok_sound : forall p p', binds_ok p p' = true ->
  forall k v v', In (k, v) p -> In (k, v') p' -> v = v'.
Proof.
  intros p p' H k v v' I I'. unfold binds_ok in H. rewrite forallb_forall in H. specialize (H _ I).
  rewrite forallb_forall in H. specialize (H _ I'). simpl in H. rewrite str_eqb_refl in H. simpl in H.
  now apply str_eqb_eq.
Qed.

Definition opt_N_beq (a b : option N) : bool := opt_beq N.eqb a b.
Lemma opt_N_beq_eq : forall a b, opt_N_beq a b = true -> a = b.
Proof. intros [a|] [b|]; simpl; intro H; try discriminate; [apply N.eqb_eq in H; now subst|reflexivity]. Qed.

Definition item_pair_ok (lk : lookups) (x y : item) : bool :=
  implb (N.eqb (ia x) (ia y))
    ((match ih x, ih y with
      | Some (nm, b), Some (nm', b') =>
          implb (proto_eqb (bproto b) (bproto b'))
                (opt_beq str_eqb (bident b) (bident b') && N.eqb (bport b) (bport b') && binds_ok (bprops b) (bprops b'))
          && Bool.eqb (ideep x) (ideep y) && N.eqb (imodel x) (imodel y) && opt_beq str_eqb nm nm'
      | _, _ => true
      end) &&
     implb (str_eqb (ity x) (ity y)) (dict_exact (iprops x) (iprops y)) &&
     (match hint_of lk x, hint_of lk y with Some m, Some m' => N.eqb m m' | _, _ => true end)).
Definition items_consistentb (lk : lookups) (D : list item) : bool := pairwise (item_pair_ok lk) D.

Lemma items_consistentb_sound : forall lk D, items_consistentb lk D = true -> items_consistent lk D.
Proof.
  intros lk D H. pose proof (pairwise_spec _ _ H) as P. split; [|split; [|split]].
  - intros x y nm b nm' b' I I' A Hx Hy Pr. specialize (P x y I I'). unfold item_pair_ok in P.
    rewrite A, N.eqb_refl, Hx, Hy in P. simpl in P.
    apply andb_true_iff in P as [P _]. apply andb_true_iff in P as [P _].
    apply andb_true_iff in P as [P _]. apply andb_true_iff in P as [P _]. apply andb_true_iff in P as [P _].
    assert (E : proto_eqb (bproto b) (bproto b') = true) by now apply proto_eqb_eq.
    rewrite E in P. simpl in P.
    apply andb_true_iff in P as [P P3]. apply andb_true_iff in P as [P1 P2].
    split; [now apply opt_str_beq_eq|]. split; [now apply N.eqb_eq|]. now apply binds_ok_sound.
  - intros x y I I' A E. specialize (P x y I I'). unfold item_pair_ok in P.
    rewrite A, N.eqb_refl in P. simpl in P.
    apply andb_true_iff in P as [P _]. apply andb_true_iff in P as [_ P].
    rewrite E, str_eqb_refl in P. simpl in P. now apply (list_beq_sound pair_eqb pair_eqb_eq).
  - intros x y nm b nm' b' I I' A Hx Hy. specialize (P x y I I'). unfold item_pair_ok in P.
    rewrite A, N.eqb_refl, Hx, Hy in P. simpl in P.
    apply andb_true_iff in P as [P _]. apply andb_true_iff in P as [P _].
    apply andb_true_iff in P as [P Pn]. apply andb_true_iff in P as [P P2]. apply andb_true_iff in P as [_ P1].
    split; [now apply eqb_prop|]. split; [now apply N.eqb_eq|]. now apply opt_str_beq_eq.
  - intros x y m m' I I' A Hx Hy. specialize (P x y I I'). unfold item_pair_ok in P.
    rewrite A, N.eqb_refl in P. simpl in P. apply andb_true_iff in P as [_ P].
    rewrite Hx, Hy in P. now apply N.eqb_eq.
Qed.

(* ------------------------------------------------------------ whole scans *)

Definition mc_consistentb (lk : lookups) (wanted : list proto) (h : list (N * dgram)) : bool :=
  forallb (fun s => source_consistentb (scan_types wanted) (dgrams_of s h)) (map fst h) &&
  items_consistentb lk (mc_items lk wanted h).

Lemma source_consistent_nil : forall types, source_consistent types [].
Proof.
  intro types. split.
  - split; intros r r' *; intros [].
  - intros x y [].
Qed.

Theorem mc_consistentb_sound : forall lk wanted h, mc_consistentb lk wanted h = true -> mc_consistent lk wanted h.
Proof.
  intros lk wanted h H. apply andb_true_iff in H as [H1 H2]. split.
  - intro s. destruct (dgrams_of s h) as [|d t] eqn:E; [apply source_consistent_nil|].
    rewrite <- E. apply source_consistentb_sound. rewrite forallb_forall in H1. apply H1.
    assert (I : In d (dgrams_of s h)) by (rewrite E; simpl; auto).
    apply dgrams_of_In in I. change s with (fst (s, d)). now apply in_map.
  - now apply items_consistentb_sound.
Qed.

Definition uc_effective_consistentb (nq : nat) (h : list dgram) : bool :=
  match uc_effective nq h with Some ms => host_consistentb ms | None => true end.

Definition uc_consistentb (lk : lookups) (wanted : list proto) (hs : list (list dgram)) : bool :=
  forallb (uc_effective_consistentb (nqueries (scan_types wanted))) hs &&
  items_consistentb lk (uc_items lk wanted hs).

Definition uc_burst_consistentb (lk : lookups) (wanted : list proto) (hs : list (list dgram)) : bool :=
  forallb (fun h => host_consistentb (msgs h)) hs &&
  items_consistentb lk (uc_burst_items lk wanted hs).

(* ------------------------------------------------------------ correspondence run: model = implementation, and
   scenarios generated as "self-consistent" satisfy the hypothesis of the theorems *)
Definition check_case_full (tm ti : list (str * N)) (claimed_consistent : bool) (c : case) : bool :=
  check_case tm ti c &&
  (if claimed_consistent then
     match k_hist c with
     | HMulti h => mc_consistentb (table_lk tm ti) (k_wanted c) h
     | HUni hs => uc_consistentb (table_lk tm ti) (k_wanted c) hs
     | HMultiBurst h => mc_consistentb (table_lk tm ti) (k_wanted c) h
     | HUniBurst hs => uc_burst_consistentb (table_lk tm ti) (k_wanted c) hs
     end
   else true).
