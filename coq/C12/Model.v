(* C12 - executable model of pyatv's own mDNS discovery path, as the code stands in /repo:

     pyatv/core/mdns.py   ServiceParser.add_message / parse, _get_model,
                          MulticastDnsSdClientProtocol.datagram_received / get_response,
                          UnicastDnsSdClientProtocol.datagram_received / get_response
     pyatv/core/scan.py   BaseScanner.handle_response / _service_discovered / discover /
                          _get_device_info, MulticastMdnsScanner._end_if_identifier_found,
                          UnicastMdnsScanner.process
     pyatv/conf.py        AppleTV.add_service, interface.BaseService.merge
     pyatv/__init__.py    scan(): service registration order, _should_include
     pyatv/helpers.py     get_unique_id
     protocols/*/__init__.py  the scan handlers and the MODEL part of the device_info extractors

   Input level: a datagram is the record list `answers ++ resources` that
   DnsMessage.unpack produces (or `Garbage` when unpack raises); byte-level decoding is the
   subject of C04/C05.  TXT values are the strings decode_value yields.
   Python dicts are insertion-ordered association lists, so the model reproduces the
   ORDER of everything the real code returns; the correspondence run compares exactly.

   Representation choices (each observationally equivalent to the code, tied by the run):
   * ServiceParser.table (dict name -> dict type -> list) is the flat list `precs` of the
     table records in insertion order: iteration order of table.items() is the order of first
     occurrence of each name; `record not in entry[type]` equals `record not in flat list`
     because equal records have equal name and type.
   * credentials / password / enabled / pairing of a service are not modelled (not part of
     the observable of this property).
   * lookup_model / lookup_internal_name (pyatv/support/device_info.py, data tables) are
     function arguments `lk`; theorems hold for every such pair of functions. *)
From Coq Require Import List Bool Arith NArith String Ascii.
From PV Require Import Common.Cases.
Import ListNotations.

(* a Python str, as its UTF-8 bytes: every operation below inspects ASCII characters only
   ('.', '_', '@', A-Z), and those never occur inside a multi-byte sequence *)
Definition str := list N.
Definition str_eqb : str -> str -> bool := list_beq N.eqb.
Definition lit (x : string) : str := map N_of_ascii (list_ascii_of_string x).

(* ---------------------------------------------------------------- strings *)

(* x.split(c) *)
Fixpoint split_on (c : N) (x : str) : list str :=
  match x with
  | [] => [[]]
  | h :: t =>
      let r := split_on c t in
      if N.eqb h c then [] :: r
      else match r with [] => [[h]] | w :: ws => (h :: w) :: ws end
  end.

(* c.join(l) *)
Fixpoint join (c : N) (l : list str) : str :=
  match l with
  | [] => []
  | [x] => x
  | x :: t => x ++ c :: join c t
  end.

(* x.split(c, maxsplit=1): (head, Some tail) when c occurs *)
Fixpoint split1 (c : N) (x : str) : str * option str :=
  match x with
  | [] => ([], None)
  | h :: t =>
      if N.eqb h c then ([], Some t)
      else let '(a, b) := split1 c t in (h :: a, b)
  end.

Definition lower_c (c : N) : N := if (N.leb 65 c && N.leb c 90)%bool then (c + 32)%N else c.
Definition lower (x : str) : str := map lower_c x.
Definition starts_us (x : str) : bool := match x with 95%N :: _ => true | _ => false end.

Definition DOT : N := 46%N.
Definition tcp_or_udp (x : str) : bool :=
  str_eqb (lower x) (lit "_tcp") || str_eqb (lower x) (lit "_udp").

(* ServiceInstanceName.split_name: Some (instance, ptr_name); None = ValueError *)
Fixpoint split_name_aux (pre : list str) (labels : list str) : option (option str * str) :=
  match labels with
  | l1 :: ((l2 :: rest) as t) =>
      if starts_us l1 && tcp_or_udp l2 then
        let inst := join DOT (rev pre) in
        Some (match inst with [] => None | _ => Some inst end,
              (l1 ++ DOT :: l2) ++ DOT :: join DOT rest)
      else split_name_aux (l1 :: pre) t
  | _ => None
  end.
Definition split_name (name : str) : option (option str * str) :=
  split_name_aux [] (split_on DOT name).

(* ---------------------------------------------------------------- dicts *)

Section Dict.
  Context {K V : Type} (keqb : K -> K -> bool).
  Fixpoint dget (k : K) (m : list (K * V)) : option V :=
    match m with
    | [] => None
    | (k', v) :: t => if keqb k k' then Some v else dget k t
    end.
  (* d[k] = v : position of the first insertion is kept *)
  Fixpoint dset (k : K) (v : V) (m : list (K * V)) : list (K * V) :=
    match m with
    | [] => [(k, v)]
    | (k', v') :: t => if keqb k k' then (k', v) :: t else (k', v') :: dset k v t
    end.
  Definition dmem (k : K) (m : list (K * V)) : bool :=
    match dget k m with Some _ => true | None => false end.
  (* v = d.get(k); d[k] = upd(v) if present, else d[k] = ins   (setdefault-then-mutate) *)
  Definition upsert (k : K) (ins : V) (upd : V -> V) (m : list (K * V)) : list (K * V) :=
    match dget k m with Some v => dset k (upd v) m | None => m ++ [(k, ins)] end.
  (* a.update(b) *)
  Definition dupdate (a b : list (K * V)) : list (K * V) :=
    fold_left (fun m kv => dset (fst kv) (snd kv) m) b a.
End Dict.

Definition dict := list (str * str).
Definition pget (k : str) (d : dict) : option str := dget str_eqb k d.

(* CaseInsensitiveDict built from the key=value chunks of a TXT record *)
Definition cidict (kv : list (str * str)) : dict :=
  fold_left (fun m p => dset str_eqb (lower (fst p)) (snd p) m) kv [].

(* ---------------------------------------------------------------- records *)

Inductive rdata :=
| RA (ip : N)
| RPtr (target : str)
| RTxt (kv : list (str * str))
| RSrv (prio weight port : N) (target : str)
| RRaw (b : list N).

Record rec := mkRec { qn : str; qt : N; qclass : N; ttl : N; rdlen : N; rd : rdata }.

Definition T_A : N := 1. Definition T_PTR : N := 12. Definition T_TXT : N := 16. Definition T_SRV : N := 33.

Definition pair_eqb (a b : str * str) : bool := str_eqb (fst a) (fst b) && str_eqb (snd a) (snd b).
(* dict == dict: same keys, same values, order irrelevant *)
Definition dict_eqb (a b : dict) : bool :=
  Nat.eqb (List.length a) (List.length b) &&
  forallb (fun kv => opt_beq str_eqb (pget (fst kv) b) (Some (snd kv))) a.

Definition rdata_eqb (a b : rdata) : bool :=
  match a, b with
  | RA x, RA y => N.eqb x y
  | RPtr x, RPtr y => str_eqb x y
  | RTxt x, RTxt y => dict_eqb (cidict x) (cidict y)
  | RSrv p w o t, RSrv p' w' o' t' => N.eqb p p' && N.eqb w w' && N.eqb o o' && str_eqb t t'
  | RRaw x, RRaw y => list_beq N.eqb x y
  | _, _ => false
  end.

(* DnsResource.__eq__ (NamedTuple equality) *)
Definition rec_eqb (a b : rec) : bool :=
  str_eqb (qn a) (qn b) && N.eqb (qt a) (qt b) && N.eqb (qclass a) (qclass b) &&
  N.eqb (ttl a) (ttl b) && N.eqb (rdlen a) (rdlen b) && rdata_eqb (rd a) (rd b).

(* ---------------------------------------------------------------- ServiceParser *)

Record parser := mkParser { precs : list rec; pptrs : list (str * str) }.
Definition parser0 : parser := mkParser [] [].

Definition is_ptr_rec (r : rec) : bool := N.eqb (qt r) T_PTR && starts_us (qn r).
Definition ptr_target (r : rec) : str := match rd r with RPtr t => t | _ => [] end.

Definition add_record (p : parser) (r : rec) : parser :=
  if is_ptr_rec r then mkParser (precs p) (dset str_eqb (qn r) (ptr_target r) (pptrs p))
  else if existsb (rec_eqb r) (precs p) then p
  else mkParser (precs p ++ [r]) (pptrs p).

Definition add_message (p : parser) (d : list rec) : parser := fold_left add_record d p.

Record service := mkService
  { stype : str; sname : option str; saddr : option N; sport : N; sprops : dict }.

Definition is_rec (n : str) (t : N) (r : rec) : bool := str_eqb (qn r) n && N.eqb (qt r) t.
(* _first_rd *)
Definition first_rd (t : N) (n : str) (l : list rec) : option rdata :=
  option_map rd (find (is_rec n t) l).

(* 169.254.0.0/16 *)
Definition link_local (ip : N) : bool := N.eqb (N.div ip 65536) 43518.

Definition usable_a (target : str) (r : rec) : bool :=
  is_rec target T_A r && match rd r with RA ip => negb (link_local ip) | _ => false end.
Definition first_addr (target : option str) (l : list rec) : option N :=
  match target with
  | None => None
  | Some t => match find (usable_a t) l with
              | Some r => match rd r with RA ip => Some ip | _ => None end
              | None => None
              end
  end.

Fixpoint nodup_first (seen : list str) (l : list str) : list str :=
  match l with
  | [] => []
  | x :: t => if existsb (str_eqb x) seen then nodup_first seen t
              else x :: nodup_first (x :: seen) t
  end.
(* keys of self.table in iteration order *)
Definition table_names (l : list rec) : list str := nodup_first [] (map qn l).

Definition real_service (l : list rec) (n : str) : list (str * service) :=
  match split_name n with
  | None => []                                   (* except ValueError: continue *)
  | Some (inst, ptrname) =>
      let srv := first_rd T_SRV n l in
      let target := match srv with Some (RSrv _ _ _ t) => Some t | _ => None end in
      let port := match srv with Some (RSrv _ _ p _) => p | _ => 0%N end in
      let props := match first_rd T_TXT n l with Some (RTxt kv) => cidict kv | _ => [] end in
      [(n, mkService ptrname inst (first_addr target l) port props)]
  end.

Definition placeholder (res : list (str * service)) (qr : str * str) : list (str * service) :=
  let '(qname, real) := qr in
  if dmem str_eqb real res then res
  else res ++ [(real, mkService qname (Some (hd [] (split_on DOT real))) None 0%N [])].

(* ServiceParser.parse: results dict, then its values *)
Definition parse_results (p : parser) : list (str * service) :=
  fold_left placeholder (pptrs p) (flat_map (real_service (precs p)) (table_names (precs p))).
Definition parse (p : parser) : list service := map snd (parse_results p).

Definition DEVINFO := lit "_device-info._tcp.local".
Definition SLEEPPROXY := lit "_sleep-proxy._udp.local".

Definition K_MODEL := lit "model".
Fixpoint get_model (l : list service) : option str :=
  match l with
  | [] => None
  | sv :: t => if str_eqb (stype sv) DEVINFO then pget K_MODEL (sprops sv) else get_model t
  end.

Record response := mkResp { rservices : list service; rdeep : bool; rmodel : option str }.

(* ---------------------------------------------------------------- protocols, handlers *)

Inductive proto := DMAP | MRP | AirPlay | Companion | RAOP.
Definition proto_eqb (a b : proto) : bool :=
  match a, b with
  | DMAP, DMAP | MRP, MRP | AirPlay, AirPlay | Companion, Companion | RAOP, RAOP => true
  | _, _ => false
  end.
(* Protocol enum values *)
Definition proto_num (p : proto) : N :=
  match p with DMAP => 1 | MRP => 2 | AirPlay => 3 | Companion => 4 | RAOP => 5 end%N.

Definition T_AIRPLAY := lit "_airplay._tcp.local".
Definition T_COMPANION := lit "_companion-link._tcp.local".
Definition T_HOMESHARING := lit "_appletv-v2._tcp.local".
Definition T_DEVICE := lit "_touch-able._tcp.local".
Definition T_HSCP := lit "_hscp._tcp.local".
Definition T_MRP := lit "_mediaremotetv._tcp.local".
Definition T_RAOP := lit "_raop._tcp.local".
Definition T_AIRPORT := lit "_airport._tcp.local".

(* PROTOCOLS iteration order and the keys of each scan() mapping *)
Definition all_protos : list proto := [AirPlay; Companion; DMAP; MRP; RAOP].
Definition types_of (p : proto) : list str :=
  match p with
  | AirPlay => [T_AIRPLAY]
  | Companion => [T_COMPANION]
  | DMAP => [T_HOMESHARING; T_DEVICE; T_HSCP]
  | MRP => [T_MRP]
  | RAOP => [T_RAOP; T_AIRPORT]
  end.

(* BaseScanner.services after pyatv.scan registered the wanted protocols;
   wanted = [] stands for protocol=None (all) *)
Definition wanted_protos (wanted : list proto) : list proto :=
  match wanted with
  | [] => all_protos
  | _ => filter (fun p => existsb (proto_eqb p) wanted) all_protos
  end.
Definition scan_types (wanted : list proto) : list str :=
  DEVINFO :: SLEEPPROXY :: flat_map types_of (wanted_protos wanted).

(* math.ceil(len(services) / SERVICES_PER_MSG) *)
Definition nqueries (types : list str) : nat := Nat.div (List.length types + 2) 3.

Inductive res (A : Type) := Ok (a : A) | Raised.
Arguments Ok {A} a. Arguments Raised {A}.

(* helpers.get_unique_id; Raised = AttributeError on a None service name *)
Definition get_unique_id (ty : str) (name : option str) (props : dict) : res (option str) :=
  if str_eqb ty T_DEVICE || str_eqb ty T_HOMESHARING then
    match name with None => Raised | Some n => Ok (Some (hd [] (split_on 95 n))) end
  else if str_eqb ty T_HSCP then Ok (pget (lit "machine id") props)
  else if str_eqb ty T_MRP then Ok (pget (lit "uniqueidentifier") props)
  else if str_eqb ty T_AIRPLAY then Ok (pget (lit "deviceid") props)
  else if str_eqb ty T_COMPANION then Ok (pget (lit "rpmrtid") props)
  else if str_eqb ty T_RAOP then
    match name with
    | None => Raised
    | Some n => match split1 64 n with
                | (a, Some _) => Ok (Some a)
                | (_, None) => Ok (pget (lit "pk") props)
                end
    end
  else Ok None.

Record bsvc := mkB { bident : option str; bproto : proto; bport : N; bprops : dict }.

Inductive hres := HNone | HSome (name : option str) (b : bsvc) | HRaise.

Definition UNKNOWN := lit "Unknown".
Definition por (a : option str) (d : str) : str := match a with Some x => x | None => d end.

(* the scan handler registered for a service type (self._services[type][0]) *)
Definition handler (sv : service) : hres :=
  let ty := stype sv in
  let mk (nm : option str) (p : proto) :=
    match get_unique_id ty (sname sv) (sprops sv) with
    | Raised => HRaise
    | Ok i => HSome nm (mkB i p (sport sv) (sprops sv))
    end in
  if str_eqb ty T_AIRPLAY then mk (sname sv) AirPlay
  else if str_eqb ty T_COMPANION then mk (sname sv) Companion
  else if str_eqb ty T_HOMESHARING then mk (Some (por (pget (lit "name") (sprops sv)) UNKNOWN)) DMAP
  else if str_eqb ty T_DEVICE then mk (Some (por (pget (lit "ctln") (sprops sv)) UNKNOWN)) DMAP
  else if str_eqb ty T_HSCP then mk (Some (por (pget (lit "machine name") (sprops sv)) UNKNOWN)) DMAP
  else if str_eqb ty T_MRP then mk (Some (por (pget (lit "name") (sprops sv)) UNKNOWN)) MRP
  else if str_eqb ty T_RAOP then
    match sname sv with
    | None => HRaise                               (* raop_name_from_service_name(None) *)
    | Some n => mk (Some (match split1 64 n with (_, Some b) => b | (a, None) => a end)) RAOP
    end
  else HNone.                                      (* _airport, _device-info, _sleep-proxy *)

(* lookup tables of pyatv/support/device_info.py, 0 = DeviceModel.Unknown *)
Record lookups := mkLk { lk_model : str -> N; lk_internal : option str -> N }.

Definition MODEL_MUSIC : N := 10.

(* dict(prop.split("=", maxsplit=1) for prop in ("macaddress=" + wama).split(",")) raises
   ValueError when an element after the first has no "=" *)
Definition wama_raises (w : str) : bool :=
  existsb (fun piece => negb (existsb (N.eqb 61) piece)) (tl (split_on 44 w)).

(* MODEL entry produced by the device_info extractor registered for a type; None also when the
   extractor raises *)
Definition model_hint (lk : lookups) (ty : str) (p : dict) : option N :=
  let via (key : str) :=
    match pget key p with
    | Some v => if N.eqb (lk_model lk v) 0 then None else Some (lk_model lk v)
    | None => None
    end in
  if str_eqb ty T_AIRPLAY then via (lit "model")
  else if str_eqb ty T_COMPANION then via (lit "rpmd")
  else if str_eqb ty T_RAOP || str_eqb ty T_AIRPORT then
    (* raop.device_info parses "wama" after "am"; a malformed value makes the whole extractor
       raise, and _get_device_info then skips this ONE service (try/except per service) *)
    match pget (lit "wama") p with
    | Some w => if wama_raises w then None else via (lit "am")
    | None => via (lit "am")
    end
  else if str_eqb ty T_HSCP then Some MODEL_MUSIC
  else None.

(* ---------------------------------------------------------------- BaseScanner *)

Record fdev := mkF { fname : option str; fdeep : bool; fmodel : N; fsvcs : list bsvc }.
Record sstate := mkS { found : list (N * fdev); sprops_ : list (N * list (str * dict)) }.
Definition sstate0 := mkS [] [].

(* if address not in _found_devices: _found_devices[address] = FoundDevice(name, address, deep,
   model, []);  _found_devices[address].services.append(base_service) *)
Definition add_found (a : N) (nm : option str) (deep : bool) (m : N) (b : bsvc)
           (f : list (N * fdev)) : list (N * fdev) :=
  upsert N.eqb a (mkF nm deep m [b])
         (fun d => mkF (fname d) (fdeep d) (fmodel d) (fsvcs d ++ [b])) f.

(* if address not in _properties: _properties[address] = {};  _properties[address][type] = props *)
Definition save_props (a : N) (ty : str) (p : dict) (m : list (N * list (str * dict))) :=
  upsert N.eqb a [(ty, p)] (dset str_eqb ty p) m.

(* _service_discovered inside the try/except of handle_response *)
Definition service_discovered (lk : lookups) (r : response) (st : sstate) (sv : service) : sstate :=
  match saddr sv with
  | None => st
  | Some a =>
      if N.eqb (sport sv) 0 then st
      else match handler sv with
           | HRaise => st
           | HNone => mkS (found st) (save_props a (stype sv) (sprops sv) (sprops_ st))
           | HSome nm b =>
               mkS (add_found a nm (rdeep r) (lk_internal lk (rmodel r)) b (found st))
                   (save_props a (stype sv) (sprops sv) (sprops_ st))
           end
  end.

Definition handle_response (lk : lookups) (types : list str) (st : sstate) (r : response) : sstate :=
  fold_left (fun st sv => if existsb (str_eqb (stype sv)) types
                          then service_discovered lk r st sv else st)
            (rservices r) st.

(* conf.AppleTV.add_service + BaseService.merge *)
Definition merge (b e : bsvc) : bsvc :=
  mkB (bident e) (bproto e) (bport e) (dupdate str_eqb (bprops e) (bprops b)).
Definition add_service (l : list (proto * bsvc)) (b : bsvc) : list (proto * bsvc) :=
  upsert proto_eqb (bproto b) b (merge b) l.

Fixpoint first_some {A} (l : list (option A)) : option A :=
  match l with [] => None | Some x :: _ => Some x | None :: t => first_some t end.

Record config := mkC
  { caddr : N; cname : option str; cdeep : bool; cmodel : N;
    cprops : list (str * dict); csvcs : list bsvc }.

(* config.get_service(protocol) *)
Definition svc_of (p : proto) (l : list bsvc) : option bsvc := find (fun b => proto_eqb p (bproto b)) l.

(* BaseConfig.identifier: the identifier of the first protocol of a FIXED order whose service has
   one (`is not None`: an empty string counts here) *)
Definition main_identifier (c : config) : option str :=
  first_some (map (fun p => match svc_of p (csvcs c) with Some b => bident b | None => None end)
                  [MRP; DMAP; AirPlay; RAOP; Companion]).

(* BaseConfig.main_service(): protocol and port of the first service in MRP, DMAP, AirPlay, RAOP;
   None = NoServiceError *)
Definition main_service (c : config) : option (proto * N) :=
  first_some (map (fun p => option_map (fun b => (bproto b, bport b)) (svc_of p (csvcs c)))
                  [MRP; DMAP; AirPlay; RAOP]).

(* _get_device_info, MODEL key only: first extractor that sets it wins, the
   _device-info model is merged last without overriding *)
Definition device_model (lk : lookups) (props : list (str * dict)) (d : fdev) : N :=
  match first_some (map (fun tp => model_hint lk (fst tp) (snd tp)) props) with
  | Some m => m
  | None => fmodel d
  end.

Definition make_config (lk : lookups) (st : sstate) (ad : N * fdev) : config :=
  let '(a, d) := ad in
  let props := match dget N.eqb a (sprops_ st) with Some p => p | None => [] end in
  mkC a (fname d) (fdeep d) (device_model lk props d) props
      (map snd (fold_left add_service (fsvcs d) [])).

Definition discover (lk : lookups) (st : sstate) : list config := map (make_config lk st) (found st).

Definition truthy (i : option str) : bool := match i with Some (_ :: _) => true | _ => false end.
Definition ready (c : config) : bool := existsb (fun b => truthy (bident b)) (csvcs c).
Definition all_identifiers (c : config) : list str :=
  flat_map (fun b => match bident b with Some i => [i] | None => [] end) (csvcs c).
Definition intersects (a b : list str) : bool := existsb (fun x => existsb (str_eqb x) b) a.

(* pyatv.scan._should_include; ids = [] stands for identifier=None *)
Definition should_include (ids : list str) (c : config) : bool :=
  ready c && match ids with [] => true | _ => intersects ids (all_identifiers c) end.

Definition scan_result (lk : lookups) (wanted : list proto) (ids : list str) (rs : list response) : list config :=
  filter (should_include ids)
         (discover lk (fold_left (handle_response lk (scan_types wanted)) rs sstate0)).

(* ---------------------------------------------------------------- multicast protocol *)

Inductive dgram := Garbage | Msg (records : list rec).

Record qresp := mkQ { qcount : nat; qdeep : bool; qparser : parser }.
Record mstate := mkM { qrs : list (N * qresp); mclosed : bool }.
Definition mstate0 := mkM [] false.

Definition to_response (q : qresp) : response :=
  let svcs := parse (qparser q) in mkResp svcs (qdeep q) (get_model svcs).

(* get_unique_identifiers + isdisjoint; Raised when get_unique_id raises *)
Fixpoint unique_ids (l : list service) : res (list str) :=
  match l with
  | [] => Ok []
  | sv :: t =>
      match get_unique_id (stype sv) (sname sv) (sprops sv) with
      | Raised => Raised
      | Ok i => match unique_ids t with
                | Raised => Raised
                | Ok r => Ok (if truthy i then por i [] :: r else r)
                end
      end
  end.
(* MulticastMdnsScanner._end_if_identifier_found; an exception leaves datagram_received
   before the abort (the state written so far stays) *)
Definition end_condition (ids : list str) (r : response) : bool :=
  match ids with
  | [] => false
  | _ => match unique_ids (rservices r) with Ok l => intersects ids l | Raised => false end
  end.

Definition type_wanted (types : list str) (sv : service) : bool :=
  existsb (str_eqb (stype sv)) types || str_eqb (stype sv) DEVINFO || str_eqb (stype sv) SLEEPPROXY.

(* the part of datagram_received that decides about one datagram on its own *)
Definition accepted (types : list str) (d : list rec) : bool :=
  let svcs := parse (add_message parser0 d) in
  match svcs with [] => false | _ => forallb (type_wanted types) svcs end.
Definition sleep_proxy (d : list rec) : bool :=
  forallb (fun sv => N.eqb (sport sv) 0) (parse (add_message parser0 d)).

Definition q0 := mkQ 0 false parser0.

Definition mc_step (types : list str) (ids : list str) (st : mstate) (sd : N * dgram) : mstate :=
  if mclosed st then st                           (* receivers closed: nothing is delivered *)
  else
    let '(src, d) := sd in
    let q1 := if dmem N.eqb src (qrs st) then qrs st else qrs st ++ [(src, q0)] in   (* setdefault *)
    match d with
    | Garbage => mkM q1 false                     (* unpack raised *)
    | Msg recs =>
        if negb (accepted types recs) then mkM q1 false
        else
          let q := match dget N.eqb src q1 with Some q => q | None => q0 end in
          let sp := sleep_proxy recs in
          let q' := mkQ (S (qcount q)) (qdeep q || sp) (add_message (qparser q) recs) in
          let q2 := dset N.eqb src q' q1 in
          if sp then mkM q2 false
          else if Nat.leb (nqueries types) (qcount q') && end_condition ids (to_response q')
               then mkM [(src, q')] true
               else mkM q2 false
    end.

Definition mc_run (types : list str) (ids : list str) (h : list (N * dgram)) : mstate :=
  fold_left (mc_step types ids) h mstate0.
Definition mc_responses (types : list str) (ids : list str) (h : list (N * dgram)) : list response :=
  map (fun sq => to_response (snd sq)) (qrs (mc_run types ids h)).

(* pyatv.scan(identifier=ids, protocol=wanted) through MulticastMdnsScanner *)
Definition scan_multicast (lk : lookups) (wanted : list proto) (ids : list str) (h : list (N * dgram)) : list config :=
  scan_result lk wanted ids (mc_responses (scan_types wanted) ids h).

(* ---------------------------------------------------------------- unicast protocol *)

Record ustate := mkU { ucount : nat; uparser : parser; uclosed : bool }.
Definition ustate0 := mkU 0 parser0 false.

Definition uc_step (nq : nat) (st : ustate) (d : dgram) : ustate :=
  if uclosed st then st                           (* transport closed *)
  else match d with
       | Garbage => st                            (* unpack raised before anything was stored *)
       | Msg recs =>
           let c := S (ucount st) in
           mkU c (add_message (uparser st) recs) (Nat.eqb c nq)
       end.
Definition uc_run (nq : nat) (h : list dgram) : ustate := fold_left (uc_step nq) h ustate0.
(* get_response: the semaphore is only released when the count reached len(queries);
   otherwise wait_for raises TimeoutError, which UnicastMdnsScanner._get_services turns
   into an empty response *)
Definition uc_response (nq : nat) (h : list dgram) : response :=
  let st := uc_run nq h in
  if uclosed st then let svcs := parse (uparser st) in mkResp svcs false (get_model svcs)
  else mkResp [] false None.

(* pyatv.scan(hosts=..., identifier=ids, protocol=wanted) through UnicastMdnsScanner:
   one history per host, responses handled in host order *)
Definition scan_unicast (lk : lookups) (wanted : list proto) (ids : list str) (hs : list (list dgram)) : list config :=
  scan_result lk wanted ids (map (uc_response (nqueries (scan_types wanted))) hs).

(* ---------------------------------------------------------------- burst delivery

   The definitions above stop at the point where the protocol closes its receivers / its
   transport (a selector transport delivers nothing after close()).  A transport that has
   already dequeued a batch of datagrams keeps calling datagram_received for the rest of the
   batch before get_response() runs; the protocol objects do not look at their own "finished"
   state, so they keep taking datagrams in.  The *_burst definitions are the same steps
   without the closed check. *)

(* unicast: every decodable datagram is added; the semaphore is released when the counter
   passes through len(queries) *)
Definition uc_step_burst (nq : nat) (st : ustate) (d : dgram) : ustate :=
  match d with
  | Garbage => st
  | Msg recs =>
      let c := S (ucount st) in
      mkU c (add_message (uparser st) recs) (uclosed st || Nat.eqb c nq)
  end.
Definition uc_run_burst (nq : nat) (h : list dgram) : ustate := fold_left (uc_step_burst nq) h ustate0.
Definition uc_response_burst (nq : nat) (h : list dgram) : response :=
  let st := uc_run_burst nq h in
  if uclosed st then let svcs := parse (uparser st) in mkResp svcs false (get_model svcs)
  else mkResp [] false None.
Definition scan_unicast_burst (lk : lookups) (wanted : list proto) (ids : list str) (hs : list (list dgram)) : list config :=
  scan_result lk wanted ids (map (uc_response_burst (nqueries (scan_types wanted))) hs).

(* multicast: after an abort ("replace everything found so far") the rest of the batch is
   processed like any other datagram, and may abort again *)
Definition mc_step_burst (types : list str) (ids : list str) (st : mstate) (sd : N * dgram) : mstate :=
  mc_step types ids (mkM (qrs st) false) sd.
Definition mc_run_burst (types : list str) (ids : list str) (h : list (N * dgram)) : mstate :=
  fold_left (mc_step_burst types ids) h mstate0.
Definition mc_responses_burst (types : list str) (ids : list str) (h : list (N * dgram)) : list response :=
  map (fun sq => to_response (snd sq)) (qrs (mc_run_burst types ids h)).
Definition scan_multicast_burst (lk : lookups) (wanted : list proto) (ids : list str) (h : list (N * dgram)) : list config :=
  scan_result lk wanted ids (mc_responses_burst (scan_types wanted) ids h).

(* ---------------------------------------------------------------- correspondence *)

Definition ostr := option str.
Definition osvc := (N * ostr * N * dict)%type.
Record oconfig := mkO
  { oaddr : N; oname : ostr; odeep : bool; omodel : N; oprops : list (str * dict); osvcs : list osvc;
    omain : ostr; omsvc : option (N * N) }.

Definition dict_exact (a b : dict) : bool := list_beq pair_eqb a b.
Definition osvc_eqb (a b : osvc) : bool :=
  let '(p, i, o, d) := a in let '(p', i', o', d') := b in
  N.eqb p p' && opt_beq str_eqb i i' && N.eqb o o' && dict_exact d d'.
Definition tprops_eqb (a b : str * dict) : bool := str_eqb (fst a) (fst b) && dict_exact (snd a) (snd b).
Definition oconfig_eqb (a b : oconfig) : bool :=
  N.eqb (oaddr a) (oaddr b) && opt_beq str_eqb (oname a) (oname b) && Bool.eqb (odeep a) (odeep b) &&
  N.eqb (omodel a) (omodel b) && list_beq tprops_eqb (oprops a) (oprops b) &&
  list_beq osvc_eqb (osvcs a) (osvcs b) && opt_beq str_eqb (omain a) (omain b) &&
  opt_beq (fun x y => N.eqb (fst x) (fst y) && N.eqb (snd x) (snd y)) (omsvc a) (omsvc b).

Definition observe (c : config) : oconfig :=
  mkO (caddr c) (cname c) (cdeep c) (cmodel c) (cprops c)
      (map (fun b => (proto_num (bproto b), bident b, bport b, bprops b)) (csvcs c))
      (main_identifier c) (option_map (fun pn => (proto_num (fst pn), snd pn)) (main_service c)).

Definition table_lk (tm : list (str * N)) (ti : list (str * N)) : lookups :=
  mkLk (fun x => match dget str_eqb x tm with Some v => v | None => 0%N end)
       (fun x => match x with
                 | Some y => match dget str_eqb y ti with Some v => v | None => 0%N end
                 | None => 0%N
                 end).

Inductive history :=
| HMulti (h : list (N * dgram)) | HUni (hs : list (list dgram))
| HMultiBurst (h : list (N * dgram)) | HUniBurst (hs : list (list dgram)).

Record case := mkCase
  { k_wanted : list proto; k_ids : list str; k_hist : history;
    k_out : list oconfig }.

Definition check_case (tm ti : list (str * N)) (c : case) : bool :=
  let lk := table_lk tm ti in
  match k_hist c with
  | HMulti h => list_beq oconfig_eqb (map observe (scan_multicast lk (k_wanted c) (k_ids c) h)) (k_out c)
  | HUni hs => list_beq oconfig_eqb (map observe (scan_unicast lk (k_wanted c) (k_ids c) hs)) (k_out c)
  | HMultiBurst h => list_beq oconfig_eqb (map observe (scan_multicast_burst lk (k_wanted c) (k_ids c) h)) (k_out c)
  | HUniBurst hs => list_beq oconfig_eqb (map observe (scan_unicast_burst lk (k_wanted c) (k_ids c) hs)) (k_out c)
  end.
