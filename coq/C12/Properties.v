(* C12 - property theorems only.  Each is closed by `exact`; Print Assumptions follows.

   Vocabulary (definitions in Model.v / Spec.v / ProofsMain.v):
     scan_multicast lk wanted ids h   what pyatv.scan(identifier=ids, protocol=wanted) returns when the
                                      multicast protocol receives the datagrams h = [(source, datagram)]
     scan_unicast lk wanted ids hs    the same for scan(hosts=...), one datagram list per host
     snapshot_equiv                   same set of configurations: address, identifiers, services with
                                      ports and properties, model, deep-sleep flag
     mc_consistent lk wanted h        "self-consistent devices": per source one rdata per (name, SRV/TXT),
                                      one routable address per host, one _device-info model; per address
                                      the announcements agree (items_consistent in Spec.v)
     lk                               lookup_model / lookup_internal_name, arbitrary functions *)
From Coq Require Import List Bool Arith NArith Permutation.
From PV Require Import Common.Cases C12.Model C12.DictLemmas C12.Spec
     C12.ProofsParser C12.ProofsMulticast C12.ProofsScanner C12.ProofsMain C12.ProofsClauses
     C12.Checkers C12.ProofsRefuted.
Import ListNotations.

(* ---------------------------------------------------------------- order and duplication *)

(* Multicast scan without identifier filter: two deliveries containing the same datagrams - in any
   order, each any number of times - return the same set of configurations. *)
Theorem C12_multicast_set_invariant : forall lk wanted h h',
  (forall x, In x h <-> In x h') -> mc_consistent lk wanted h ->
  snapshot_equiv (scan_multicast lk wanted [] h) (scan_multicast lk wanted [] h').
Proof. exact multicast_invariant. Qed.
Print Assumptions C12_multicast_set_invariant.

Theorem C12_multicast_perm_invariant : forall lk wanted h h',
  Permutation h h' -> mc_consistent lk wanted h ->
  snapshot_equiv (scan_multicast lk wanted [] h) (scan_multicast lk wanted [] h').
Proof. exact multicast_perm_invariant. Qed.
Print Assumptions C12_multicast_perm_invariant.

Theorem C12_multicast_dup_invariant : forall lk wanted h h',
  incl h h' /\ incl h' h -> mc_consistent lk wanted h ->
  snapshot_equiv (scan_multicast lk wanted [] h) (scan_multicast lk wanted [] h').
Proof. exact multicast_dup_invariant. Qed.
Print Assumptions C12_multicast_dup_invariant.

(* self-consistency is a property of the set of datagrams, not of their order *)
Theorem C12_consistency_of_the_set : forall lk wanted h h',
  (forall x, In x h <-> In x h') -> mc_consistent lk wanted h -> mc_consistent lk wanted h'.
Proof. exact mc_consistent_same_set. Qed.
Print Assumptions C12_consistency_of_the_set.

(* ... and it is decidable: the checker used by the correspondence run is sound *)
Theorem C12_consistency_checker_sound : forall lk wanted h,
  mc_consistentb lk wanted h = true -> mc_consistent lk wanted h.
Proof. exact mc_consistentb_sound. Qed.
Print Assumptions C12_consistency_checker_sound.

(* ---------------------------------------------------------------- identifier scans (partial) *)

(* FULL STATEMENT (false, see C12_early_abort_dup_refuted):
     forall lk wanted ids h h', (forall x, In x h <-> In x h') -> mc_consistent lk wanted h ->
       snapshot_equiv (scan_multicast lk wanted ids h) (scan_multicast lk wanted ids h').
   What holds: the run with an identifier filter is the plain run up to the abort point. *)
Theorem C12_identifier_scan_partial : forall types ids h,
  mc_responses types ids h = mc_responses types [] h \/
  exists pre s d post,
    h = pre ++ (s, d) :: post /\
    mc_responses types ids pre = mc_responses types [] pre /\
    mc_responses types ids h = [src_response types (dgrams_of s (pre ++ [(s, d)]))].
Proof. exact identifier_scan_prefix. Qed.
Print Assumptions C12_identifier_scan_partial.

(* two deliveries that abort at the same source having taken in the same datagrams agree *)
Theorem C12_identifier_scan_invariant_upto_abort_partial : forall lk wanted ids s pre d pre' d',
  let T := scan_types wanted in
  (forall x, In x (pre ++ [(s, d)]) <-> In x (pre' ++ [(s, d')])) ->
  source_consistent T (dgrams_of s (pre ++ [(s, d)])) ->
  items_consistent lk (items_of lk T (src_response T (dgrams_of s (pre ++ [(s, d)])))) ->
  snapshot_equiv
    (scan_result lk wanted ids [src_response T (dgrams_of s (pre ++ [(s, d)]))])
    (scan_result lk wanted ids [src_response T (dgrams_of s (pre' ++ [(s, d')]))]).
Proof. exact identifier_scan_invariant_upto_abort. Qed.
Print Assumptions C12_identifier_scan_invariant_upto_abort_partial.

(* two deliveries in which the abort never triggers agree *)
Theorem C12_identifier_scan_no_abort_partial : forall lk wanted ids h h',
  (forall x, In x h <-> In x h') -> mc_consistent lk wanted h ->
  mc_responses (scan_types wanted) ids h = mc_responses (scan_types wanted) [] h ->
  mc_responses (scan_types wanted) ids h' = mc_responses (scan_types wanted) [] h' ->
  snapshot_equiv (scan_multicast lk wanted ids h) (scan_multicast lk wanted ids h').
Proof. exact identifier_scan_no_abort_invariant. Qed.
Print Assumptions C12_identifier_scan_no_abort_partial.

(* a duplicated datagram advances the per-source counter: 1,2 vs 1,1,2 *)
Theorem C12_early_abort_dup_refuted :
  exists lk wanted ids h h',
    (incl h h' /\ incl h' h) /\ mc_consistent lk wanted h /\
    ~ snapshot_equiv (scan_multicast lk wanted ids h) (scan_multicast lk wanted ids h').
Proof. exact early_abort_dup_refuted. Qed.
Print Assumptions C12_early_abort_dup_refuted.

(* even without duplicates: three datagrams from one source for two queries, two arrival orders *)
Theorem C12_early_abort_order_refuted :
  exists lk wanted ids h h',
    Permutation h h' /\ mc_consistent lk wanted h /\
    ~ snapshot_equiv (scan_multicast lk wanted ids h) (scan_multicast lk wanted ids h').
Proof. exact early_abort_order_refuted. Qed.
Print Assumptions C12_early_abort_order_refuted.

(* ---------------------------------------------------------------- unicast scans (partial) *)

(* The unicast protocol answers from the first nq decodable datagrams, nq = number of queries,
   and from nothing at all if fewer arrive. *)
Theorem C12_unicast_counts_datagrams : forall nq h, 1 <= nq ->
  uc_response nq h = match uc_effective nq h with
                     | Some ms => resp_of_parser (table_of (concat ms)) false
                     | None => empty_response
                     end.
Proof. exact uc_response_spec. Qed.
Print Assumptions C12_unicast_counts_datagrams.

(* deliveries with the same effective input per host agree *)
Theorem C12_unicast_invariant_partial : forall lk wanted ids hs hs',
  Forall2 (uc_same (nqueries (scan_types wanted))) hs hs' ->
  items_consistent lk (uc_items lk wanted hs) ->
  snapshot_equiv (scan_unicast lk wanted ids hs) (scan_unicast lk wanted ids hs').
Proof. exact unicast_invariant. Qed.
Print Assumptions C12_unicast_invariant_partial.

(* in particular every arrival order of exactly one answer per query *)
Theorem C12_unicast_perm_invariant : forall lk wanted ids hs hs',
  Forall2 (fun h h' => Permutation h h' /\ length (msgs h) = nqueries (scan_types wanted) /\
                       host_consistent (msgs h)) hs hs' ->
  items_consistent lk (uc_items lk wanted hs) ->
  snapshot_equiv (scan_unicast lk wanted ids hs) (scan_unicast lk wanted ids hs').
Proof. exact unicast_perm_invariant. Qed.
Print Assumptions C12_unicast_perm_invariant.

(* Burst delivery (the transport hands over a whole batch; datagram_received keeps being called after
   the counter reached len(queries)): the answer is built from ALL decodable datagrams if there are at
   least nq of them, so every arrival order of a burst agrees, whatever its size. *)
Theorem C12_unicast_burst_takes_all : forall nq h, 1 <= nq ->
  uc_response_burst nq h = match uc_effective_burst nq h with
                           | Some ms => resp_of_parser (table_of (concat ms)) false
                           | None => empty_response
                           end.
Proof. exact uc_response_burst_spec. Qed.
Print Assumptions C12_unicast_burst_takes_all.

Theorem C12_unicast_burst_perm_invariant : forall lk wanted ids hs hs',
  Forall2 (fun h h' => Permutation h h' /\ host_consistent (msgs h)) hs hs' ->
  items_consistent lk (uc_burst_items lk wanted hs) ->
  snapshot_equiv (scan_unicast_burst lk wanted ids hs) (scan_unicast_burst lk wanted ids hs').
Proof. exact unicast_burst_perm_invariant. Qed.
Print Assumptions C12_unicast_burst_perm_invariant.

(* bursts with the same set of decodable datagrams on the same side of the nq threshold agree
   (duplicates included) *)
Theorem C12_unicast_burst_invariant_partial : forall lk wanted ids hs hs',
  Forall2 (uc_burst_same (nqueries (scan_types wanted))) hs hs' ->
  items_consistent lk (uc_burst_items lk wanted hs) ->
  snapshot_equiv (scan_unicast_burst lk wanted ids hs) (scan_unicast_burst lk wanted ids hs').
Proof. exact unicast_burst_invariant. Qed.
Print Assumptions C12_unicast_burst_invariant_partial.

(* multicast without identifier filter never stops listening: a burst is the plain run *)
Theorem C12_multicast_burst_is_plain : forall types h, mc_run_burst types [] h = mc_run types [] h.
Proof. exact mc_run_burst_noids. Qed.
Print Assumptions C12_multicast_burst_is_plain.

(* a duplicate is counted as a further answer: 1,2 vs 1,1,2 *)
Theorem C12_unicast_dup_refuted :
  exists lk wanted hs hs',
    Forall2 (fun h h' => incl h h' /\ incl h' h) hs hs' /\ uc_consistentb lk wanted hs = true /\
    ~ snapshot_equiv (scan_unicast lk wanted [] hs) (scan_unicast lk wanted [] hs').
Proof. exact unicast_dup_refuted. Qed.
Print Assumptions C12_unicast_dup_refuted.

(* ---------------------------------------------------------------- the three side clauses, for EVERY input *)

Theorem C12_one_config_per_address : forall lk wanted ids h hs,
  NoDup (map caddr (scan_multicast lk wanted ids h)) /\ NoDup (map caddr (scan_unicast lk wanted ids hs)).
Proof. exact (fun lk wanted ids h hs => conj (proj1 (multicast_clauses lk wanted ids h)) (proj1 (unicast_clauses lk wanted ids hs))). Qed.
Print Assumptions C12_one_config_per_address.

Theorem C12_unrequested_ignored : forall lk wanted ids h hs c,
  In c (scan_multicast lk wanted ids h) \/ In c (scan_unicast lk wanted ids hs) ->
  (forall b, In b (csvcs c) -> In (bproto b) (wanted_protos wanted)) /\
  (forall ty p, In (ty, p) (cprops c) -> In ty (scan_types wanted)).
Proof.
  exact (fun lk wanted ids h hs c H =>
    match H with
    | or_introl Hin => proj2 (proj2 (multicast_clauses lk wanted ids h) c Hin)
    | or_intror Hin => proj2 (proj2 (unicast_clauses lk wanted ids hs) c Hin)
    end).
Qed.
Print Assumptions C12_unrequested_ignored.

(* multicast: a datagram that cannot be decoded, or that announces a service type that was not asked
   for, is dropped as a whole: wherever it arrives, the set of configurations is the same as without it *)
Theorem C12_unrequested_datagram_ignored : forall lk wanted h1 s d h2,
  match d with Garbage => True | Msg recs => accepted (scan_types wanted) recs = false end ->
  items_consistent lk (mc_items lk wanted (h1 ++ h2)) ->
  snapshot_equiv (scan_multicast lk wanted [] (h1 ++ h2)) (scan_multicast lk wanted [] (h1 ++ (s, d) :: h2)).
Proof. exact multicast_inert_ignored. Qed.
Print Assumptions C12_unrequested_datagram_ignored.

Theorem C12_no_identifier_not_returned : forall lk wanted ids h hs c,
  In c (scan_multicast lk wanted ids h) \/ In c (scan_unicast lk wanted ids hs) ->
  exists b i, In b (csvcs c) /\ bident b = Some i /\ i <> [].
Proof.
  exact (fun lk wanted ids h hs c H =>
    match H with
    | or_introl Hin => proj1 (proj2 (multicast_clauses lk wanted ids h) c Hin)
    | or_intror Hin => proj1 (proj2 (unicast_clauses lk wanted ids hs) c Hin)
    end).
Qed.
Print Assumptions C12_no_identifier_not_returned.

(* ---------------------------------------------------------------- non-vacuity *)
From Coq Require String. Import Coq.Strings.String.StringSyntax.
Local Open Scope string_scope.

(* The hypotheses are met by a non-trivial scenario: the witness device (MRP + AirPlay in two
   datagrams) plus an Apple TV 3 at 10.0.0.2 announcing _touch-able and _appletv-v2 (merged into one
   DMAP service) behind a sleep proxy-free source; the scan returns two configurations. *)
Definition ex_ip2 : N := 167772162.
Definition ex_host2 : str := lit "atv3.local".
Definition ex_ta : str := lit "ABCD1234._touch-able._tcp.local".
Definition ex_hs : str := lit "ABCD1234_hs._appletv-v2._tcp.local".
Definition ex_d3 : dgram := Msg
  [ mkRec T_DEVICE 12 1 10 30 (RPtr ex_ta);
    mkRec ex_ta 33 32769 10 18 (RSrv 0 0 3689 ex_host2);
    mkRec ex_ta 16 32769 10 20 (RTxt [(lit "CtlN", lit "Apple TV 3"); (lit "DvTy", lit "AppleTV")]);
    mkRec ex_host2 1 32769 10 4 (RA 2852039167);
    mkRec ex_host2 1 32769 10 4 (RA ex_ip2) ].
Definition ex_d4 : dgram := Msg
  [ mkRec T_HOMESHARING 12 1 120 33 (RPtr ex_hs);
    mkRec ex_hs 33 32769 120 18 (RSrv 0 0 3689 ex_host2);
    mkRec ex_hs 16 32769 120 20 (RTxt [(lit "Name", lit "Apple TV 3"); (lit "hG", lit "0000-1111")]);
    mkRec ex_host2 1 32769 120 4 (RA ex_ip2) ].
Definition ex_h : list (N * dgram) := [(w_ip, w_d1); (ex_ip2, ex_d3); (w_ip, w_d2); (ex_ip2, ex_d4)].

Example C12_ex_consistent : mc_consistent w_lk [] ex_h.
Proof. apply mc_consistentb_sound. vm_compute. reflexivity. Qed.

Example C12_ex_nontrivial :
  map (fun c => (caddr c, map bproto (csvcs c))) (scan_multicast w_lk [] [] ex_h) =
  [(w_ip, [MRP; AirPlay]); (ex_ip2, [DMAP])].
Proof. vm_compute. reflexivity. Qed.

Example C12_ex_reordered_with_duplicates :
  snapshot_equiv (scan_multicast w_lk [] [] ex_h)
                 (scan_multicast w_lk [] [] [(ex_ip2, ex_d4); (w_ip, w_d2); (ex_ip2, ex_d4); (ex_ip2, ex_d3); (w_ip, w_d1); (w_ip, w_d2)]).
Proof.
  apply C12_multicast_set_invariant; [|exact C12_ex_consistent].
  intro x; simpl; tauto.
Qed.
