(* C12 - generic lemmas about insertion-ordered dictionaries (association lists). *)
From Coq Require Import List Bool Arith NArith Lia.
From PV Require Import Common.Cases C12.Model.
Import ListNotations.

Lemma str_eqb_eq : forall a b, str_eqb a b = true <-> a = b.
Proof. apply list_beq_eq. intros; apply N.eqb_eq. Qed.
Lemma str_eqb_refl : forall a, str_eqb a a = true.
Proof. intro; now apply str_eqb_eq. Qed.
Lemma str_eqb_neq : forall a b, str_eqb a b = false <-> a <> b.
Proof.
  intros a b. split.
  - intros E H. apply str_eqb_eq in H. congruence.
  - intro H. destruct (str_eqb a b) eqn:E; [|reflexivity]. apply str_eqb_eq in E. contradiction.
Qed.
Lemma proto_eqb_eq : forall a b, proto_eqb a b = true <-> a = b.
Proof. intros [] []; simpl; split; intro; try reflexivity; discriminate. Qed.

Definition same_set {A} (l l' : list A) : Prop := forall x, In x l <-> In x l'.

Lemma same_set_refl {A} (l : list A) : same_set l l.
Proof. intro; tauto. Qed.
Lemma same_set_sym {A} (l l' : list A) : same_set l l' -> same_set l' l.
Proof. intros H x; specialize (H x); tauto. Qed.
Lemma same_set_trans {A} (a b c : list A) : same_set a b -> same_set b c -> same_set a c.
Proof. intros H1 H2 x; specialize (H1 x); specialize (H2 x); tauto. Qed.

Lemma NoDup_snoc {A} (l : list A) (x : A) : NoDup l -> ~ In x l -> NoDup (l ++ [x]).
Proof.
  induction l as [|y t IH]; simpl; intros ND NI.
  - constructor; [tauto|constructor].
  - inversion ND; subst. constructor.
    + rewrite in_app_iff; simpl. intros [H|[H|[]]]; [tauto|]. subst. tauto.
    + apply IH; tauto.
Qed.

Section Dict.
  Context {K V : Type} (keqb : K -> K -> bool).
  Hypothesis keqb_eq : forall x y, keqb x y = true <-> x = y.

  Lemma keqb_refl : forall x, keqb x x = true.
  Proof. intro; now apply keqb_eq. Qed.
  Lemma keqb_false : forall x y, keqb x y = false <-> x <> y.
  Proof.
    intros x y; split.
    - intros E H. apply keqb_eq in H. congruence.
    - intro H. destruct (keqb x y) eqn:E; [|reflexivity]. apply keqb_eq in E. contradiction.
  Qed.

  Notation dget := (@dget K V keqb).
  Notation dset := (@dset K V keqb).
  Notation upsert := (@upsert K V keqb).

  Lemma dget_dset_same : forall k v m, dget k (dset k v m) = Some v.
  Proof.
    intros k v m; induction m as [|[k' v'] t IH]; simpl.
    - now rewrite keqb_refl.
    - destruct (keqb k k') eqn:E; simpl; rewrite E; auto.
  Qed.

  Lemma dget_dset_other : forall k k' v m, k <> k' -> dget k' (dset k v m) = dget k' m.
  Proof.
    intros k k' v m N; induction m as [|[k2 v2] t IH]; simpl.
    - assert (keqb k' k = false) as -> by (apply keqb_false; congruence). reflexivity.
    - destruct (keqb k k2) eqn:E; simpl.
      + apply keqb_eq in E; subst k2.
        assert (keqb k' k = false) as -> by (apply keqb_false; congruence). reflexivity.
      + now rewrite IH.
  Qed.

  Lemma dget_app : forall k m m', dget k (m ++ m') = match dget k m with Some x => Some x | None => dget k m' end.
  Proof.
    intros k m m'; induction m as [|[k2 v2] t IH]; simpl; [reflexivity|].
    destruct (keqb k k2); auto.
  Qed.

  Lemma dget_Some_In : forall k v m, dget k m = Some v -> exists k', k' = k /\ In (k', v) m.
  Proof.
    intros k v m; induction m as [|[k2 v2] t IH]; simpl; [discriminate|].
    destruct (keqb k k2) eqn:E.
    - intros [= <-]. apply keqb_eq in E. exists k2; auto.
    - intro H. destruct (IH H) as (k' & -> & I). exists k; auto.
  Qed.

  Lemma dget_None_iff : forall k m, dget k m = None <-> ~ In k (map fst m).
  Proof.
    intros k m; induction m as [|[k2 v2] t IH]; simpl; [tauto|].
    destruct (keqb k k2) eqn:E.
    - apply keqb_eq in E. split; [discriminate|]. intro H; exfalso; apply H; auto.
    - apply keqb_false in E. rewrite IH. split; intro H; [intros [->|]; tauto | tauto].
  Qed.

  Lemma dget_In : forall k v m, NoDup (map fst m) -> In (k, v) m -> dget k m = Some v.
  Proof.
    intros k v m; induction m as [|[k2 v2] t IH]; simpl; [tauto|].
    intros ND [[= -> ->]|I].
    - now rewrite keqb_refl.
    - inversion ND; subst. destruct (keqb k k2) eqn:E.
      + apply keqb_eq in E; subst. exfalso. apply H1. change k2 with (fst (k2, v)). now apply in_map.
      + auto.
  Qed.

  Lemma keys_dset : forall k v m,
    map fst (dset k v m) = if dmem keqb k m then map fst m else map fst m ++ [k].
  Proof.
    intros k v m; unfold dmem; induction m as [|[k2 v2] t IH]; simpl; [reflexivity|].
    destruct (keqb k k2) eqn:E; simpl; [reflexivity|]. rewrite IH. now destruct (Model.dget keqb k t).
  Qed.

  Lemma keys_upsert : forall k i u m,
    map fst (upsert k i u m) = if dmem keqb k m then map fst m else map fst m ++ [k].
  Proof.
    intros k i u m; unfold Model.upsert, dmem. destruct (dget k m) eqn:E.
    - rewrite keys_dset. unfold dmem. now rewrite E.
    - now rewrite map_app.
  Qed.

  Lemma dget_upsert_same : forall k i u m,
    dget k (upsert k i u m) = Some (match dget k m with Some v => u v | None => i end).
  Proof.
    intros k i u m; unfold Model.upsert. destruct (dget k m) eqn:E.
    - apply dget_dset_same.
    - rewrite dget_app, E. simpl. now rewrite keqb_refl.
  Qed.

  Lemma dget_upsert_other : forall k k' i u m, k <> k' -> dget k' (upsert k i u m) = dget k' m.
  Proof.
    intros k k' i u m N; unfold Model.upsert. destruct (dget k m) eqn:E.
    - now apply dget_dset_other.
    - rewrite dget_app. destruct (dget k' m); [reflexivity|]. simpl.
      assert (keqb k' k = false) as -> by (apply keqb_false; congruence). reflexivity.
  Qed.

  Lemma dget_Some_key : forall k v m, dget k m = Some v -> In k (map fst m).
  Proof.
    intros k v m; induction m as [|[k2 v2] t IH]; simpl; [discriminate|].
    destruct (keqb k k2) eqn:E.
    - apply keqb_eq in E. auto.
    - auto.
  Qed.

  Lemma dmem_In : forall k (m : list (K * V)), dmem keqb k m = true <-> In k (map fst m).
  Proof.
    intros k m; unfold dmem. destruct (dget k m) eqn:E.
    - split; [intros _|reflexivity]. eapply dget_Some_key; eauto.
    - split; [discriminate|]. intro I. apply dget_None_iff in E. contradiction.
  Qed.

  Lemma NoDup_keys_upsert : forall k i u m, NoDup (map fst m) -> NoDup (map fst (upsert k i u m)).
  Proof.
    intros k i u m ND. rewrite keys_upsert. destruct (dmem keqb k m) eqn:E; [assumption|].
    apply NoDup_snoc; [assumption|]. intro I. apply dmem_In in I. congruence.
  Qed.

  (* folding upserts: the value of one key is the fold over the items of that key *)
  Section Fold.
    Context {X : Type} (key : X -> K) (ins : X -> V) (upd : X -> V -> V).
    Definition ustep (m : list (K * V)) (x : X) := upsert (key x) (ins x) (upd x) m.
    Definition kstep (acc : option V) (x : X) : option V :=
      Some (match acc with Some v => upd x v | None => ins x end).

    Lemma dget_fold_upsert : forall xs m k,
      dget k (fold_left ustep xs m) =
      fold_left kstep (filter (fun x => keqb k (key x)) xs) (dget k m).
    Proof.
      induction xs as [|x t IH]; intros m k; simpl; [reflexivity|].
      rewrite IH. unfold ustep. destruct (keqb k (key x)) eqn:E; simpl.
      - apply keqb_eq in E; subst k. now rewrite dget_upsert_same.
      - rewrite dget_upsert_other; [reflexivity|]. apply keqb_false in E. congruence.
    Qed.

    Lemma keys_fold_upsert : forall xs m k,
      In k (map fst (fold_left ustep xs m)) <-> In k (map fst m) \/ exists x, In x xs /\ key x = k.
    Proof.
      induction xs as [|x t IH]; intros m k; simpl.
      - split; [auto|]. intros [H|(x & [] & _)]; assumption.
      - rewrite IH. unfold ustep. rewrite keys_upsert.
        destruct (dmem keqb (key x) m) eqn:E.
        + apply dmem_In in E. split.
          * intros [H|(y & I & <-)]; eauto.
          * intros [H|(y & [<-|I] & <-)]; eauto.
        + rewrite in_app_iff; simpl. split.
          * intros [[H|[<-|[]]]|(y & I & <-)]; eauto.
          * intros [H|(y & [<-|I] & <-)]; eauto.
    Qed.

    Lemma NoDup_fold_upsert : forall xs m, NoDup (map fst m) -> NoDup (map fst (fold_left ustep xs m)).
    Proof.
      induction xs as [|x t IH]; intros m ND; simpl; [assumption|].
      apply IH. now apply NoDup_keys_upsert.
    Qed.
  End Fold.
End Dict.

Section Dict2.
  Context {K V : Type} (keqb : K -> K -> bool).
  Hypothesis keqb_eq : forall x y, keqb x y = true <-> x = y.

  Lemma dset_noop : forall k v (m : list (K * V)), dget keqb k m = Some v -> dset keqb k v m = m.
  Proof.
    intros k v m; induction m as [|[k2 v2] t IH]; simpl; [discriminate|].
    destruct (keqb k k2) eqn:E.
    - now intros [= ->].
    - intro H. now rewrite IH.
  Qed.

  Lemma dset_snoc : forall k v x (m : list (K * V)), dget keqb k m = None ->
    dset keqb k v (m ++ [(k, x)]) = m ++ [(k, v)].
  Proof.
    intros k v x m; induction m as [|[k2 v2] t IH]; simpl.
    - intros _. now rewrite (keqb_refl keqb keqb_eq).
    - destruct (keqb k k2) eqn:E; [discriminate|]. intro H. now rewrite IH.
  Qed.

  (* d.setdefault(k, i); d[k] = f(d[k]) *)
  Lemma setdefault_set_upsert : forall k i (f : V -> V) (m : list (K * V)),
    let m1 := if dmem keqb k m then m else m ++ [(k, i)] in
    dset keqb k (f (match dget keqb k m1 with Some q => q | None => i end)) m1 = upsert keqb k (f i) f m.
  Proof.
    intros k i f m. unfold dmem, upsert. destruct (dget keqb k m) eqn:E; simpl.
    - now rewrite E.
    - rewrite (dget_app keqb), E. simpl. rewrite (keqb_refl keqb keqb_eq). now apply dset_snoc.
  Qed.

  Lemma setdefault_upsert : forall k i (m : list (K * V)),
    (if dmem keqb k m then m else m ++ [(k, i)]) = upsert keqb k i (fun v => v) m.
  Proof.
    intros k i m. unfold dmem, upsert. destruct (dget keqb k m) eqn:E; [|reflexivity].
    symmetry. now apply dset_noop.
  Qed.

  Section Fold2.
    Context {X : Type} (upd : X -> V -> V).
    Lemma kstep_fold_some : forall (ins : X -> V) xs v,
      fold_left (kstep ins upd) xs (Some v) = Some (fold_left (fun a x => upd x a) xs v).
    Proof. intros ins; induction xs as [|x t IH]; intro v; simpl; [reflexivity|]. apply IH. Qed.

    Lemma kstep_fold_none : forall (i0 : V) xs,
      fold_left (kstep (fun x => upd x i0) upd) xs None =
      match xs with [] => None | _ => Some (fold_left (fun a x => upd x a) xs i0) end.
    Proof. intros i0 [|x t]; simpl; [reflexivity|]. apply kstep_fold_some. Qed.
  End Fold2.
End Dict2.

Section Dict3.
  Context {K V : Type} (keqb : K -> K -> bool).
  Hypothesis keqb_eq : forall x y, keqb x y = true <-> x = y.

  Lemma dget_In_pair : forall k v (m : list (K * V)), dget keqb k m = Some v -> In (k, v) m.
  Proof.
    intros k v m H. destruct (dget_Some_In keqb keqb_eq k v m H) as (k' & -> & I). exact I.
  Qed.

  Lemma In_dget_some : forall k v (m : list (K * V)), In (k, v) m -> exists v', dget keqb k m = Some v' /\ In (k, v') m.
  Proof.
    intros k v m; induction m as [|[k2 v2] t IH]; simpl; [tauto|].
    intros [[= -> ->]|I].
    - rewrite (keqb_refl keqb keqb_eq). eauto.
    - destruct (keqb k k2) eqn:E.
      + apply keqb_eq in E; subst. eauto.
      + destruct (IH I) as (v' & G & I'). eauto.
  Qed.

  Lemma dset_In : forall k v (m : list (K * V)) x, In x (dset keqb k v m) -> x = (k, v) \/ In x m.
  Proof.
    intros k v m x; induction m as [|[k2 v2] t IH]; simpl.
    - intros [<-|[]]; auto.
    - destruct (keqb k k2) eqn:E; simpl.
      + apply keqb_eq in E; subst. intros [<-|I]; auto.
      + intros [<-|I]; auto. destruct (IH I); auto.
  Qed.

  Lemma dset_key_In : forall k v (m : list (K * V)), In (k, v) (dset keqb k v m).
  Proof.
    intros k v m. apply (dget_In_pair k v). apply (dget_dset_same keqb keqb_eq).
  Qed.

  Lemma dset_keeps_key : forall k v k' v' (m : list (K * V)), In (k', v') m ->
    exists v'', In (k', v'') (dset keqb k v m).
  Proof.
    intros k v k' v' m; induction m as [|[k2 v2] t IH]; simpl; [tauto|].
    intros [[= -> ->]|I].
    - destruct (keqb k k') eqn:E; simpl; eauto.
    - destruct (keqb k k2) eqn:E; simpl; [eauto|]. destruct (IH I) as (v'' & H). eauto.
  Qed.

  (* a.update(b): every binding of the result comes from a or b; every key of a or b stays bound *)
  Lemma dupdate_In : forall (b a : list (K * V)) x, In x (dupdate keqb a b) -> In x a \/ In x b.
  Proof.
    unfold dupdate. induction b as [|[k v] t IH]; intros a x; simpl; [auto|].
    intro H. apply IH in H as [H|H]; [|auto]. apply dset_In in H as [->|H]; auto.
  Qed.

  Lemma dupdate_keeps : forall (b a : list (K * V)) k v, In (k, v) a \/ In (k, v) b ->
    exists v', In (k, v') (dupdate keqb a b).
  Proof.
    unfold dupdate. induction b as [|[k2 v2] t IH]; intros a k v; simpl.
    - intros [H|[]]. eauto.
    - intros [H|[[= -> ->]|H]].
      + destruct (dset_keeps_key k2 v2 k v a H) as (v'' & H'). apply (IH _ k v''). auto.
      + apply (IH _ k v). left. apply dset_key_In.
      + apply (IH _ k v). auto.
  Qed.
End Dict3.
