(* C12 - putting the stages together: the result of a scan as a function of the set of
   datagrams. *)
From Coq Require Import List Bool Arith NArith Lia Permutation.
From PV Require Import Common.Cases C12.Model C12.DictLemmas C12.Spec
     C12.ProofsParser C12.ProofsMulticast C12.ProofsScanner.
Import ListNotations.

(* ------------------------------------------------------------ one source *)

Definition resp_of_parser (p : parser) (deep : bool) : response :=
  let svcs := parse p in mkResp svcs deep (get_model svcs).

(* the Response built from the datagrams of one source (multicast, no end condition) *)
Definition src_response (types : list str) (ds : list dgram) : response := to_response (agg types ds).

Lemma src_response_eq : forall types ds,
  src_response types ds =
  resp_of_parser (table_of (concat (acc types ds))) (existsb sleep_proxy (acc types ds)).
Proof.
  intros. unfold src_response, to_response, resp_of_parser. now rewrite agg_parser, agg_deep.
Qed.

Definition real_services (p : parser) : list service := map snd (real_results p).

Definition devinfo_agree (l : list service) : Prop :=
  forall x y, In x l -> In y l -> stype x = DEVINFO -> stype y = DEVINFO ->
              pget K_MODEL (sprops x) = pget K_MODEL (sprops y).

Lemma get_model_find : forall l,
  get_model l = match find (fun sv => str_eqb (stype sv) DEVINFO) l with
                | Some sv => pget K_MODEL (sprops sv)
                | None => None
                end.
Proof.
  induction l as [|sv t IH]; simpl; [reflexivity|]. destruct (str_eqb (stype sv) DEVINFO); auto.
Qed.

Lemma get_model_same_set : forall l l', same_set l l' -> devinfo_agree l -> get_model l = get_model l'.
Proof.
  intros l l' S A. rewrite !get_model_find.
  destruct (find _ l) as [x|] eqn:F; destruct (find _ l') as [y|] eqn:F'.
  - apply find_some in F as [I E]. apply find_some in F' as [I' E']. apply S in I'.
    apply str_eqb_eq in E, E'. now apply A.
  - apply find_some in F as [I E]. apply S in I. now rewrite (find_none _ _ F' _ I) in E.
  - apply find_some in F' as [I E]. apply S in I. now rewrite (find_none _ _ F _ I) in E.
  - reflexivity.
Qed.

Lemma get_model_app_extra : forall l e,
  (forall x, In x e -> sprops x = []) -> get_model (l ++ e) = get_model l.
Proof.
  intros l e H. induction l as [|sv t IH]; simpl.
  - induction e as [|x e IHe]; simpl; [reflexivity|].
    destruct (str_eqb (stype x) DEVINFO).
    + now rewrite (H x (or_introl eq_refl)).
    + apply IHe. intros y I. apply H. now right.
  - destruct (str_eqb (stype sv) DEVINFO); auto.
Qed.

Lemma parse_shape : forall p, exists extra,
  parse p = real_services p ++ extra /\ forall x, In x extra -> saddr x = None /\ sprops x = [].
Proof.
  intro p. destruct (parse_results_shape p) as (e & E & H). exists (map snd e). split.
  - unfold parse, real_services. now rewrite E, map_app.
  - intros x I. apply in_map_iff in I as (y & <- & I). now apply H.
Qed.

Lemma get_model_parse : forall p, get_model (parse p) = get_model (real_services p).
Proof.
  intro p. destruct (parse_shape p) as (e & -> & H). apply get_model_app_extra. intros x I. now apply H.
Qed.

Lemma item_of_no_addr : forall lk T deep model sv, saddr sv = None -> item_of lk T deep model sv = [].
Proof. intros. unfold item_of. rewrite H. now destruct (existsb (str_eqb (stype sv)) T). Qed.

Lemma items_of_parse : forall lk T p deep it,
  In it (items_of lk T (resp_of_parser p deep)) <->
  exists sv, In sv (real_services p) /\ In it (item_of lk T deep (get_model (real_services p)) sv).
Proof.
  intros lk T p deep it. unfold items_of, resp_of_parser. cbn [rservices rdeep rmodel].
  rewrite get_model_parse, in_flat_map. destruct (parse_shape p) as (e & -> & H). split.
  - intros (sv & I & Hit). apply in_app_iff in I as [I|I]; [eauto|].
    rewrite item_of_no_addr in Hit; [destruct Hit|now apply H].
  - intros (sv & I & Hit). exists sv. split; [apply in_app_iff; auto|assumption].
Qed.

Definition source_consistent (types : list str) (ds : list dgram) : Prop :=
  recs_consistent (concat (acc types ds)) /\
  devinfo_agree (real_services (table_of (concat (acc types ds)))).

Lemma real_services_same_set : forall raw raw', same_set raw raw' -> recs_consistent raw ->
  same_set (real_services (table_of raw)) (real_services (table_of raw')).
Proof. intros. unfold real_services. apply map_same_set. now apply real_results_same_set. Qed.

Lemma source_consistent_same_set : forall types ds ds', same_set ds ds' ->
  source_consistent types ds -> source_consistent types ds'.
Proof.
  intros types ds ds' S [C A].
  pose proof (concat_same_set _ _ (acc_same_set types ds ds' S)) as SR. split.
  - eapply recs_consistent_same_set; eassumption.
  - pose proof (real_services_same_set _ _ SR C) as SS. intros x y I I'. apply SS in I, I'. now apply A.
Qed.

Theorem source_items_invariant : forall lk T types ds ds',
  same_set ds ds' -> source_consistent types ds ->
  same_set (items_of lk T (src_response types ds)) (items_of lk T (src_response types ds')).
Proof.
  intros lk T types ds ds' S [C A] it. rewrite !src_response_eq, !items_of_parse.
  pose proof (acc_same_set types ds ds' S) as SA.
  pose proof (concat_same_set _ _ SA) as SR.
  pose proof (real_services_same_set _ _ SR C) as SS.
  rewrite <- (existsb_same_set sleep_proxy _ _ SA).
  rewrite <- (get_model_same_set _ _ SS A).
  split; intros (sv & I & H); exists sv; (split; [now apply SS|assumption]).
Qed.

(* ------------------------------------------------------------ all sources (multicast without identifier filter) *)

Lemma mc_responses_In : forall types h r,
  In r (mc_responses types [] h) <->
  exists s, (exists d, In (s, d) h) /\ r = src_response types (dgrams_of s h).
Proof.
  intros types h r. unfold mc_responses. rewrite mc_run_noids. cbn [qrs]. rewrite in_map_iff. split.
  - intros ([s q] & <- & I). exists s. split.
    + apply (qrs_keys types h s). change s with (fst (s, q)). now apply in_map.
    + apply (dget_In N.eqb Neqb_eq _ _ _ (qrs_NoDup types h)) in I. rewrite qrs_get in I.
      unfold src_response. destruct (dgrams_of s h); [discriminate|]. now injection I as <-.
  - intros (s & (d & I) & ->).
    assert (G : dget N.eqb s (fold_left (mstep0 types) h []) = Some (agg types (dgrams_of s h))).
    { rewrite qrs_get. destruct (dgrams_of s h) eqn:E; [|reflexivity].
      exfalso. assert (In d (dgrams_of s h)) by now apply dgrams_of_In. rewrite E in H. destruct H. }
    exists (s, agg types (dgrams_of s h)). split; [reflexivity|].
    now apply (dget_In_pair N.eqb Neqb_eq).
Qed.

Lemma all_items_In : forall lk T rs it, In it (all_items lk T rs) <-> exists r, In r rs /\ In it (items_of lk T r).
Proof. intros. unfold all_items. apply in_flat_map. Qed.

Definition mc_items (lk : lookups) (wanted : list proto) (h : list (N * dgram)) : list item :=
  all_items lk (scan_types wanted) (mc_responses (scan_types wanted) [] h).

(* "self-consistent devices" for a multicast scan: every source is consistent in itself, and
   what the sources say about one address is consistent *)
Definition mc_consistent (lk : lookups) (wanted : list proto) (h : list (N * dgram)) : Prop :=
  (forall s, source_consistent (scan_types wanted) (dgrams_of s h)) /\
  items_consistent lk (mc_items lk wanted h).

Theorem mc_items_same_set : forall lk wanted h h',
  same_set h h' -> (forall s, source_consistent (scan_types wanted) (dgrams_of s h)) ->
  same_set (mc_items lk wanted h) (mc_items lk wanted h').
Proof.
  assert (half : forall lk wanted h h', same_set h h' ->
            (forall s, source_consistent (scan_types wanted) (dgrams_of s h)) ->
            forall it, In it (mc_items lk wanted h) -> In it (mc_items lk wanted h')).
  { intros lk wanted h h' S C it I. unfold mc_items in *. apply all_items_In in I as (r & Ir & Hit).
    apply mc_responses_In in Ir as (s & (d & Id) & ->). apply all_items_In.
    exists (src_response (scan_types wanted) (dgrams_of s h')). split.
    - apply mc_responses_In. exists s. split; [|reflexivity]. exists d. now apply S.
    - apply (source_items_invariant lk _ _ _ _ (dgrams_of_same_set s h h' S) (C s)). assumption. }
  intros lk wanted h h' S C it. split; [now apply half|]. apply half; [now apply same_set_sym|].
  intro s. eapply source_consistent_same_set; [apply dgrams_of_same_set; eassumption|apply C].
Qed.

Theorem mc_consistent_same_set : forall lk wanted h h', same_set h h' ->
  mc_consistent lk wanted h -> mc_consistent lk wanted h'.
Proof.
  intros lk wanted h h' S [C K]. split.
  - intro s. eapply source_consistent_same_set; [apply dgrams_of_same_set; eassumption|apply C].
  - eapply items_consistent_same_set; [|eassumption]. now apply mc_items_same_set.
Qed.

Theorem multicast_invariant : forall lk wanted h h',
  same_set h h' -> mc_consistent lk wanted h ->
  snapshot_equiv (scan_multicast lk wanted [] h) (scan_multicast lk wanted [] h').
Proof.
  intros lk wanted h h' S [C K]. unfold scan_multicast. rewrite !scan_result_items.
  apply result_of_invariant; [|assumption]. now apply mc_items_same_set.
Qed.

Lemma Permutation_same_set {A} : forall (l l' : list A), Permutation l l' -> same_set l l'.
Proof. intros l l' P x. split; apply Permutation_in; [assumption|now apply Permutation_sym]. Qed.

(* duplicated delivery: h' contains every datagram of h, possibly several times, and nothing else *)
Definition redelivery {A} (h h' : list A) : Prop := incl h h' /\ incl h' h.
Lemma redelivery_same_set {A} : forall (h h' : list A), redelivery h h' -> same_set h h'.
Proof. intros h h' [I1 I2] x. split; [apply I1|apply I2]. Qed.

(* ------------------------------------------------------------ identifier scans *)

(* with an identifier filter the protocol either never aborts - then it returns what the plain
   run returns - or aborts at some datagram (s,d) and returns exactly the response of source s
   as the plain run on the prefix up to and including (s,d) builds it *)
Theorem identifier_scan_prefix : forall types ids h,
  mc_responses types ids h = mc_responses types [] h \/
  exists pre s d post,
    h = pre ++ (s, d) :: post /\
    mc_responses types ids pre = mc_responses types [] pre /\
    mc_responses types ids h = [src_response types (dgrams_of s (pre ++ [(s, d)]))].
Proof.
  intros types ids h. destruct (mc_run_ids_prefix types ids h) as [E|(pre & s & d & post & q & E & P & G & R)].
  - left. unfold mc_responses. now rewrite E.
  - right. exists pre, s, d, post. split; [assumption|]. split.
    + unfold mc_responses. now rewrite P.
    + unfold mc_responses. rewrite R. cbn [qrs map snd]. f_equal.
      rewrite mc_run_noids in G. cbn [qrs] in G. rewrite qrs_get in G. unfold src_response.
      destruct (dgrams_of s (pre ++ [(s, d)])); [discriminate|]. now injection G as <-.
Qed.

Lemma all_items_single : forall lk T r, all_items lk T [r] = items_of lk T r.
Proof. intros. unfold all_items. simpl. apply app_nil_r. Qed.

(* two deliveries that abort at the same source after having taken in the same datagrams return
   the same configurations *)
Theorem identifier_scan_invariant_upto_abort : forall lk wanted ids s pre d pre' d',
  let T := scan_types wanted in
  same_set (pre ++ [(s, d)]) (pre' ++ [(s, d')]) ->
  source_consistent T (dgrams_of s (pre ++ [(s, d)])) ->
  items_consistent lk (items_of lk T (src_response T (dgrams_of s (pre ++ [(s, d)])))) ->
  snapshot_equiv
    (scan_result lk wanted ids [src_response T (dgrams_of s (pre ++ [(s, d)]))])
    (scan_result lk wanted ids [src_response T (dgrams_of s (pre' ++ [(s, d')]))]).
Proof.
  intros lk wanted ids s pre d pre' d' T S C K. rewrite !scan_result_items. fold T.
  rewrite !all_items_single. apply result_of_invariant; [|assumption].
  apply source_items_invariant; [|assumption]. now apply dgrams_of_same_set.
Qed.

(* ------------------------------------------------------------ unicast protocol *)

Fixpoint msgs (h : list dgram) : list (list rec) :=
  match h with
  | [] => []
  | Garbage :: t => msgs t
  | Msg r :: t => r :: msgs t
  end.

Lemma msgs_app : forall a b, msgs (a ++ b) = msgs a ++ msgs b.
Proof. induction a as [|[|r] t IH]; intro b; simpl; [reflexivity|apply IH|now rewrite IH]. Qed.

Lemma uc_closed_stays : forall nq h st, uclosed st = true -> fold_left (uc_step nq) h st = st.
Proof.
  induction h as [|d t IH]; intros st C; simpl; [reflexivity|].
  unfold uc_step at 2. rewrite C. now apply IH.
Qed.

Lemma uc_fold : forall nq h c p, c < nq ->
  fold_left (uc_step nq) h (mkU c p false) =
  if nq - c <=? length (msgs h)
  then mkU nq (fold_left add_record (concat (firstn (nq - c) (msgs h))) p) true
  else mkU (c + length (msgs h)) (fold_left add_record (concat (msgs h)) p) false.
Proof.
  induction h as [|[|r] t IH]; intros c p L.
  - simpl. destruct (nq - c) eqn:E; [lia|]. simpl. now rewrite Nat.add_0_r.
  - simpl. now apply IH.
  - simpl msgs. simpl fold_left. unfold uc_step at 2. cbn [uclosed ucount uparser].
    destruct (Nat.eqb (S c) nq) eqn:E.
    + apply Nat.eqb_eq in E. rewrite uc_closed_stays by reflexivity.
      replace (nq - c) with 1 by lia. simpl. rewrite app_nil_r. now subst nq.
    + apply Nat.eqb_neq in E. rewrite IH by lia.
      replace (nq - c) with (S (nq - S c)) by lia. cbn [length firstn concat].
      change (S (nq - S c) <=? S (length (msgs t))) with (nq - S c <=? length (msgs t)).
      unfold add_message. rewrite !fold_left_app.
      destruct (nq - S c <=? length (msgs t)); [reflexivity|]. f_equal. lia.
Qed.

(* what the unicast protocol bases its answer on: the first nq decodable datagrams if that many
   arrive, nothing otherwise *)
Definition uc_effective (nq : nat) (h : list dgram) : option (list (list rec)) :=
  if nq <=? length (msgs h) then Some (firstn nq (msgs h)) else None.

Definition empty_response : response := mkResp [] false None.

Theorem uc_response_spec : forall nq h, 1 <= nq ->
  uc_response nq h = match uc_effective nq h with
                     | Some ms => resp_of_parser (table_of (concat ms)) false
                     | None => empty_response
                     end.
Proof.
  intros nq h L. unfold uc_response, uc_run, ustate0, uc_effective. rewrite uc_fold by lia.
  rewrite Nat.sub_0_r. destruct (nq <=? length (msgs h)); reflexivity.
Qed.

Lemma nqueries_pos : forall wanted, 1 <= nqueries (scan_types wanted).
Proof.
  intro wanted. unfold nqueries, scan_types. cbn [length].
  apply (Nat.div_le_lower_bound _ 3 1); lia.
Qed.

(* the decision depends only on the first nq decodable datagrams *)
Theorem uc_response_prefix : forall nq h, 1 <= nq ->
  uc_response nq h = uc_response nq (map Msg (firstn nq (msgs h))) \/ length (msgs h) < nq.
Proof.
  intros nq h L. destruct (Nat.leb_spec nq (length (msgs h))) as [H|H]; [left|now right].
  rewrite !uc_response_spec by assumption. unfold uc_effective.
  assert (M : forall l, msgs (map Msg l) = l) by (induction l as [|x t IH]; simpl; [reflexivity|now rewrite IH]).
  rewrite M, firstn_length, Nat.min_l by assumption.
  rewrite Nat.leb_refl. apply Nat.leb_le in H. rewrite H. now rewrite firstn_firstn, Nat.min_id.
Qed.

Definition host_consistent (ms : list (list rec)) : Prop :=
  recs_consistent (concat ms) /\ devinfo_agree (real_services (table_of (concat ms))).

Definition uc_same (nq : nat) (h h' : list dgram) : Prop :=
  match uc_effective nq h, uc_effective nq h' with
  | Some ms, Some ms' => same_set ms ms' /\ host_consistent ms
  | None, None => True
  | _, _ => False
  end.

Lemma uc_items_same : forall lk T nq h h', 1 <= nq -> uc_same nq h h' ->
  same_set (items_of lk T (uc_response nq h)) (items_of lk T (uc_response nq h')).
Proof.
  intros lk T nq h h' L U. rewrite !uc_response_spec by assumption. unfold uc_same in U.
  destruct (uc_effective nq h) as [ms|]; destruct (uc_effective nq h') as [ms'|]; try contradiction;
    [|apply same_set_refl].
  destruct U as [S [C A]]. intro it. rewrite !items_of_parse.
  pose proof (concat_same_set _ _ S) as SR.
  pose proof (real_services_same_set _ _ SR C) as SS.
  rewrite <- (get_model_same_set _ _ SS A).
  split; intros (sv & I & H); exists sv; (split; [now apply SS|assumption]).
Qed.

Lemma all_items_Forall2 : forall lk T rs rs',
  Forall2 (fun r r' => same_set (items_of lk T r) (items_of lk T r')) rs rs' ->
  same_set (all_items lk T rs) (all_items lk T rs').
Proof.
  intros lk T rs rs' F it. unfold all_items. induction F as [|r r' t t' S F IH]; simpl; [tauto|].
  rewrite !in_app_iff. specialize (S it). tauto.
Qed.

Definition uc_items (lk : lookups) (wanted : list proto) (hs : list (list dgram)) : list item :=
  all_items lk (scan_types wanted) (map (uc_response (nqueries (scan_types wanted))) hs).

Theorem unicast_invariant : forall lk wanted ids hs hs',
  Forall2 (uc_same (nqueries (scan_types wanted))) hs hs' ->
  items_consistent lk (uc_items lk wanted hs) ->
  snapshot_equiv (scan_unicast lk wanted ids hs) (scan_unicast lk wanted ids hs').
Proof.
  intros lk wanted ids hs hs' F K. unfold scan_unicast. rewrite !scan_result_items.
  apply result_of_invariant; [|assumption]. clear K. apply all_items_Forall2.
  induction F as [|h h' t t' U F IH]; simpl; [constructor|].
  constructor; [|assumption]. apply uc_items_same; [apply nqueries_pos|assumption].
Qed.

(* permutations of exactly as many decodable datagrams as there are queries *)
Lemma msgs_Permutation : forall h h', Permutation h h' -> Permutation (msgs h) (msgs h').
Proof.
  intros h h' P. induction P as [|x l l' P IH|x y l|l l' l'' P1 IH1 P2 IH2]; simpl.
  - constructor.
  - destruct x; [assumption|now constructor].
  - destruct x as [|rx], y as [|ry]; simpl.
    + apply Permutation_refl.
    + apply Permutation_refl.
    + apply Permutation_refl.
    + apply perm_swap.
  - eapply Permutation_trans; eassumption.
Qed.

Theorem uc_same_perm : forall nq h h',
  Permutation h h' -> length (msgs h) = nq -> host_consistent (msgs h) -> uc_same nq h h'.
Proof.
  intros nq h h' P L C. pose proof (msgs_Permutation h h' P) as PM.
  pose proof (Permutation_length PM) as EL. subst nq.
  unfold uc_same, uc_effective. rewrite Nat.leb_refl, firstn_all.
  rewrite EL, Nat.leb_refl, firstn_all.
  split; [now apply Permutation_same_set|assumption].
Qed.

(* ------------------------------------------------------------ corollaries in the vocabulary of the property *)

Theorem multicast_perm_invariant : forall lk wanted h h',
  Permutation h h' -> mc_consistent lk wanted h ->
  snapshot_equiv (scan_multicast lk wanted [] h) (scan_multicast lk wanted [] h').
Proof. intros. apply multicast_invariant; [now apply Permutation_same_set|assumption]. Qed.

Theorem multicast_dup_invariant : forall lk wanted h h',
  redelivery h h' -> mc_consistent lk wanted h ->
  snapshot_equiv (scan_multicast lk wanted [] h) (scan_multicast lk wanted [] h').
Proof. intros. apply multicast_invariant; [now apply redelivery_same_set|assumption]. Qed.

(* an identifier filter that never triggers the abort changes nothing but the final filter *)
Theorem identifier_scan_no_abort_invariant : forall lk wanted ids h h',
  same_set h h' -> mc_consistent lk wanted h ->
  mc_responses (scan_types wanted) ids h = mc_responses (scan_types wanted) [] h ->
  mc_responses (scan_types wanted) ids h' = mc_responses (scan_types wanted) [] h' ->
  snapshot_equiv (scan_multicast lk wanted ids h) (scan_multicast lk wanted ids h').
Proof.
  intros lk wanted ids h h' S [C K] E E'. unfold scan_multicast. rewrite E, E', !scan_result_items.
  apply result_of_invariant; [|assumption]. now apply mc_items_same_set.
Qed.

Theorem unicast_perm_invariant : forall lk wanted ids hs hs',
  Forall2 (fun h h' => Permutation h h' /\ length (msgs h) = nqueries (scan_types wanted) /\
                       host_consistent (msgs h)) hs hs' ->
  items_consistent lk (uc_items lk wanted hs) ->
  snapshot_equiv (scan_unicast lk wanted ids hs) (scan_unicast lk wanted ids hs').
Proof.
  intros lk wanted ids hs hs' F K. apply unicast_invariant; [|assumption].
  clear K. induction F as [|h h' t t' (P & L & C) F IH]; constructor; [|assumption].
  now apply uc_same_perm.
Qed.

(* ------------------------------------------------------------ datagrams that are not taken in *)

(* garbage, and answers that (also) announce a service type that was not asked for *)
Definition inert (types : list str) (d : dgram) : Prop :=
  match d with Garbage => True | Msg recs => accepted types recs = false end.

Lemma gstep_inert : forall types d q, inert types d -> gstep types d q = q.
Proof. intros types [|recs] q H; simpl in *; [reflexivity|now rewrite H]. Qed.

Lemma agg_inert : forall types l1 d l2, inert types d -> agg types (l1 ++ d :: l2) = agg types (l1 ++ l2).
Proof.
  intros types l1 d l2 H. unfold agg. rewrite !fold_left_app. simpl. now rewrite gstep_inert.
Qed.

Lemma dgrams_of_app : forall s a b, dgrams_of s (a ++ b) = dgrams_of s a ++ dgrams_of s b.
Proof. intros. unfold dgrams_of. now rewrite filter_app, map_app. Qed.

Lemma src_response_inert : forall types s s' h1 d h2, inert types d ->
  src_response types (dgrams_of s' (h1 ++ (s, d) :: h2)) = src_response types (dgrams_of s' (h1 ++ h2)).
Proof.
  intros types s s' h1 d h2 H. rewrite !dgrams_of_app. unfold dgrams_of at 2. simpl.
  destruct (N.eqb s' s); simpl; [|reflexivity]. unfold src_response. now rewrite agg_inert.
Qed.

Lemma items_of_empty_source : forall lk T types, items_of lk T (src_response types []) = [].
Proof. reflexivity. Qed.

Theorem mc_items_inert : forall lk wanted h1 s d h2,
  inert (scan_types wanted) d ->
  same_set (mc_items lk wanted (h1 ++ (s, d) :: h2)) (mc_items lk wanted (h1 ++ h2)).
Proof.
  intros lk wanted h1 s d h2 H it. unfold mc_items. rewrite !all_items_In. split.
  - intros (r & Ir & Hit). apply mc_responses_In in Ir as (s' & (d' & Id) & ->).
    rewrite src_response_inert in Hit by assumption.
    exists (src_response (scan_types wanted) (dgrams_of s' (h1 ++ h2))). split; [|assumption].
    apply mc_responses_In. exists s'. split; [|reflexivity].
    destruct (dgrams_of s' (h1 ++ h2)) as [|d0 l] eqn:E.
    + exfalso. try rewrite E in Hit. exact Hit.
    + exists d0. apply dgrams_of_In. rewrite E. simpl; auto.
  - intros (r & Ir & Hit). apply mc_responses_In in Ir as (s' & (d' & Id) & ->).
    exists (src_response (scan_types wanted) (dgrams_of s' (h1 ++ (s, d) :: h2))). split.
    + apply mc_responses_In. exists s'. split; [|reflexivity]. exists d'.
      apply in_app_iff in Id as [Id|Id]; apply in_app_iff; simpl; auto.
    + now rewrite src_response_inert.
Qed.

(* such a datagram does not change the set of configurations returned, wherever it arrives *)
Theorem multicast_inert_ignored : forall lk wanted h1 s d h2,
  inert (scan_types wanted) d -> items_consistent lk (mc_items lk wanted (h1 ++ h2)) ->
  snapshot_equiv (scan_multicast lk wanted [] (h1 ++ h2)) (scan_multicast lk wanted [] (h1 ++ (s, d) :: h2)).
Proof.
  intros lk wanted h1 s d h2 H K. unfold scan_multicast. rewrite !scan_result_items.
  apply result_of_invariant; [|assumption]. apply same_set_sym. now apply mc_items_inert.
Qed.

(* ------------------------------------------------------------ burst delivery (nothing stops at completion) *)

Lemma uc_fold_burst : forall nq h c p b,
  fold_left (uc_step_burst nq) h (mkU c p b) =
  mkU (c + length (msgs h)) (fold_left add_record (concat (msgs h)) p)
      (b || ((c <? nq) && (nq <=? c + length (msgs h)))).
Proof.
  induction h as [|[|r] t IH]; intros c p b.
  - simpl. rewrite Nat.add_0_r. f_equal. apply eq_true_iff_eq.
    rewrite !orb_true_iff, !andb_true_iff, !Nat.ltb_lt, !Nat.leb_le. intuition lia.
  - simpl. apply IH.
  - simpl msgs. simpl fold_left. unfold uc_step_burst at 1. cbn [uclosed ucount uparser].
    rewrite IH. unfold add_message. cbn [concat length]. rewrite fold_left_app. f_equal; [lia|].
    change (match nq with 0 => false | S m' => c =? m' end) with (S c =? nq). apply eq_true_iff_eq.
    rewrite !orb_true_iff, !andb_true_iff, Nat.eqb_eq, !Nat.ltb_lt, !Nat.leb_le. intuition lia.
Qed.

Definition uc_effective_burst (nq : nat) (h : list dgram) : option (list (list rec)) :=
  if nq <=? length (msgs h) then Some (msgs h) else None.

(* burst: the answer is built from ALL decodable datagrams, provided there are at least nq *)
Theorem uc_response_burst_spec : forall nq h, 1 <= nq ->
  uc_response_burst nq h = match uc_effective_burst nq h with
                           | Some ms => resp_of_parser (table_of (concat ms)) false
                           | None => empty_response
                           end.
Proof.
  intros nq h L. unfold uc_response_burst, uc_run_burst, ustate0, uc_effective_burst.
  rewrite uc_fold_burst. cbn [uclosed uparser orb]. simpl Nat.add.
  assert (E : (0 <? nq) = true) by (apply Nat.ltb_lt; lia). rewrite E. simpl andb.
  destruct (nq <=? length (msgs h)); reflexivity.
Qed.

Definition uc_burst_same (nq : nat) (h h' : list dgram) : Prop :=
  match uc_effective_burst nq h, uc_effective_burst nq h' with
  | Some ms, Some ms' => same_set ms ms' /\ host_consistent ms
  | None, None => True
  | _, _ => False
  end.

Lemma uc_burst_items_same : forall lk T nq h h', 1 <= nq -> uc_burst_same nq h h' ->
  same_set (items_of lk T (uc_response_burst nq h)) (items_of lk T (uc_response_burst nq h')).
Proof.
  intros lk T nq h h' L U. rewrite !uc_response_burst_spec by assumption. unfold uc_burst_same in U.
  destruct (uc_effective_burst nq h) as [ms|]; destruct (uc_effective_burst nq h') as [ms'|]; try contradiction;
    [|apply same_set_refl].
  destruct U as [S [C A]]. intro it. rewrite !items_of_parse.
  pose proof (concat_same_set _ _ S) as SR.
  pose proof (real_services_same_set _ _ SR C) as SS.
  rewrite <- (get_model_same_set _ _ SS A).
  split; intros (sv & I & H); exists sv; (split; [now apply SS|assumption]).
Qed.

Definition uc_burst_items (lk : lookups) (wanted : list proto) (hs : list (list dgram)) : list item :=
  all_items lk (scan_types wanted) (map (uc_response_burst (nqueries (scan_types wanted))) hs).

Theorem unicast_burst_invariant : forall lk wanted ids hs hs',
  Forall2 (uc_burst_same (nqueries (scan_types wanted))) hs hs' ->
  items_consistent lk (uc_burst_items lk wanted hs) ->
  snapshot_equiv (scan_unicast_burst lk wanted ids hs) (scan_unicast_burst lk wanted ids hs').
Proof.
  intros lk wanted ids hs hs' F K. unfold scan_unicast_burst. rewrite !scan_result_items.
  apply result_of_invariant; [|assumption]. clear K. apply all_items_Forall2.
  induction F as [|h h' t t' U F IH]; simpl; [constructor|].
  constructor; [|assumption]. apply uc_burst_items_same; [apply nqueries_pos|assumption].
Qed.

(* every arrival order of one burst, whatever its size *)
Theorem uc_burst_same_perm : forall nq h h',
  Permutation h h' -> host_consistent (msgs h) -> uc_burst_same nq h h'.
Proof.
  intros nq h h' P C. pose proof (msgs_Permutation h h' P) as PM.
  unfold uc_burst_same, uc_effective_burst. rewrite <- (Permutation_length PM).
  destruct (nq <=? length (msgs h)); [|exact I]. split; [now apply Permutation_same_set|assumption].
Qed.

Theorem unicast_burst_perm_invariant : forall lk wanted ids hs hs',
  Forall2 (fun h h' => Permutation h h' /\ host_consistent (msgs h)) hs hs' ->
  items_consistent lk (uc_burst_items lk wanted hs) ->
  snapshot_equiv (scan_unicast_burst lk wanted ids hs) (scan_unicast_burst lk wanted ids hs').
Proof.
  intros lk wanted ids hs hs' F K. apply unicast_burst_invariant; [|assumption].
  clear K. induction F as [|h h' t t' (P & C) F IH]; constructor; [|assumption].
  now apply uc_burst_same_perm.
Qed.

(* multicast without identifier filter never closes: burst delivery is the plain run *)
Theorem mc_run_burst_noids : forall types h, mc_run_burst types [] h = mc_run types [] h.
Proof.
  intros types h. unfold mc_run_burst, mc_run.
  assert (G : forall l st, mclosed st = false ->
            fold_left (mc_step_burst types []) l st = fold_left (mc_step types []) l st).
  { induction l as [|x t IH]; intros st C; simpl; [reflexivity|].
    unfold mc_step_burst at 2. replace (mkM (qrs st) false) with st by (destruct st; simpl in *; now subst).
    apply IH. now rewrite mc_step_noids. }
  now apply G.
Qed.
