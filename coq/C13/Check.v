(* C13 - executable comparison functions used by the correspondence run against the real
   tables of one device profile (definitions only, no proofs). *)
From Coq Require Import List Bool Arith String.
From PV Require Import Common.Cases C01.Model C01.Spec C13.Model C13.Gen.
Import ListNotations.

Definition profile_units (n : nat) : list unit :=
  match nth_error profiles n with Some (_, us) => us | None => [] end.

(* the SetupData added to the device object, by position in the profile's table, with what
   their connect() returned *)
Definition units_of (n : nat) (ids : list (nat * bool)) : list (unit * bool) :=
  flat_map (fun kb => match nth_error (profile_units n) (fst kb) with Some u => [(u, snd kb)] | None => [] end) ids.

(* (profile, ids of the added SetupData in order, feature, observed answer of the real features
   interface) *)
Definition check_real_feature (c : nat * list (nat * bool) * feature * fres) : bool :=
  let '(n, ids, f, obs) := c in
  fres_eqb (feature_of_units default_rt push_updates (units_of n ids) f) obs.

(* (profile, ids, takeover list of the interface's relayer, interface, member, gate, observed result
   of calling the member through the device object).  play_url is refused while the gate is
   closed; start reaches every connected push updater. *)
Definition check_real_invoke (c : nat * list (nat * bool) * list proto * iface * string * bool * callres) : bool :=
  let '(n, ids, take, i, m, gate, obs) := c in
  let us := eff (units_of n ids) [] in
  callres_eqb
    (facade_call (expected_kind i m) (text_order i) None take gate
                 (map u_proto (filter (fun u => u_has u i) us))
                 (reg_units us i m))
    obs.
