(* C13 - executable comparison functions used by the correspondence run against the real
   tables (definitions only, no proofs). *)
From Coq Require Import List Bool Arith String.
From PV Require Import Common.Cases C01.Model C01.Spec C13.Model C13.Gen.
Import ListNotations.

Definition entry (p : proto) (i : iface) :=
  find (fun e => proto_eqb (fst (fst e)) p && iface_eqb (snd (fst e)) i) real_impl.

Definition reg_real (order : list proto) (i : iface) (m : string) : registry :=
  fun p =>
    if memp p order
    then match entry p i with
         | Some (_, _, ms) => Some {| truthy := real_truthy; has_attr := real_subclass;
                                     overrides := existsb (String.eqb m) ms |}
         | None => None
         end
    else None.

(* (connect order, feature, observed answer of the real features interface) *)
Definition check_real_feature (c : list proto * feature * fres) : bool :=
  let '(order, f, obs) := c in
  fres_eqb (feature_of default_rt feats has_features has_push push_updates order f) obs.

(* (connect order, interface, member, gate, observed result of calling the member through the
   device object, no takeover).  play_url is refused while the gate is closed; start reaches
   every connected push updater. *)
Definition check_real_invoke (c : list proto * iface * string * bool * callres) : bool :=
  let '(order, i, m, gate, obs) := c in
  let dedup := snd (connect default_rt feats has_features order) in
  let k := expected_kind i m in
  callres_eqb
    (facade_call k (text_order i) None [] gate
                 (filter (fun p => match entry p i with Some _ => true | None => false end) dedup)
                 (reg_real order i m))
    obs.
