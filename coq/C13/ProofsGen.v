(* C13 - the finite obligations over the GENERATED tables (Gen.v is re-emitted from the source
   on every run) and their lifting to every connect order. *)
From Coq Require Import List Bool Arith String Lia.
From PV Require Import Common.Cases C01.Model C01.Spec C01.Proofs C13.Model C13.Proofs C13.Gen.
Import ListNotations.

Definition features : list feature := map fst all_features.

Definition members_of (f : feature) : list (iface * string) :=
  match find (fun e => Nat.eqb (fst e) f) feature_members with
  | Some (_, l) => l
  | None => []
  end.

Definition entry (p : proto) (i : iface) :=
  find (fun e => proto_eqb (fst (fst e)) p && iface_eqb (snd (fst e)) i) real_impl.

(* the class p registers for interface i overrides member m *)
Definition impl_b (p : proto) (i : iface) (m : string) : bool :=
  match entry p i with
  | Some (_, _, ms) => existsb (String.eqb m) ms
  | None => false
  end.

(* the registration the connected real protocols produce for member m of interface i *)
Definition real_reg (order : list proto) (i : iface) (m : string) : registry :=
  fun p =>
    if memp p order
    then match entry p i with
         | Some (_, _, ms) => Some {| truthy := real_truthy; has_attr := real_subclass;
                                     overrides := existsb (String.eqb m) ms |}
         | None => None
         end
    else None.

Lemma implements_real order i m p :
  implements (real_reg order i m) p = memp p order && impl_b p i m.
Proof.
  unfold implements, real_reg, impl_b. destruct (memp p order); [|reflexivity].
  destruct (entry p i) as [[[a b] ms]|]; reflexivity.
Qed.

(* some connected protocol makes the features interface answer something else than Unsupported *)
Definition reportable_set (S : list proto) (f : feature) : bool :=
  (Nat.eqb f push_updates && existsb has_push S) ||
  existsb (fun p => elig feats has_features p f) S.

Definition backed (S : list proto) (im : iface * string) : bool :=
  existsb (fun p => impl_b p (fst im) (snd im)) S.

(* ALL subsets of the five protocols (32, the empty one included) x ALL feature names *)
Definition check_all : bool :=
  forallb (fun S => forallb (fun f => implb (reportable_set S f) (forallb (backed S) (members_of f)))
                            features)
          (sublists all_protos).

Lemma check_all_true : check_all = true.
Proof. vm_compute. reflexivity. Qed.

Lemma subsets_count : List.length (sublists all_protos) = 32.
Proof. reflexivity. Qed.

(* every feature name stands for at least one interface member *)
Lemma gen_members_nonempty :
  forallb (fun f => match members_of f with [] => false | _ => true end) features = true.
Proof. vm_compute. reflexivity. Qed.

(* every feature a protocol lists is a feature name *)
Lemma gen_feats_known :
  forallb (fun p => forallb (fun f => memf f features) (feats p)) all_protos = true.
Proof. vm_compute. reflexivity. Qed.

Lemma gen_prio : default_ast = text_default /\ default_rt = text_default.
Proof. vm_compute. split; reflexivity. Qed.

Lemma gen_real_conforming : real_truthy && real_subclass = true.
Proof. vm_compute. reflexivity. Qed.

Lemma real_reg_conforming order i m : conforming (real_reg order i m).
Proof.
  intros p x. unfold real_reg. destruct (memp p order); [|discriminate].
  destruct (entry p i) as [[[a b] ms]|]; [|discriminate].
  intro H. inversion H; subst. simpl.
  pose proof gen_real_conforming as G. apply andb_true_iff in G. exact G.
Qed.

Lemma reported_reportable order f :
  feature_of default_rt feats has_features has_push push_updates order f <> FUnsupported ->
  reportable_set (canon order) f = true.
Proof.
  intro H. pose proof (feature_of_spec default_rt feats has_features has_push push_updates order f) as S.
  unfold reportable_set.
  destruct (feature_of default_rt feats has_features has_push push_updates order f) as [|q|].
  - destruct S as (-> & p & Ip & Hp). rewrite Nat.eqb_refl. simpl.
    apply orb_true_iff. left. apply existsb_exists. exists p. split; [now apply canon_In|exact Hp].
  - destruct S as (Iq & Eq & _ & _). apply orb_true_iff. right. apply existsb_exists.
    exists q. split; [now apply canon_In|exact Eq].
  - contradiction.
Qed.

Lemma features_backed order f : In f features ->
  feature_of default_rt feats has_features has_push push_updates order f <> FUnsupported ->
  forall i m, In (i, m) (members_of f) ->
  (exists p, In p order /\ impl_b p i m = true) /\
  forall ord, (forall p, In p ord) ->
    exists q, find_instance (real_reg order i m) ord = Routed q /\ In q order /\ impl_b q i m = true.
Proof.
  intros If R i m Im.
  pose proof (reported_reportable order f R) as Rep.
  pose proof check_all_true as Chk. unfold check_all in Chk.
  pose proof (proj1 (forallb_forall _ _) Chk (canon order) (canon_in_sublists order)) as C1.
  pose proof (proj1 (forallb_forall _ _) C1 f If) as C2. cbv beta in C2.
  rewrite Rep in C2. change (forallb (backed (canon order)) (members_of f) = true) in C2.
  pose proof (proj1 (forallb_forall _ _) C2 (i, m) Im) as B. unfold backed in B. cbn [fst snd] in B.
  apply existsb_exists in B as (p & Ip & Hp). apply (proj1 (canon_In order p)) in Ip.
  assert (E : exists p, implements (real_reg order i m) p = true).
  { exists p. rewrite implements_real. apply andb_true_iff. split; [now apply memp_In|exact Hp]. }
  split; [exists p; auto|].
  intros ord All.
  destruct (routed_if_implemented _ (real_reg_conforming order i m) E ord All) as (q & F & Iq).
  exists q. split; [exact F|]. rewrite implements_real in Iq. apply andb_true_iff in Iq as [A B].
  split; [now apply memp_In|exact B].
Qed.
