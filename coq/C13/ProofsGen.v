(* C13 - the finite obligations over the GENERATED tables (Gen.v is re-emitted from the source
   on every run: one table set per device profile) and their lifting to every connect order. *)
From Coq Require Import List Bool Arith String Lia.
From PV Require Import Common.Cases C01.Model C01.Spec C01.Proofs C13.Model C13.Proofs C13.Gen.
Import ListNotations.

Definition features : list feature := map fst all_features.

Definition members_of (f : feature) : list (iface * string) :=
  match find (fun e => Nat.eqb (fst e) f) feature_members with
  | Some (_, l) => l
  | None => []
  end.

(* some set-up unit makes the features interface answer something else than Unsupported *)
Definition reportable_set (S : list unit) (f : feature) : bool :=
  (Nat.eqb f push_updates && existsb (fun u => u_has u IPushUpdater) S) ||
  existsb (fun u => u_has u IFeatures && memf f (u_feats u)) S.

Definition backed (S : list unit) (im : iface * string) : bool :=
  existsb (fun u => impl_u u (fst im) (snd im)) S.

(* one profile: ALL subsets of the SetupData the five setup() generators yield under it
   x ALL feature names *)
Definition check_profile (us : list unit) : bool :=
  forallb (fun S => forallb (fun f => implb (reportable_set S f) (forallb (backed S) (members_of f)))
                            features)
          (sublists us).

(* ALL device profiles *)
Definition check_all : bool := forallb (fun pr => check_profile (snd pr)) profiles.

(* stated in unfolded form so that its uses are checked by syntactic equality (the kernel's
   lazy conversion must never be made to evaluate the check itself) *)
Lemma check_all_true : forallb (fun pr : string * list unit => check_profile (snd pr)) profiles = true.
Proof. vm_compute. reflexivity. Qed.

Lemma check_profile_spec us : check_profile us = true ->
  forall S, In S (sublists us) -> forall f, In f features -> reportable_set S f = true ->
  forall im, In im (members_of f) -> backed S im = true.
Proof.
  intros C S IS f If R im Im. unfold check_profile in C.
  pose proof (proj1 (forallb_forall _ (sublists us)) C S IS) as C1. cbv beta in C1.
  pose proof (proj1 (forallb_forall _ features) C1 f If) as C2. cbv beta in C2.
  rewrite R in C2. exact (proj1 (forallb_forall _ (members_of f)) C2 im Im).
Qed.

Lemma check_all_spec name us : In (name, us) profiles -> check_profile us = true.
Proof.
  intro I.
  exact (proj1 (forallb_forall (fun pr : string * list unit => check_profile (snd pr)) profiles)
               check_all_true (name, us) I).
Qed.

(* every feature name stands for at least one interface member *)
Lemma gen_members_nonempty :
  forallb (fun f => match members_of f with [] => false | _ => true end) features = true.
Proof. vm_compute. reflexivity. Qed.

(* every feature a unit lists is a feature name; every registered object is a truthy instance of
   its base interface *)
Definition all_units : list unit := flat_map snd profiles.

Definition unit_ok (u : unit) : bool := u_ok u && forallb (fun f => memf f features) (u_feats u).

Lemma gen_units_ok : forallb unit_ok all_units = true.
Proof. vm_compute. reflexivity. Qed.

(* under every profile the setups yield at most 8 SetupData *)
Lemma gen_units_bound : forallb (fun pr : string * list unit => List.length (snd pr) <=? 8) profiles = true.
Proof. vm_compute. reflexivity. Qed.

Lemma units_bound name us : In (name, us) profiles -> List.length us <= 8.
Proof.
  intro I. apply Nat.leb_le.
  exact (proj1 (forallb_forall (fun pr : string * list unit => List.length (snd pr) <=? 8) profiles)
               gen_units_bound (name, us) I).
Qed.

Lemma gen_prio : default_ast = text_default /\ default_rt = text_default.
Proof. vm_compute. split; reflexivity. Qed.

(* the 14 base profiles plus the property variations that change what a setup() yields *)
Lemma profiles_count : 14 <= List.length profiles <= 64.
Proof. split; apply Nat.leb_le; vm_compute; reflexivity. Qed.

(* ------------------------------------------------------------------ eff *)

Lemma eff_notin_done order : forall done u, In u (eff order done) -> memp (u_proto u) done = false.
Proof.
  induction order as [|[v ok] rest IH]; intros done u I; simpl in I; [destruct I|].
  destruct (memp (u_proto v) done) eqn:M.
  - exact (IH done u I).
  - destruct ok; [|exact (IH done u I)].
    destruct I as [<-|I]; [exact M|]. specialize (IH _ u I).
    unfold memp in *. rewrite existsb_app in IH. apply orb_false_iff in IH. tauto.
Qed.

(* only SetupData whose connect() returned True are set up *)
Lemma eff_subset order : forall done u, In u (eff order done) -> In (u, true) order.
Proof.
  induction order as [|[v ok] rest IH]; intros done u I; simpl in I; [destruct I|].
  destruct (memp (u_proto v) done).
  - right. exact (IH done u I).
  - destruct ok.
    + destruct I as [<-|I]; [now left|right; exact (IH _ u I)].
    + right. exact (IH done u I).
Qed.

(* the set-up unit of a protocol is unique: the units kept by eff have pairwise distinct protocols *)
Lemma eff_unit_of order : forall done u, In u (eff order done) ->
  unit_of (eff order done) (u_proto u) = Some u.
Proof.
  induction order as [|[v ok] rest IH]; intros done u I; simpl in *; [destruct I|].
  destruct (memp (u_proto v) done) eqn:M; [exact (IH done u I)|].
  destruct ok; [|exact (IH done u I)].
  unfold unit_of. simpl. destruct I as [<-|I].
  - assert (E : proto_eqb (u_proto v) (u_proto v) = true) by now apply proto_eqb_eq. now rewrite E.
  - destruct (proto_eqb (u_proto v) (u_proto u)) eqn:E.
    + apply proto_eqb_eq in E. pose proof (eff_notin_done rest _ u I) as N.
      unfold memp in N. rewrite existsb_app in N. apply orb_false_iff in N as [_ N].
      simpl in N. rewrite orb_false_r in N.
      assert (T : proto_eqb (u_proto u) (u_proto v) = true) by (apply proto_eqb_eq; now symmetry).
      rewrite T in N. discriminate.
    + exact (IH _ u I).
Qed.

Lemma unit_of_In us p u : unit_of us p = Some u -> In u us /\ u_proto u = p.
Proof.
  unfold unit_of. intro H. apply find_some in H as [I E]. split; [exact I|]. now apply proto_eqb_eq.
Qed.

(* ------------------------------------------------------------------ canonical subset *)

Lemma unit_eq_dec : forall a b : unit, {a = b} + {a <> b}.
Proof. repeat decide equality. Defined.

Definition canon (us E : list unit) : list unit :=
  filter (fun u => if in_dec unit_eq_dec u E then true else false) us.

Lemma canon_In us E u : (forall v, In v E -> In v us) -> (In u (canon us E) <-> In u E).
Proof.
  intro Sub. unfold canon. rewrite filter_In. destruct (in_dec unit_eq_dec u E) as [I|N].
  - split; [tauto|]. intros _. split; [now apply Sub|reflexivity].
  - split; [intros [_ H]; discriminate|tauto].
Qed.

Lemma existsb_canon us E g : (forall v, In v E -> In v us) ->
  existsb g (canon us E) = existsb g E.
Proof.
  intro Sub. apply eq_true_iff_eq. rewrite !existsb_exists.
  split; intros (x & I & G); exists x; (split; [|exact G]); now apply (canon_In us E x Sub).
Qed.

(* ------------------------------------------------------------------ lifting *)

Lemma reported_reportable order f :
  feature_of_units default_rt push_updates order f <> FUnsupported ->
  reportable_set (eff order []) f = true.
Proof.
  intro H. unfold feature_of_units in H. set (E := eff order []) in *.
  pose proof (feature_of_spec default_rt (ufeats E) (uhas IFeatures E) (uhas IPushUpdater E)
                              push_updates (map u_proto E) f) as S.
  unfold reportable_set.
  destruct (feature_of default_rt (ufeats E) (uhas IFeatures E) (uhas IPushUpdater E)
                       push_updates (map u_proto E) f) as [|q|].
  - destruct S as (-> & p & _ & Hp). rewrite Nat.eqb_refl. simpl.
    apply orb_true_iff. left. unfold uhas in Hp.
    destruct (unit_of E p) as [u|] eqn:U; [|discriminate].
    apply existsb_exists. exists u. split; [exact (proj1 (unit_of_In _ _ _ U))|exact Hp].
  - destruct S as (_ & Eq & _ & _). apply orb_true_iff. right.
    unfold elig, uhas, ufeats in Eq. destruct (unit_of E q) as [u|] eqn:U.
    + apply existsb_exists. exists u. split; [exact (proj1 (unit_of_In _ _ _ U))|exact Eq].
    + rewrite andb_false_l in Eq. discriminate.
  - contradiction.
Qed.

Lemma implements_units E i m p :
  implements (reg_units E i m) p =
  match unit_of E p with Some u => impl_u u i m | None => false end.
Proof.
  unfold implements, reg_units, impl_u. destruct (unit_of E p) as [u|]; [|reflexivity].
  destruct (u_iface u i); reflexivity.
Qed.

Lemma units_ok_of name us : In (name, us) profiles ->
  forall u, In u us -> u_ok u = true.
Proof.
  intros I u Iu.
  assert (A : In u all_units) by (apply in_flat_map; exists (name, us); auto).
  pose proof (proj1 (forallb_forall unit_ok all_units) gen_units_ok u A) as K.
  unfold unit_ok in K. apply andb_true_iff in K. tauto.
Qed.

Lemma units_wf name us u : In (name, us) profiles -> In u us ->
  u_ok u = true /\ forall f, In f (u_feats u) -> In f features.
Proof.
  intros I Iu.
  assert (A : In u all_units) by (apply in_flat_map; exists (name, us); auto).
  pose proof (proj1 (forallb_forall unit_ok all_units) gen_units_ok u A) as K.
  unfold unit_ok in K. apply andb_true_iff in K as [K1 K2]. split; [exact K1|].
  intros f If. apply memf_In. exact (proj1 (forallb_forall _ _) K2 f If).
Qed.

Lemma reg_units_conforming E i m : (forall u, In u E -> u_ok u = true) -> conforming (reg_units E i m).
Proof.
  intros Ok p x. unfold reg_units. destruct (unit_of E p) as [u|] eqn:U; [|discriminate].
  destruct (u_iface u i); [|discriminate]. intro H. inversion H; subst. simpl.
  rewrite (Ok u (proj1 (unit_of_In _ _ _ U))). auto.
Qed.

Lemma features_backed name us order f :
  In (name, us) profiles -> (forall u ok, In (u, ok) order -> In u us) -> In f features ->
  feature_of_units default_rt push_updates order f <> FUnsupported ->
  forall i m, In (i, m) (members_of f) ->
  (exists u, In u (eff order []) /\ impl_u u i m = true) /\
  forall ord, (forall p, In p ord) ->
    exists q u, find_instance (reg_units (eff order []) i m) ord = Routed q /\
                In u (eff order []) /\ u_proto u = q /\ impl_u u i m = true.
Proof.
  intros Ip Sub If R i m Im. set (E := eff order []) in *.
  assert (SubE : forall v, In v E -> In v us) by (intros v Iv; apply (Sub v true); exact (eff_subset _ _ _ Iv)).
  pose proof (reported_reportable order f R) as Rep. fold E in Rep.
  assert (RepC : reportable_set (canon us E) f = true).
  { unfold reportable_set in *. now rewrite !(existsb_canon us E _ SubE). }
  pose proof (check_profile_spec us (check_all_spec name us Ip) (canon us E) (filter_in_sublists _ us)
                                 f If RepC (i, m) Im) as B.
  unfold backed in B. cbn [fst snd] in B. rewrite (existsb_canon us E _ SubE) in B.
  apply existsb_exists in B as (u & Iu & Hu).
  split; [exists u; auto|].
  intros ord All.
  assert (Ex : exists p, implements (reg_units E i m) p = true).
  { exists (u_proto u). rewrite implements_units. unfold E. rewrite (eff_unit_of order [] u Iu). exact Hu. }
  assert (Ok : forall v, In v E -> u_ok v = true) by (intros v Iv; exact (units_ok_of name us Ip v (SubE v Iv))).
  destruct (routed_if_implemented _ (reg_units_conforming E i m Ok) Ex ord All) as (q & F & Iq).
  rewrite implements_units in Iq. destruct (unit_of E q) as [w|] eqn:W; [|discriminate].
  destruct (unit_of_In _ _ _ W) as [Iw Pw]. exists q, w. auto.
Qed.
