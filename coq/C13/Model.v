(* C13 - model of the features interface of the device object:

     pyatv/core/facade.py   FacadeFeatures.add_mapping / get_feature / _has_higher_priority,
                            the part of FacadeAppleTV.connect that registers the interfaces of a
                            protocol and adds its feature mapping

   parametrised by the tables (which protocol lists which feature, which protocol registers a
   Features / PushUpdater instance).  The tables of the real protocols are generated into Gen.v
   on every run.  The routing of the member a feature stands for is the model of C01
   (PV.C01.Model.find_instance).  No proofs in this file. *)
From Coq Require Import List Bool Arith.
From PV Require Import Common.Cases C01.Model.
Import ListNotations.

(* pyatv.const.FeatureName, by value *)
Definition feature := nat.

(* FacadeFeatures._feature_map, protocol part of the (protocol, instance) pair *)
Definition fmap := feature -> option proto.

Definition fupd (m : fmap) (f : feature) (p : proto) : fmap :=
  fun g => if Nat.eqb f g then Some p else m g.

(* DEFAULT_PRIORITIES.index(p); the length stands for the ValueError of a missing protocol
   (unreachable: all five protocols are in the list, a generated obligation) *)
Fixpoint idx (p : proto) (l : list proto) : nat :=
  match l with
  | [] => 0
  | q :: t => if proto_eqb q p then 0 else S (idx p t)
  end.

Definition has_higher_priority (prio : list proto) (a b : proto) : bool :=
  idx a prio <? idx b prio.

(* body of the for loop of add_mapping *)
Definition add_one (prio : list proto) (p : proto) (m : fmap) (f : feature) : fmap :=
  match m f with
  | None => fupd m f p
  | Some q => if has_higher_priority prio p q then fupd m f p else m
  end.

(* add_mapping(protocol, features): `instance = self.get(protocol); if instance:` *)
Definition add_mapping (prio : list proto) (has_inst : bool) (p : proto) (fs : list feature)
           (m : fmap) : fmap :=
  if has_inst then fold_left (add_one prio p) fs m else m.

Section Tables.
  Variable prio : list proto.                 (* DEFAULT_PRIORITIES *)
  Variable feats : proto -> list feature.     (* SetupData.features *)
  Variable has_features : proto -> bool.      (* a truthy Features instance is registered *)
  Variable has_push : proto -> bool.          (* a PushUpdater instance is registered *)

  Definition memp (p : proto) (l : list proto) : bool := existsb (proto_eqb p) l.

  (* the while loop of FacadeAppleTV.connect over the protocols whose connect() succeeded, in the
     order they were added; a protocol that is already set up is ignored *)
  Fixpoint connect_loop (order done : list proto) (m : fmap) : fmap * list proto :=
    match order with
    | [] => (m, done)
    | p :: rest =>
        if memp p done then connect_loop rest done m
        else connect_loop rest (done ++ [p]) (add_mapping prio (has_features p) p (feats p) m)
    end.

  Definition connect (order : list proto) : fmap * list proto := connect_loop order [] (fun _ => None).

  (* Relayer.count of the push updater relayer *)
  Definition pu_count (done : list proto) : nat := length (filter has_push done).

  Inductive fres :=
    | FAvailable            (* PushUpdates special case *)
    | FAsk (p : proto)      (* whatever the Features instance of p reports *)
    | FUnsupported.

  Definition get_feature (push_updates : feature) (m : fmap) (count : nat) (f : feature) : fres :=
    if Nat.eqb f push_updates && (1 <=? count) then FAvailable
    else match m f with
         | Some p => FAsk p
         | None => FUnsupported
         end.

  (* what the features interface answers for f after connecting `order` *)
  Definition feature_of (push_updates : feature) (order : list proto) (f : feature) : fres :=
    let '(m, done) := connect order in get_feature push_updates m (pu_count done) f.
End Tables.

Definition fres_eqb (a b : fres) : bool :=
  match a, b with
  | FAvailable, FAvailable | FUnsupported, FUnsupported => true
  | FAsk p, FAsk q => proto_eqb p q
  | _, _ => false
  end.

(* correspondence with arbitrary tables, seen through ONE feature f:
   (priority list, f, index of PushUpdates, connect order,
    per protocol: lists f / registers truthy Features / registers PushUpdater, observation) *)
Definition bits_of (l : list (proto * (bool * bool * bool))) (p : proto) : bool * bool * bool :=
  match find (fun e => proto_eqb (fst e) p) l with
  | Some (_, b) => b
  | None => (false, false, false)
  end.

Definition check_feature
  (c : list proto * feature * feature * list proto * list (proto * (bool * bool * bool)) * fres) : bool :=
  let '(prio, f, pu, order, tbl, obs) := c in
  fres_eqb (feature_of prio
              (fun p => if fst (fst (bits_of tbl p)) then [f] else [])
              (fun p => snd (fst (bits_of tbl p)))
              (fun p => snd (bits_of tbl p))
              pu order f) obs.

(* ------------------------------------------------------------------ units and device profiles

   What a protocol registers can depend on the service's properties and on the settings (device
   model, OS version, AirPlay feature flags, kind of credentials, the AirPlay->MRP tunnel), and
   one setup() can yield several SetupData (AirPlay yields RAOP for unified advertisers and MRP
   through the tunnel).  A `unit` is ONE yielded SetupData as it is under one device profile. *)
From Coq Require Import String.

Record unit := {
  u_id : nat;                                  (* position in the profile's table *)
  u_src : proto;                               (* the protocol whose setup() yielded it *)
  u_proto : proto;                             (* SetupData.protocol *)
  u_feats : list feature;                      (* SetupData.features *)
  u_impl : list (iface * list string);         (* SetupData.interfaces: members the class overrides *)
  u_ok : bool                                  (* every registered object is truthy and an instance of its base *)
}.

Definition u_iface (u : unit) (i : iface) : option (list string) :=
  match find (fun e => iface_eqb (fst e) i) (u_impl u) with
  | Some (_, ms) => Some ms
  | None => None
  end.

Definition u_has (u : unit) (i : iface) : bool :=
  match u_iface u i with Some _ => true | None => false end.

(* the class the unit registers for interface i overrides member m *)
Definition impl_u (u : unit) (i : iface) (m : string) : bool :=
  match u_iface u i with
  | Some ms => existsb (String.eqb m) ms
  | None => false
  end.

(* FacadeAppleTV.connect over the added SetupData, each with what its connect() returned:
   `if setup_data.protocol in self._protocol_handlers: continue` - of several SetupData for the
   same protocol only the first CONNECTED one is set up; `if await setup_data.connect():` - a
   SetupData whose connect() returned False registers nothing, maps no feature, and leaves the
   protocol un-handled *)
Fixpoint eff (order : list (unit * bool)) (done : list proto) : list unit :=
  match order with
  | [] => []
  | (u, ok) :: rest =>
      if memp (u_proto u) done then eff rest done
      else if ok then u :: eff rest (done ++ [u_proto u])
      else eff rest done
  end.

Definition unit_of (us : list unit) (p : proto) : option unit :=
  find (fun u => proto_eqb (u_proto u) p) us.

Definition ufeats (us : list unit) (p : proto) : list feature :=
  match unit_of us p with Some u => u_feats u | None => [] end.
Definition uhas (i : iface) (us : list unit) (p : proto) : bool :=
  match unit_of us p with Some u => u_has u i | None => false end.

(* what the features interface answers after the SetupData `order` were added and connected *)
Definition feature_of_units (prio : list proto) (push_updates : feature) (order : list (unit * bool))
           (f : feature) : fres :=
  let us := eff order [] in
  feature_of prio (ufeats us) (uhas IFeatures us) (uhas IPushUpdater us) push_updates
             (map u_proto us) f.

(* the registration the set-up units produce for member m of interface i *)
Definition reg_units (us : list unit) (i : iface) (m : string) : registry :=
  fun p =>
    match unit_of us p with
    | Some u =>
        match u_iface u i with
        | Some ms => Some {| truthy := u_ok u; has_attr := u_ok u; overrides := existsb (String.eqb m) ms |}
        | None => None
        end
    | None => None
    end.
