(* C13 - property theorems only.  The tables (Gen.profiles: one table set per device profile,
   Gen.feature_members, Gen.all_features, Gen.default_rt) are regenerated from the source on
   every run and the theorems are re-proved against them. *)
From Coq Require Import List Bool Arith String.
From PV Require Import Common.Cases C01.Model C01.Spec C01.Proofs C13.Model C13.Proofs C13.Gen C13.ProofsGen.
Import ListNotations.

(* The property.  For EVERY device profile (14: Apple TV generations, HomePods, AirPort Express,
   third-party speaker, Mac; OS versions, AirPlay feature-flag variants, kinds of credentials,
   AirPlay->MRP tunnel auto/forced/disabled), EVERY list `order` of SetupData yielded by the
   real setup() generators under that profile, EACH WITH ANY OUTCOME of its connect() (any subset,
   any order; of several SetupData for one protocol the first that connected is set up, one whose
   connect() returned False contributes nothing, as connect() does) and EVERY feature name f: if the features
   interface answers anything else than Unsupported - whatever the dynamic state of the protocol
   that is asked - then every interface member f stands for is overridden by the class some set-up
   SetupData registered, and the relayer routes a call of that member to such a protocol for every
   complete priority order (a takeover only prepends to the order).
   Finite core: all profiles x all subsets of the yielded SetupData x all feature names, decided
   by vm_compute (check_all_true). *)
Theorem C13_features_backed : forall name us order f,
  In (name, us) profiles -> (forall u ok, In (u, ok) order -> In u us) -> In f features ->
  feature_of_units default_rt push_updates order f <> FUnsupported ->
  forall i m, In (i, m) (members_of f) ->
  (exists u, In u (eff order []) /\ impl_u u i m = true) /\
  forall ord, (forall p, In p ord) ->
    exists q u, find_instance (reg_units (eff order []) i m) ord = Routed q /\
                In u (eff order []) /\ u_proto u = q /\ impl_u u i m = true.
Proof. exact features_backed. Qed.
Print Assumptions C13_features_backed.

(* the finite statement itself, bounds visible: the 14 base profiles plus at most 50 single-key
   variations of the service properties (those that change what a setup() yields), under each at most 8 yielded
   SetupData hence at most 256 subsets (the sets of the five protocols are among them), every
   feature name *)
Theorem C13_all_subsets_all_features :
  14 <= List.length profiles <= 64 /\
  forall name us, In (name, us) profiles ->
    List.length us <= 8 /\
    forall S, In S (sublists us) -> forall f, In f features ->
      reportable_set S f = true -> forall im, In im (members_of f) -> backed S im = true.
Proof.
  split; [exact profiles_count|]. intros name us I. split; [exact (units_bound name us I)|].
  exact (check_profile_spec us (check_all_spec name us I)).
Qed.
Print Assumptions C13_all_subsets_all_features.

(* What get_feature answers, for ARBITRARY tables and any connect order: Available for
   PushUpdates iff some connected protocol has a push updater; otherwise it asks the connected
   protocol of highest priority among those that list the feature; Unsupported iff no connected
   protocol lists it (nothing outside the map is ever reported). *)
Theorem C13_feature_answer : forall prio feats has_features has_push pu order f,
  match feature_of prio feats has_features has_push pu order f with
  | FAvailable => f = pu /\ exists p, In p order /\ has_push p = true
  | FAsk q => In q order /\ elig feats has_features q f = true /\
              (forall q', In q' order -> elig feats has_features q' f = true -> idx q prio <= idx q' prio) /\
              (f = pu -> forall p, In p order -> has_push p = false)
  | FUnsupported => (forall q', In q' order -> elig feats has_features q' f = false) /\
                    (f = pu -> forall p, In p order -> has_push p = false)
  end.
Proof. exact feature_of_spec. Qed.
Print Assumptions C13_feature_answer.

(* The answer depends only on which protocols are connected, not on the order of connecting. *)
Theorem C13_order_independent : forall prio feats has_features has_push pu o1 o2 f,
  (forall p, In p prio) -> (forall p, In p o1 <-> In p o2) ->
  feature_of prio feats has_features has_push pu o1 f =
  feature_of prio feats has_features has_push pu o2 f.
Proof. exact feature_of_order_independent. Qed.
Print Assumptions C13_order_independent.

(* Of several SetupData for the same protocol exactly one is set up - one whose connect() returned
   True - so "the unit of a protocol" is well defined for every order and every connect outcome;
   a SetupData that did not connect never answers a feature query nor executes a call. *)
Theorem C13_one_unit_per_protocol : forall order u, In u (eff order []) ->
  In (u, true) order /\ unit_of (eff order []) (u_proto u) = Some u.
Proof. intros order u I. split; [exact (eff_subset order [] u I)|exact (eff_unit_of order [] u I)]. Qed.
Print Assumptions C13_one_unit_per_protocol.

(* The generated tables are well formed: the priority list is the documented one (so complete),
   every feature name stands for at least one member, every listed feature is a feature name and
   every registered object is a truthy instance of its base interface - under every profile. *)
Theorem C13_generated_tables :
  (default_ast = text_default /\ default_rt = text_default) /\
  (forall f, In f features -> members_of f <> []) /\
  (forall name us u, In (name, us) profiles -> In u us ->
     u_ok u = true /\ forall f, In f (u_feats u) -> In f features).
Proof.
  split; [exact gen_prio|]. split.
  - intros f If E. pose proof (proj1 (forallb_forall _ _) gen_members_nonempty f If) as H.
    cbv beta in H. rewrite E in H. discriminate.
  - exact units_wf.
Qed.
Print Assumptions C13_generated_tables.

(* Non-vacuity: under some profile a feature IS reported for a concrete set of units and is
   not for a smaller one; the tunnel profiles really contain an MRP unit yielded by AirPlay. *)
Example C13_ex_reported :
  existsb (fun pr => reportable_set (snd pr) push_updates && negb (reportable_set [] push_updates)
                     && negb (reportable_set (firstn 1 (snd pr)) 38)) profiles = true.
Proof. vm_compute. reflexivity. Qed.

Example C13_ex_tunnel :
  existsb (fun pr => existsb (fun u => proto_eqb (u_src u) AirPlay && proto_eqb (u_proto u) MRP) (snd pr)) profiles = true.
Proof. vm_compute. reflexivity. Qed.
