(* C13 - property theorems only.  The tables (Gen.feats, Gen.has_features, Gen.has_push,
   Gen.real_impl, Gen.feature_members, Gen.all_features, Gen.default_rt) are regenerated from the
   source on every run and the theorems are re-proved against them. *)
From Coq Require Import List Bool Arith String.
From PV Require Import Common.Cases C01.Model C01.Spec C01.Proofs C13.Model C13.Proofs C13.Gen C13.ProofsGen.
Import ListNotations.

(* The property.  For EVERY list `order` of connected protocols (any subset of the five, in any
   connect order, duplicates ignored as connect() does) and EVERY feature name f: if the features
   interface of the device answers anything else than Unsupported - whatever the dynamic state of
   the protocol that is asked - then every interface member f stands for is overridden by the
   class some connected protocol registered, and the relayer routes a call of that member to such
   a protocol for every complete priority order (a takeover only prepends to the order): it
   cannot fail with "not supported" because nothing implements it.
   Finite core: all 32 subsets x all feature names, decided by vm_compute (check_all_true). *)
Theorem C13_features_backed : forall order f, In f features ->
  feature_of default_rt feats has_features has_push push_updates order f <> FUnsupported ->
  forall i m, In (i, m) (members_of f) ->
  (exists p, In p order /\ impl_b p i m = true) /\
  forall ord, (forall p, In p ord) ->
    exists q, find_instance (real_reg order i m) ord = Routed q /\ In q order /\ impl_b q i m = true.
Proof. exact features_backed. Qed.
Print Assumptions C13_features_backed.

(* the finite statement itself, bound visible: 32 subsets (the 31 non-empty ones and the empty
   one) x every feature name *)
Theorem C13_all_subsets_all_features :
  List.length (sublists all_protos) = 32 /\
  forall S, In S (sublists all_protos) -> forall f, In f features ->
    reportable_set S f = true -> forall im, In im (members_of f) -> backed S im = true.
Proof.
  split; [reflexivity|]. intros S IS f If R im Im.
  pose proof check_all_true as C. unfold check_all in C.
  pose proof (proj1 (forallb_forall _ _) C S IS) as C1. cbv beta in C1.
  pose proof (proj1 (forallb_forall _ _) C1 f If) as C2. cbv beta in C2. rewrite R in C2.
  exact (proj1 (forallb_forall _ _) C2 im Im).
Qed.
Print Assumptions C13_all_subsets_all_features.

(* What get_feature answers, for ARBITRARY tables and any connect order: Available for
   PushUpdates iff some connected protocol has a push updater; otherwise it asks the connected
   protocol of highest priority among those that list the feature; Unsupported iff no connected
   protocol lists it (nothing outside the map is ever reported). *)
Theorem C13_feature_answer : forall prio feats has_features has_push pu order f,
  match feature_of prio feats has_features has_push pu order f with
  | FAvailable => f = pu /\ exists p, In p order /\ has_push p = true
  | FAsk q => In q order /\ elig feats has_features q f = true /\
              (forall q', In q' order -> elig feats has_features q' f = true -> idx q prio <= idx q' prio) /\
              (f = pu -> forall p, In p order -> has_push p = false)
  | FUnsupported => (forall q', In q' order -> elig feats has_features q' f = false) /\
                    (f = pu -> forall p, In p order -> has_push p = false)
  end.
Proof. exact feature_of_spec. Qed.
Print Assumptions C13_feature_answer.

(* The answer depends only on which protocols are connected, not on the order of connecting. *)
Theorem C13_order_independent : forall prio feats has_features has_push pu o1 o2 f,
  (forall p, In p prio) -> (forall p, In p o1 <-> In p o2) ->
  feature_of prio feats has_features has_push pu o1 f =
  feature_of prio feats has_features has_push pu o2 f.
Proof. exact feature_of_order_independent. Qed.
Print Assumptions C13_order_independent.

(* The generated tables are well formed: the priority list is the documented one (so complete),
   every feature name stands for at least one member, every listed feature is a feature name,
   every registered object is a truthy instance of its base interface. *)
Theorem C13_generated_tables :
  (default_ast = text_default /\ default_rt = text_default) /\
  (forall f, In f features -> members_of f <> []) /\
  (forall p f, In f (feats p) -> In f features) /\
  real_truthy && real_subclass = true.
Proof.
  split; [exact gen_prio|]. split.
  - intros f If E. pose proof (proj1 (forallb_forall _ _) gen_members_nonempty f If) as H.
    cbv beta in H. rewrite E in H. discriminate.
  - split; [|exact gen_real_conforming]. intros p f If.
    assert (Ip : In p all_protos) by (destruct p; simpl; tauto).
    pose proof (proj1 (forallb_forall _ _) gen_feats_known p Ip) as H.
    apply memf_In. exact (proj1 (forallb_forall _ _) H f If).
Qed.
Print Assumptions C13_generated_tables.

(* Non-vacuity: a feature that IS reported for a concrete set, and one that is not. *)
Example C13_ex_reported :
  exists f, In f features /\ reportable_set [AirPlay; RAOP] f = true /\ reportable_set [AirPlay] f = false.
Proof. exists push_updates. vm_compute. repeat split. tauto. Qed.
