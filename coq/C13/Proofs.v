(* C13 - general lemmas about add_mapping / connect / get_feature, for ARBITRARY tables. *)
From Coq Require Import List Bool Arith Lia.
From PV Require Import Common.Cases C01.Model C01.Spec C01.Proofs C13.Model.
Import ListNotations.

Definition memf (f : feature) (l : list feature) : bool := existsb (Nat.eqb f) l.

Lemma memp_In p l : memp p l = true <-> In p l.
Proof.
  unfold memp. rewrite existsb_exists. split.
  - intros (q & I & E). apply proto_eqb_eq in E. now subst.
  - intro I. exists p. split; [exact I|now apply proto_eqb_eq].
Qed.

Lemma memf_In f l : memf f l = true <-> In f l.
Proof.
  unfold memf. rewrite existsb_exists. split.
  - intros (g & I & E). apply Nat.eqb_eq in E. now subst.
  - intro I. exists f. split; [exact I|apply Nat.eqb_refl].
Qed.

Section T.
  Variable prio : list proto.
  Variable feats : proto -> list feature.
  Variable has_features : proto -> bool.
  Variable has_push : proto -> bool.

  (* p offers f to the features interface *)
  Definition elig (p : proto) (f : feature) : bool := has_features p && memf f (feats p).

  (* the new owner of one feature when p's mapping is added *)
  Definition add_val (p : proto) (cur : option proto) : option proto :=
    match cur with
    | None => Some p
    | Some q => if has_higher_priority prio p q then Some p else Some q
    end.

  Lemma add_one_at p m f g :
    add_one prio p m f g = if Nat.eqb f g then add_val p (m f) else m g.
  Proof.
    unfold add_one, add_val, fupd. destruct (m f) as [q|] eqn:E.
    - destruct (has_higher_priority prio p q); destruct (Nat.eqb f g) eqn:Efg; try reflexivity.
      apply Nat.eqb_eq in Efg. subst. now rewrite E.
    - reflexivity.
  Qed.

  Lemma add_val_idem p c : add_val p (add_val p c) = add_val p c.
  Proof.
    unfold add_val. destruct c as [q|].
    - destruct (has_higher_priority prio p q) eqn:H.
      + unfold has_higher_priority. now rewrite Nat.ltb_irrefl.
      + now rewrite H.
    - unfold has_higher_priority. now rewrite Nat.ltb_irrefl.
  Qed.

  Lemma fold_add_one p : forall fs m f,
    fold_left (add_one prio p) fs m f = if memf f fs then add_val p (m f) else m f.
  Proof.
    induction fs as [|g t IH]; intros m f; simpl; [reflexivity|].
    rewrite IH. rewrite !add_one_at. rewrite (Nat.eqb_sym f g).
    destruct (Nat.eqb g f) eqn:E; simpl.
    - apply Nat.eqb_eq in E. subst. rewrite add_val_idem. now destruct (memf f t).
    - reflexivity.
  Qed.

  Lemma add_mapping_at p m f :
    add_mapping prio (has_features p) p (feats p) m f = if elig p f then add_val p (m f) else m f.
  Proof.
    unfold add_mapping, elig. destruct (has_features p); simpl; [apply fold_add_one|reflexivity].
  Qed.

  (* the owner of every feature is a connected protocol offering it, of minimal index in the
     priority list among those; no owner iff no connected protocol offers it *)
  Definition inv (m : fmap) (done : list proto) : Prop :=
    forall f,
      match m f with
      | Some q => In q done /\ elig q f = true /\
                  forall q', In q' done -> elig q' f = true -> idx q prio <= idx q' prio
      | None => forall q', In q' done -> elig q' f = false
      end.

  Lemma inv_step m done p : inv m done ->
    inv (add_mapping prio (has_features p) p (feats p) m) (done ++ [p]).
  Proof.
    intros I f. rewrite add_mapping_at. specialize (I f). destruct (elig p f) eqn:Ep.
    - unfold add_val. destruct (m f) as [q|].
      + destruct I as (Iq & Eq & Min). unfold has_higher_priority.
        destruct (idx p prio <? idx q prio) eqn:Lt.
        * apply Nat.ltb_lt in Lt. split; [apply in_or_app; right; now left|]. split; [exact Ep|].
          intros q' Hq' Eq'. apply in_app_or in Hq' as [Hq'|[<-|[]]]; [|lia].
          specialize (Min q' Hq' Eq'). lia.
        * apply Nat.ltb_ge in Lt. split; [apply in_or_app; now left|]. split; [exact Eq|].
          intros q' Hq' Eq'. apply in_app_or in Hq' as [Hq'|[<-|[]]]; [now apply Min|exact Lt].
      + split; [apply in_or_app; right; now left|]. split; [exact Ep|].
        intros q' Hq' Eq'. apply in_app_or in Hq' as [Hq'|[<-|[]]]; [|lia].
        rewrite (I q' Hq') in Eq'. discriminate.
    - destruct (m f) as [q|].
      + destruct I as (Iq & Eq & Min). split; [apply in_or_app; now left|]. split; [exact Eq|].
        intros q' Hq' Eq'. apply in_app_or in Hq' as [Hq'|[<-|[]]]; [now apply Min|].
        rewrite Ep in Eq'. discriminate.
      + intros q' Hq'. apply in_app_or in Hq' as [Hq'|[<-|[]]]; [now apply I|exact Ep].
  Qed.

  Lemma connect_loop_spec order : forall done m m' done',
    connect_loop prio feats has_features order done m = (m', done') ->
    inv m done ->
    inv m' done' /\ forall p, In p done' <-> In p done \/ In p order.
  Proof.
    induction order as [|p rest IH]; intros done m m' done' H I; simpl in H.
    - inversion H; subst. split; [exact I|]. intro p. simpl. tauto.
    - destruct (Model.memp p done) eqn:M.
      + destruct (IH _ _ _ _ H I) as [I' S]. split; [exact I'|]. intro q. rewrite S. simpl.
        apply memp_In in M. split; [tauto|]. intros [A|[<-|B]]; tauto.
      + destruct (IH _ _ _ _ H (inv_step m done p I)) as [I' S]. split; [exact I'|].
        intro q. rewrite S, in_app_iff. simpl. tauto.
  Qed.

  Lemma connect_spec order m done :
    connect prio feats has_features order = (m, done) ->
    inv m order /\ forall p, In p done <-> In p order.
  Proof.
    intro H. unfold connect in H.
    destruct (connect_loop_spec order [] (fun _ => None) m done H) as [I S].
    - intros f q' [].
    - assert (E : forall p, In p done <-> In p order) by (intro p; rewrite S; simpl; tauto).
      split; [|exact E]. intro f. specialize (I f). destruct (m f) as [q|].
      + destruct I as (A & B & C). split; [now apply E|]. split; [exact B|].
        intros q' Hq'. apply C. now apply E.
      + intros q' Hq'. apply I. now apply E.
  Qed.

  Lemma pu_count_pos done : 1 <= pu_count has_push done <-> exists p, In p done /\ has_push p = true.
  Proof.
    unfold pu_count. split.
    - destruct (filter has_push done) as [|p t] eqn:E; simpl; [lia|]. intros _.
      assert (I : In p (filter has_push done)) by (rewrite E; now left).
      apply filter_In in I. now exists p.
    - intros (p & I & H). assert (J : In p (filter has_push done)) by (apply filter_In; auto).
      destruct (filter has_push done); [destruct J|simpl; lia].
  Qed.

  (* what the features interface can answer, for any connect order *)
  Lemma feature_of_spec pu order f :
    match feature_of prio feats has_features has_push pu order f with
    | FAvailable => f = pu /\ exists p, In p order /\ has_push p = true
    | FAsk q => In q order /\ elig q f = true /\
                (forall q', In q' order -> elig q' f = true -> idx q prio <= idx q' prio) /\
                (f = pu -> forall p, In p order -> has_push p = false)
    | FUnsupported => (forall q', In q' order -> elig q' f = false) /\
                      (f = pu -> forall p, In p order -> has_push p = false)
    end.
  Proof.
    unfold feature_of. destruct (connect prio feats has_features order) as [m done] eqn:C.
    destruct (connect_spec order m done C) as [I S]. unfold get_feature.
    destruct (Nat.eqb f pu && (1 <=? pu_count has_push done)) eqn:G.
    - apply andb_true_iff in G as [G1 G2]. apply Nat.eqb_eq in G1. apply Nat.leb_le in G2.
      split; [exact G1|]. apply pu_count_pos in G2 as (p & Ip & Hp). exists p. split; [now apply S|exact Hp].
    - assert (NP : f = pu -> forall p, In p order -> has_push p = false).
      2:{ specialize (I f). destruct (m f) as [q|]; [|split; [exact I|exact NP]].
          destruct I as (A & B & C0). auto. }
      intros -> p Ip. rewrite Nat.eqb_refl, andb_true_l in G. apply Nat.leb_gt in G.
      destruct (has_push p) eqn:Hp; [|reflexivity].
      assert (1 <= pu_count has_push done) by (apply pu_count_pos; exists p; split; [now apply S|exact Hp]). lia.
  Qed.

  Lemma idx_inj : forall l a b, In a l -> idx a l = idx b l -> a = b.
  Proof.
    induction l as [|q t IH]; intros a b Ia E; [destruct Ia|]. simpl in E.
    destruct (proto_eqb q a) eqn:Ea; destruct (proto_eqb q b) eqn:Eb; try discriminate.
    - apply proto_eqb_eq in Ea, Eb. congruence.
    - destruct Ia as [->|Ia].
      + assert (proto_eqb a a = true) by now apply proto_eqb_eq. congruence.
      + apply IH; [exact Ia|]. now inversion E.
  Qed.

  (* the answer depends only on WHICH protocols are connected, not on the order *)
  Lemma feature_of_order_independent pu o1 o2 f :
    (forall p, In p prio) -> (forall p, In p o1 <-> In p o2) ->
    feature_of prio feats has_features has_push pu o1 f =
    feature_of prio feats has_features has_push pu o2 f.
  Proof.
    intros All Same.
    pose proof (feature_of_spec pu o1 f) as S1. pose proof (feature_of_spec pu o2 f) as S2.
    destruct (feature_of prio feats has_features has_push pu o1 f) as [|q1|];
      destruct (feature_of prio feats has_features has_push pu o2 f) as [|q2|]; try reflexivity.
    - destruct S1 as (E & p & Ip & Hp). destruct S2 as (_ & _ & _ & N).
      rewrite (N E p (proj1 (Same p) Ip)) in Hp. discriminate.
    - destruct S1 as (E & p & Ip & Hp). destruct S2 as (_ & N).
      rewrite (N E p (proj1 (Same p) Ip)) in Hp. discriminate.
    - destruct S2 as (E & p & Ip & Hp). destruct S1 as (_ & _ & _ & N).
      rewrite (N E p (proj2 (Same p) Ip)) in Hp. discriminate.
    - destruct S1 as (I1 & E1 & M1 & _). destruct S2 as (I2 & E2 & M2 & _).
      f_equal. apply (idx_inj prio q1 q2 (All q1)).
      pose proof (M1 q2 (proj2 (Same q2) I2) E2). pose proof (M2 q1 (proj1 (Same q1) I1) E1). lia.
    - destruct S1 as (I1 & E1 & _). destruct S2 as (N & _).
      rewrite (N q1 (proj1 (Same q1) I1)) in E1. discriminate.
    - destruct S2 as (E & p & Ip & Hp). destruct S1 as (_ & N).
      rewrite (N E p (proj2 (Same p) Ip)) in Hp. discriminate.
    - destruct S2 as (I2 & E2 & _). destruct S1 as (N & _).
      rewrite (N q2 (proj2 (Same q2) I2)) in E2. discriminate.
  Qed.
End T.

(* ------------------------------------------------------------------ subsets *)

Fixpoint sublists {A} (l : list A) : list (list A) :=
  match l with
  | [] => [[]]
  | x :: t => map (cons x) (sublists t) ++ sublists t
  end.

Lemma filter_in_sublists {A} (g : A -> bool) (l : list A) : In (filter g l) (sublists l).
Proof.
  induction l as [|x t IH]; simpl; [now left|].
  apply in_or_app. destruct (g x); [left; now apply in_map|now right].
Qed.

(* the connected set in canonical order *)
Definition canon (order : list proto) : list proto := filter (fun p => memp p order) all_protos.

Lemma canon_In order p : In p (canon order) <-> In p order.
Proof.
  unfold canon. rewrite filter_In, memp_In. split; [tauto|]. intro I. split; [|exact I].
  destruct p; simpl; tauto.
Qed.

Lemma canon_in_sublists order : In (canon order) (sublists all_protos).
Proof. apply filter_in_sublists. Qed.

(* ------------------------------------------------------------------ routing of the member *)

Lemma find_exists {A} (g : A -> bool) l :
  (exists x, In x l /\ g x = true) -> exists y, find g l = Some y /\ g y = true.
Proof.
  intros (x & I & G). destruct (find g l) as [y|] eqn:F.
  - exists y. split; [reflexivity|]. now apply find_some in F.
  - rewrite (find_none _ _ F x I) in G. discriminate.
Qed.

(* if some protocol implements the member, then with every complete order - and whatever the
   takeover state, which only prepends to it - the call is routed to an implementing protocol *)
Lemma routed_if_implemented reg : conforming reg ->
  (exists p, implements reg p = true) ->
  forall ord, (forall p, In p ord) ->
  exists q, find_instance reg ord = Routed q /\ implements reg q = true.
Proof.
  intros C (p & Ip) ord All. rewrite (find_conforming reg ord C).
  destruct (find_exists (implements reg) ord) as (q & F & Iq); [exists p; auto|].
  exists q. now rewrite F.
Qed.
