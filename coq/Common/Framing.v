(* Generic segmentation law for "accumulate, then parse one frame at a time" receive loops.
   Used by C02, C05 and C07. *)
From Coq Require Import List Arith Lia.
Import ListNotations.


Section Framing.
Variables (B S M E : Type).
Notation bytes := (list B).

Inductive step := Need | Fail (e : E) | Frame (m : M) (s' : S) (rest : bytes).
Variable p1 : S -> bytes -> step.

Hypothesis stable : forall s x m s' r y, p1 s x = Frame m s' r -> p1 s (x ++ y) = Frame m s' (r ++ y).
Hypothesis progress : forall s x m s' r, p1 s x = Frame m s' r -> length r < length x.
(* if the whole does not fail, no prefix fails *)
Hypothesis failpfx : forall s x y e, p1 s x = Fail e -> exists e', p1 s (x ++ y) = Fail e'.

Inductive res := Out (ms : list M) (s : S) (buf : bytes) | Failed (ms : list M) (e : E) | OutOfFuel.

Fixpoint drain (fuel : nat) (s : S) (buf : bytes) : res :=
  match fuel with
  | O => match buf with [] => Out [] s [] | _ => OutOfFuel end
  | Datatypes.S f =>
    match buf with
    | [] => Out [] s []
    | _ => match p1 s buf with
           | Need => Out [] s buf
           | Fail e => Failed [] e
           | Frame m s' r =>
             match drain f s' r with
             | Out ms s2 b2 => Out (m :: ms) s2 b2
             | Failed ms e => Failed (m :: ms) e
             | OutOfFuel => OutOfFuel
             end
           end
    end
  end.

Lemma drain_fuel : forall fuel s buf, length buf <= fuel -> drain fuel s buf <> OutOfFuel.
Proof.
  induction fuel as [|f IH]; intros s buf Hl.
  - destruct buf; simpl in *; [discriminate | lia].
  - simpl. destruct buf as [|b bs] eqn:Eb; [discriminate|].
    rewrite <- Eb in *. destruct (p1 s buf) eqn:Ep; try discriminate.
    apply progress in Ep.
    specialize (IH s' rest ltac:(lia)).
    destruct (drain f s' rest); congruence.
Qed.

Lemma drain_fuel_irrel : forall f1 f2 s buf, length buf <= f1 -> length buf <= f2 -> drain f1 s buf = drain f2 s buf.
Proof.
  induction f1 as [|f1 IH]; intros f2 s buf H1 H2.
  - destruct buf; simpl in *; [|lia]. destruct f2; reflexivity.
  - destruct f2 as [|f2].
    + destruct buf; simpl in *; [reflexivity|lia].
    + simpl. destruct buf as [|b bs] eqn:Eb; [reflexivity|]. rewrite <- Eb in *.
      destruct (p1 s buf) eqn:Ep; try reflexivity.
      apply progress in Ep. rewrite (IH f2 s' rest) by lia. reflexivity.
Qed.

Definition run s buf := drain (length buf) s buf.

(* key incremental law *)
Lemma run_app : forall n s x y, length x <= n ->
  (forall ms e, run s (x ++ y) <> Failed ms e) ->
  match run s x with
  | Out ms s1 r =>
      match run s1 (r ++ y) with
      | Out ms' s2 r' => run s (x ++ y) = Out (ms ++ ms') s2 r'
      | _ => False
      end
  | _ => False
  end.
Proof.
  induction n as [|n IH]; intros s x y Hn Hnf.
  - destruct x; simpl in Hn; [|lia]. unfold run at 1. simpl.
    simpl in *. destruct (run s y) eqn:Er.
    + reflexivity.
    + eapply Hnf; eauto.
    + unfold run in Er. eapply drain_fuel in Er; [auto|lia].
  - destruct x as [|b bs] eqn:Ex.
    + unfold run at 1. simpl. destruct (run s y) eqn:Er.
      * reflexivity.
      * eapply Hnf; eauto.
      * unfold run in Er. eapply drain_fuel in Er; [auto|lia].
    + rewrite <- Ex in *. assert (Hx: x <> []) by (subst; discriminate).
      unfold run at 1. destruct (length x) as [|lx] eqn:El; [destruct x; simpl in *; congruence|].
      cbn [drain]. destruct x as [|b0 x0] eqn:Ex2; [congruence|]. rewrite <- Ex2 in *.
      destruct (p1 s x) eqn:Ep.
      * (* Need: run s x = Out [] s x *)
        destruct (run s (x ++ y)) eqn:Er; simpl.
        -- reflexivity.
        -- eapply Hnf; eauto.
        -- unfold run in Er. eapply drain_fuel in Er; [auto|lia].
      * destruct (failpfx _ _ y _ Ep) as [e' He'].
        exfalso. unfold run in Hnf.
        destruct (x ++ y) as [|c cs] eqn:Exy; [destruct x; simpl in *; congruence|].
        rewrite <- Exy in *.
        assert (length (x ++ y) = Datatypes.S (length cs)) by (rewrite Exy; reflexivity).
        rewrite H in Hnf. cbn [drain] in Hnf. rewrite Exy in Hnf. rewrite <- Exy in Hnf.
        rewrite He' in Hnf. eapply Hnf; eauto.
      * pose proof (progress _ _ _ _ _ Ep) as Hp.
        pose proof (stable _ _ _ _ _ y Ep) as Hs.
        (* relate run s (x++y) to run s' (rest ++ y) *)
        assert (Hrun: run s (x ++ y) =
                match run s' (rest ++ y) with
                | Out ms s2 b2 => Out (m :: ms) s2 b2
                | Failed ms e => Failed (m :: ms) e
                | OutOfFuel => OutOfFuel end).
        { unfold run. destruct (x ++ y) as [|c cs] eqn:Exy; [destruct x; simpl in *; congruence|].
          rewrite <- Exy in *.
          assert (Hl: length (x ++ y) = Datatypes.S (length cs)) by (rewrite Exy; reflexivity).
          rewrite Hl. cbn [drain]. rewrite Exy. rewrite <- Exy. rewrite Hs.
          assert (length (rest ++ y) <= length cs).
          { rewrite app_length in *. lia. }
          rewrite (drain_fuel_irrel (length cs) (length (rest ++ y)) s' (rest ++ y)) by lia.
          reflexivity. }
        assert (Hnf': forall ms e, run s' (rest ++ y) <> Failed ms e).
        { intros ms e Hc. rewrite Hc in Hrun. eapply Hnf; eauto. }
        specialize (IH s' rest y ltac:(lia) Hnf').
        assert (Hd: drain lx s' rest = run s' rest).
        { unfold run. apply drain_fuel_irrel; lia. }
        rewrite Hd.
        destruct (run s' rest) eqn:Er1; try contradiction.
        destruct (run s0 (buf ++ y)) eqn:Er2; try contradiction.
        rewrite Hrun, IH. reflexivity.
Qed.



(* The residual buffer of a run holds no further complete frame. *)
Lemma drain_residual : forall fuel s x ms s1 r,
  drain fuel s x = Out ms s1 r -> run s1 r = Out [] s1 r.
Proof.
  induction fuel as [|f IH]; intros s x ms s1 r H.
  - destruct x; simpl in H; [|discriminate]. inversion H; subst. reflexivity.
  - simpl in H. destruct x as [|b bs] eqn:Ex.
    + inversion H; subst. reflexivity.
    + rewrite <- Ex in *. destruct (p1 s x) eqn:Ep.
      * injection H as Hm Hs Hr. rewrite <- Hs, <- Hr. unfold run. rewrite Ex. cbn [length drain]. rewrite <- Ex. rewrite Ep. reflexivity.
      * discriminate.
      * destruct (drain f s' rest) eqn:Ed; try discriminate. inversion H; subst.
        eapply IH; eauto.
Qed.

Lemma run_residual s x ms s1 r : run s x = Out ms s1 r -> run s1 r = Out [] s1 r.
Proof. apply drain_residual. Qed.

(* Feeding the reads one after the other, as data_received does. *)
Fixpoint feeds (s : S) (buf : bytes) (chunks : list bytes) : res :=
  match chunks with
  | [] => Out [] s buf
  | c :: cs =>
      match run s (buf ++ c) with
      | Out ms s1 r =>
          match feeds s1 r cs with
          | Out ms' s2 r' => Out (ms ++ ms') s2 r'
          | Failed ms' e => Failed (ms ++ ms') e
          | OutOfFuel => OutOfFuel
          end
      | other => other
      end
  end.

(* Delivered messages, final parser state and residual buffer depend only on the bytes. *)
Theorem feed_chunks : forall chunks s buf,
  run s buf = Out [] s buf ->
  (forall ms e, run s (buf ++ concat chunks) <> Failed ms e) ->
  feeds s buf chunks = run s (buf ++ concat chunks).
Proof.
  induction chunks as [|c cs IH]; intros s buf Hres Hnf.
  - cbn [feeds concat]. rewrite app_nil_r. symmetry. exact Hres.
  - cbn [feeds concat] in *. rewrite app_assoc in Hnf.
    pose proof (run_app (length (buf ++ c)) s (buf ++ c) (concat cs) (le_n _) Hnf) as Ha.
    destruct (run s (buf ++ c)) as [ms s1 r| |] eqn:E1; try contradiction.
    destruct (run s1 (r ++ concat cs)) as [ms' s2 r'| |] eqn:E2; try contradiction.
    rewrite (IH s1 r).
    + rewrite E2. rewrite app_assoc. symmetry. exact Ha.
    + eapply run_residual; eauto.
    + intros ms0 e0 Hc. rewrite Hc in E2. discriminate.
Qed.

Corollary chunking_irrelevant : forall c1 c2 s,
  concat c1 = concat c2 ->
  (forall ms e, run s (concat c1) <> Failed ms e) ->
  feeds s [] c1 = feeds s [] c2.
Proof.
  intros c1 c2 s Heq Hnf.
  rewrite (feed_chunks c1 s []), (feed_chunks c2 s []); try reflexivity.
  - cbn [app]. now rewrite Heq.
  - cbn [app]. now rewrite <- Heq.
  - exact Hnf.
Qed.

End Framing.
