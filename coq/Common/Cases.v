(* Helpers used by the generated correspondence files (build/cases/*/*.v). *)
From Coq Require Import List Bool Arith NArith ZArith.
Import ListNotations.

Fixpoint bad_from {A} (f : A -> bool) (i : nat) (l : list A) : list nat :=
  match l with
  | [] => []
  | x :: t => if f x then bad_from f (S i) t else i :: bad_from f (S i) t
  end.

(* indices of the cases on which the check function returns false *)
Definition bad_indices {A} (f : A -> bool) (l : list A) : list nat := bad_from f 0 l.

Fixpoint list_beq {A} (eqb : A -> A -> bool) (a b : list A) : bool :=
  match a, b with
  | [], [] => true
  | x :: a', y :: b' => eqb x y && list_beq eqb a' b'
  | _, _ => false
  end.

Definition opt_beq {A} (eqb : A -> A -> bool) (a b : option A) : bool :=
  match a, b with
  | None, None => true
  | Some x, Some y => eqb x y
  | _, _ => false
  end.

Definition bytes_beq := list_beq N.eqb.

Lemma list_beq_eq {A} (eqb : A -> A -> bool) :
  (forall x y, eqb x y = true <-> x = y) ->
  forall a b, list_beq eqb a b = true <-> a = b.
Proof.
  intros H a; induction a as [|x a IH]; intros [|y b]; simpl; split; intro E;
    try reflexivity; try discriminate.
  - apply andb_true_iff in E as [E1 E2]. apply H in E1. apply IH in E2. now subst.
  - inversion E; subst. apply andb_true_iff; split; [now apply H | now apply IH].
Qed.
