(* Fixed-width little/big endian integers over bytes = list N. *)
From Coq Require Import NArith List Lia.
Import ListNotations.
Local Open Scope N_scope.

Definition wf_bytes (l : list N) : Prop := Forall (fun b => b < 256) l.

Fixpoint le_enc (k : nat) (n : N) : list N :=
  match k with
  | O => []
  | S k' => (n mod 256) :: le_enc k' (n / 256)
  end.

Fixpoint le_dec (l : list N) : N :=
  match l with
  | [] => 0
  | b :: t => b + 256 * le_dec t
  end.

Definition be_enc (k : nat) (n : N) : list N := rev (le_enc k n).
Definition be_dec (l : list N) : N := le_dec (rev l).

Lemma le_enc_length k : forall n, length (le_enc k n) = k.
Proof. induction k; intro n; simpl; [reflexivity|now rewrite IHk]. Qed.

Lemma le_enc_wf k : forall n, wf_bytes (le_enc k n).
Proof.
  induction k; intro n; simpl; constructor.
  - apply N.mod_lt. discriminate.
  - apply IHk.
Qed.

Lemma le_dec_enc k : forall n, n < 256 ^ N.of_nat k -> le_dec (le_enc k n) = n.
Proof.
  induction k as [|k IH]; intros n Hn.
  - simpl in *. lia.
  - cbn [le_enc le_dec]. rewrite IH.
    + pose proof (N.div_mod' n 256). lia.
    + rewrite Nat2N.inj_succ, N.pow_succ_r' in Hn.
      apply N.div_lt_upper_bound; [discriminate|lia].
Qed.

Lemma le_dec_bound : forall l, wf_bytes l -> le_dec l < 256 ^ N.of_nat (length l).
Proof.
  induction l as [|b t IH]; intro H.
  - simpl. lia.
  - inversion H; subst. cbn [le_dec length]. rewrite Nat2N.inj_succ, N.pow_succ_r'.
    specialize (IH H3). lia.
Qed.

Lemma le_enc_dec : forall l, wf_bytes l -> le_enc (length l) (le_dec l) = l.
Proof.
  induction l as [|b t IH]; intro H; [reflexivity|].
  inversion H; subst. cbn [le_dec length le_enc].
  replace ((b + 256 * le_dec t) mod 256) with b.
  - replace ((b + 256 * le_dec t) / 256) with (le_dec t); [now rewrite IH|].
    symmetry. rewrite N.mul_comm, N.div_add by discriminate. rewrite N.div_small by assumption. reflexivity.
  - rewrite N.mul_comm, N.mod_add by discriminate. now rewrite N.mod_small.
Qed.

Lemma be_enc_length k n : length (be_enc k n) = k.
Proof. unfold be_enc. now rewrite rev_length, le_enc_length. Qed.

Lemma be_enc_wf k n : wf_bytes (be_enc k n).
Proof. unfold be_enc, wf_bytes. apply Forall_rev. apply le_enc_wf. Qed.

Lemma be_dec_enc k n : n < 256 ^ N.of_nat k -> be_dec (be_enc k n) = n.
Proof. intro H. unfold be_dec, be_enc. rewrite rev_involutive. now apply le_dec_enc. Qed.

Lemma be_enc_dec l : wf_bytes l -> be_enc (length l) (be_dec l) = l.
Proof.
  intro H. unfold be_enc, be_dec. rewrite <- (rev_length l).
  rewrite le_enc_dec; [apply rev_involutive|]. apply Forall_rev. exact H.
Qed.

Lemma wf_bytes_app a b : wf_bytes (a ++ b) <-> wf_bytes a /\ wf_bytes b.
Proof. unfold wf_bytes. apply Forall_app. Qed.

Lemma wf_bytes_firstn n l : wf_bytes l -> wf_bytes (firstn n l).
Proof.
  unfold wf_bytes. revert n. induction l; intros n H; destruct n; simpl; try constructor.
  - inversion H; assumption.
  - inversion H; auto.
Qed.

Lemma wf_bytes_skipn n l : wf_bytes l -> wf_bytes (skipn n l).
Proof.
  unfold wf_bytes. revert n. induction l; intros n H; destruct n; simpl; auto.
  inversion H; auto.
Qed.
