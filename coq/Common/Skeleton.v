(* Control-flow skeletons of Python (async) functions and a verified collecting analyser.

   A skeleton keeps: calls (any of which may raise; awaited ones may also be cancelled),
   effects on a small abstract state (resources held, fields written), sequencing,
   unmodelled conditions (Choice), try/finally, try/except, loops, raise and return.
   [exec] is the big-step semantics with Python's rules for finally/except/return;
   [an] computes, per outcome, the list of all reachable final states; [an_sound] shows
   every execution is covered.  Used by C05 (barriers), C06, C08 and C18. *)
From Coq Require Import List Bool Arith Lia.
Import ListNotations.

(* concrete state: which resources are held, which fields were written *)
Definition res := nat.  Definition fld := nat.
Record st := { held : list res; written : list fld }.
Inductive eff := Acquire (r : res) | Release (r : res) | Write (f : fld).
Definition rem (r : nat) (l : list nat) := filter (fun x => negb (Nat.eqb x r)) l.
Definition add (r : nat) (l : list nat) := if existsb (Nat.eqb r) l then l else r :: l.
Definition apply (e : eff) (s : st) : st :=
  match e with
  | Acquire r => {| held := add r (held s); written := written s |}
  | Release r => {| held := rem r (held s); written := written s |}
  | Write f   => {| held := held s; written := add f (written s) |}
  end.

Inductive cmd :=
| Skip | Call (aw : bool) (l : nat) | Eff (e : eff) | Seq (a b : cmd) | Choice (a b : cmd)
| TryFinally (body fin : cmd)
| TryExcept (body : cmd) (catch_cancel : bool) (handler : cmd) (reraise : bool)
| Loop (body : cmd) | Raise | Return
| Scope (c : cmd)                       (* an inlined call: its `return` ends the callee only *)
| IfHeld (r : res) (a b : cmd)          (* `if x:` on a variable that is set iff resource r is held *)
| IfWritten (f : fld) (a b : cmd).      (* same for a tracked field/flag *)

Inductive outcome := Normal | Exn | Cancel | Ret.

Inductive exec : cmd -> st -> outcome -> st -> Prop :=
| ESkip s : exec Skip s Normal s
| ECallOk aw l s : exec (Call aw l) s Normal s
| ECallExn aw l s : exec (Call aw l) s Exn s
| ECallCancel l s : exec (Call true l) s Cancel s
| EEff e s : exec (Eff e) s Normal (apply e s)
| ESeqN a b s s1 o s2 : exec a s Normal s1 -> exec b s1 o s2 -> exec (Seq a b) s o s2
| ESeqA a b s o s1 : exec a s o s1 -> o <> Normal -> exec (Seq a b) s o s1
| EChoiceL a b s o s1 : exec a s o s1 -> exec (Choice a b) s o s1
| EChoiceR a b s o s1 : exec b s o s1 -> exec (Choice a b) s o s1
| ETFNormalFin body fin s o1 s1 s2 : exec body s o1 s1 -> exec fin s1 Normal s2 -> exec (TryFinally body fin) s o1 s2
| ETFAbnFin body fin s o1 s1 o2 s2 : exec body s o1 s1 -> exec fin s1 o2 s2 -> o2 <> Normal -> exec (TryFinally body fin) s o2 s2
| ETEPass body cc h rr s o s1 : exec body s o s1 -> (o = Normal \/ o = Ret \/ (o = Cancel /\ cc = false)) ->
    exec (TryExcept body cc h rr) s o s1
| ETECatch body cc h rr s o s1 oh s2 : exec body s o s1 -> (o = Exn \/ (o = Cancel /\ cc = true)) ->
    exec h s1 oh s2 ->
    exec (TryExcept body cc h rr) s (match oh with Normal => if rr then o else Normal | _ => oh end) s2
| ELoop0 body s : exec (Loop body) s Normal s
| ELoopS body s s1 o s2 : exec body s Normal s1 -> exec (Loop body) s1 o s2 -> exec (Loop body) s o s2
| ELoopA body s o s1 : exec body s o s1 -> o <> Normal -> exec (Loop body) s o s1
| ERaise s : exec Raise s Exn s
| EReturn s : exec Return s Ret s
| EScope c s o s1 : exec c s o s1 -> exec (Scope c) s (match o with Ret => Normal | _ => o end) s1
| EIfHeldT q a b s o s1 : existsb (Nat.eqb q) (held s) = true -> exec a s o s1 -> exec (IfHeld q a b) s o s1
| EIfHeldF q a b s o s1 : existsb (Nat.eqb q) (held s) = false -> exec b s o s1 -> exec (IfHeld q a b) s o s1
| EIfWrittenT w a b s o s1 : existsb (Nat.eqb w) (written s) = true -> exec a s o s1 -> exec (IfWritten w a b) s o s1
| EIfWrittenF w a b s o s1 : existsb (Nat.eqb w) (written s) = false -> exec b s o s1 -> exec (IfWritten w a b) s o s1.

(* ---- collecting analysis: sets of states per outcome, as lists ---- *)
Record result := { rN : list st; rE : list st; rC : list st; rR : list st }.
Definition empty := {| rN := []; rE := []; rC := []; rR := [] |}.
Definition union a b := {| rN := rN a ++ rN b; rE := rE a ++ rE b; rC := rC a ++ rC b; rR := rR a ++ rR b |}.
Definition sel (o : outcome) (r : result) := match o with Normal => rN r | Exn => rE r | Cancel => rC r | Ret => rR r end.

Definition list_eqb (a b : list nat) := if list_eq_dec Nat.eq_dec a b then true else false.
Definition st_eqb (a b : st) := list_eqb (held a) (held b) && list_eqb (written a) (written b).
Definition subset (a b : list st) := forallb (fun x => existsb (st_eqb x) b) a.
(* duplicate removal: keeps the analyser's state sets small (the states themselves are tiny) *)
Fixpoint dd (l : list st) : list st :=
  match l with
  | [] => []
  | x :: t => if existsb (st_eqb x) t then dd t else x :: dd t
  end.

Section An.
Variable fuel_loop : nat.

Fixpoint an (c : cmd) (A : list st) : option result :=
  match c with
  | Skip => Some {| rN := A; rE := []; rC := []; rR := [] |}
  | Call aw _ => Some {| rN := A; rE := A; rC := (if aw then A else []); rR := [] |}
  | Eff e => Some {| rN := map (apply e) A; rE := []; rC := []; rR := [] |}
  | Seq a b => match an a A with None => None | Some ra =>
                 match an b (dd (rN ra)) with None => None | Some rb =>
                   Some {| rN := rN rb; rE := rE ra ++ rE rb; rC := rC ra ++ rC rb; rR := rR ra ++ rR rb |} end end
  | Choice a b => match an a A, an b A with Some ra, Some rb => Some (union ra rb) | _, _ => None end
  | TryFinally body fin =>
      match an body A with None => None | Some rb =>
        match an fin (dd (rN rb)), an fin (dd (rE rb)), an fin (dd (rC rb)), an fin (dd (rR rb)) with
        | Some fN, Some fE, Some fC, Some fR =>
          Some {| rN := rN fN;
                  rE := rN fE ++ rE fN ++ rE fE ++ rE fC ++ rE fR;
                  rC := rN fC ++ rC fN ++ rC fE ++ rC fC ++ rC fR;
                  rR := rN fR ++ rR fN ++ rR fE ++ rR fC ++ rR fR |}
        | _, _, _, _ => None end end
  | TryExcept body cc h rr =>
      match an body A with None => None | Some rb =>
        match an h (dd (rE rb)), an h (dd (if cc then rC rb else [])) with
        | Some hE, Some hC =>
          Some {| rN := rN rb ++ (if rr then [] else rN hE ++ rN hC);
                  rE := (if rr then rN hE else []) ++ rE hE ++ rE hC;
                  rC := (if cc then [] else rC rb) ++ (if rr then rN hC else []) ++ rC hE ++ rC hC;
                  rR := rR rb ++ rR hE ++ rR hC |}
        | _, _ => None end end
  | Loop body =>
      (* iterate to a candidate invariant, then CHECK it is closed *)
      let fix it n X := match n with O => X | S n' =>
            match an body X with Some r => it n' (dd (X ++ rN r)) | None => X end end in
      let X := it fuel_loop (dd A) in
      match an body X with
      | Some r => if subset (rN r) X then Some {| rN := X; rE := rE r; rC := rC r; rR := rR r |} else None
      | None => None end
  | Raise => Some {| rN := []; rE := A; rC := []; rR := [] |}
  | Return => Some {| rN := []; rE := []; rC := []; rR := A |}
  | Scope c0 => match an c0 A with None => None | Some r =>
                  Some {| rN := rN r ++ rR r; rE := rE r; rC := rC r; rR := [] |} end
  | IfHeld r a b =>
      match an a (filter (fun s => existsb (Nat.eqb r) (held s)) A),
            an b (filter (fun s => negb (existsb (Nat.eqb r) (held s))) A) with
      | Some ra, Some rb => Some (union ra rb) | _, _ => None end
  | IfWritten f a b =>
      match an a (filter (fun s => existsb (Nat.eqb f) (written s)) A),
            an b (filter (fun s => negb (existsb (Nat.eqb f) (written s))) A) with
      | Some ra, Some rb => Some (union ra rb) | _, _ => None end
  end.
End An.

Lemma list_eqb_true a b : list_eqb a b = true -> a = b.
Proof. unfold list_eqb. destruct (list_eq_dec Nat.eq_dec a b); congruence. Qed.
Lemma list_eqb_refl a : list_eqb a a = true.
Proof. unfold list_eqb. destruct (list_eq_dec Nat.eq_dec a a); congruence. Qed.
Lemma st_eqb_true a b : st_eqb a b = true -> a = b.
Proof. unfold st_eqb. intros H. apply andb_prop in H as [H1 H2].
  apply list_eqb_true in H1, H2. destruct a, b; simpl in *; congruence. Qed.
Lemma subset_in a b x : subset a b = true -> In x a -> In x b.
Proof. unfold subset. intros H Hx. rewrite forallb_forall in H. specialize (H x Hx).
  apply existsb_exists in H as [y [Hy He]]. apply st_eqb_true in He. congruence. Qed.

Section Sound.
Variable fuel_loop : nat.
Notation an := (an fuel_loop).

Lemma dd_in x l : In x l -> In x (dd l).
Proof.
  induction l as [|y t IH]; intro H; [contradiction|]. cbn [dd].
  destruct (existsb (st_eqb y) t) eqn:E.
  - destruct H as [->|H]; [|auto].
    apply existsb_exists in E as (z & Hz & Ez). apply st_eqb_true in Ez. subst. auto.
  - destruct H as [->|H]; [now left|right; auto].
Qed.

Definition it body := fix it n X := match n with O => X | S n' =>
            match an body X with Some r => it n' (dd (X ++ rN r)) | None => X end end.
Lemma it_incl body n : forall X x, In x X -> In x (it body n X).
Proof. induction n as [|n IH]; intros X x H; simpl; auto.
  destruct (an body X); auto. apply IH. apply dd_in. apply in_or_app; auto. Qed.

Definition post o (r : result) X := match o with Normal => X | _ => sel o r end.

Theorem an_sound : forall c s o s', exec c s o s' ->
  (forall A r, In s A -> an c A = Some r -> In s' (sel o r)) /\
  (forall body, c = Loop body -> forall X r, In s X -> an body X = Some r -> subset (rN r) X = true ->
       In s' (post o r X)).
Proof.
  induction 1; (split; [intros A r HA Han | intros body0 Hc X r HX Hb Hs; try discriminate]).
  - simpl in Han. inversion Han; subst; simpl; auto.
  - simpl in Han. inversion Han; subst; simpl; auto.
  - simpl in Han. inversion Han; subst; simpl; auto.
  - simpl in Han. inversion Han; subst; simpl; auto.
  - simpl in Han. inversion Han; subst; simpl. now apply in_map.
  - (* SeqN *) simpl in Han. destruct (an a A) as [ra|] eqn:Ea; [|discriminate].
    destruct (an b (dd (rN ra))) as [rb|] eqn:Eb; [|discriminate]. inversion Han; subst; clear Han.
    destruct IHexec1 as [I1 _]. destruct IHexec2 as [I2 _].
    specialize (I1 _ _ HA Ea). simpl in I1. specialize (I2 _ _ (dd_in _ _ I1) Eb).
    destruct o; simpl in *; auto; apply in_or_app; auto.
  - (* SeqA *) simpl in Han. destruct (an a A) as [ra|] eqn:Ea; [|discriminate].
    destruct (an b (dd (rN ra))) as [rb|] eqn:Eb; [|discriminate]. inversion Han; subst; clear Han.
    destruct IHexec as [I1 _]. specialize (I1 _ _ HA Ea).
    destruct o; simpl in *; try congruence; apply in_or_app; auto.
  - simpl in Han. destruct (an a A) as [ra|] eqn:Ea; [|discriminate].
    destruct (an b A) as [rb|] eqn:Eb; [|discriminate]. inversion Han; subst.
    destruct IHexec as [I _]. specialize (I _ _ HA Ea). destruct o; simpl; apply in_or_app; auto.
  - simpl in Han. destruct (an a A) as [ra|] eqn:Ea; [|discriminate].
    destruct (an b A) as [rb|] eqn:Eb; [|discriminate]. inversion Han; subst.
    destruct IHexec as [I _]. specialize (I _ _ HA Eb). destruct o; simpl; apply in_or_app; auto.
  - (* TF normal fin *) simpl in Han. destruct (an body A) as [rb|] eqn:Eb; [|discriminate].
    destruct (an fin (dd (rN rb))) as [fN|] eqn:EN; [|discriminate].
    destruct (an fin (dd (rE rb))) as [fE|] eqn:EE; [|discriminate].
    destruct (an fin (dd (rC rb))) as [fC|] eqn:EC; [|discriminate].
    destruct (an fin (dd (rR rb))) as [fR|] eqn:ER; [|discriminate]. inversion Han; subst; clear Han.
    destruct IHexec1 as [I1 _]. destruct IHexec2 as [I2 _]. specialize (I1 _ _ HA Eb).
    destruct o1; simpl in *.
    + exact (I2 _ _ (dd_in _ _ I1) EN).
    + apply in_or_app; left. exact (I2 _ _ (dd_in _ _ I1) EE).
    + apply in_or_app; left. exact (I2 _ _ (dd_in _ _ I1) EC).
    + apply in_or_app; left. exact (I2 _ _ (dd_in _ _ I1) ER).
  - (* TF abnormal fin *) simpl in Han. destruct (an body A) as [rb|] eqn:Eb; [|discriminate].
    destruct (an fin (dd (rN rb))) as [fN|] eqn:EN; [|discriminate].
    destruct (an fin (dd (rE rb))) as [fE|] eqn:EE; [|discriminate].
    destruct (an fin (dd (rC rb))) as [fC|] eqn:EC; [|discriminate].
    destruct (an fin (dd (rR rb))) as [fR|] eqn:ER; [|discriminate]. inversion Han; subst; clear Han.
    destruct IHexec1 as [I1 _]. destruct IHexec2 as [I2 _]. specialize (I1 _ _ HA Eb).
    destruct o1; simpl in I1;
      [specialize (I2 _ _ (dd_in _ _ I1) EN)|specialize (I2 _ _ (dd_in _ _ I1) EE)|specialize (I2 _ _ (dd_in _ _ I1) EC)|specialize (I2 _ _ (dd_in _ _ I1) ER)];
      destruct o2; simpl in *; try congruence; repeat (rewrite in_app_iff); tauto.
  - (* TE pass *) simpl in Han. destruct (an body A) as [rb|] eqn:Eb; [|discriminate].
    destruct (an h (dd (rE rb))) as [hE|] eqn:EE; [|discriminate].
    destruct (an h (dd (if cc then rC rb else []))) as [hC|] eqn:EC; [|discriminate]. inversion Han; subst; clear Han.
    destruct IHexec as [I _]. specialize (I _ _ HA Eb).
    destruct H0 as [->|[->|[-> ->]]]; simpl in *; repeat (rewrite in_app_iff); tauto.
  - (* TE catch *) simpl in Han. destruct (an body A) as [rb|] eqn:Eb; [|discriminate].
    destruct (an h (dd (rE rb))) as [hE|] eqn:EE; [|discriminate].
    destruct (an h (dd (if cc then rC rb else []))) as [hC|] eqn:EC; [|discriminate]. inversion Han; subst; clear Han.
    destruct IHexec1 as [I1 _]. destruct IHexec2 as [I2 _]. specialize (I1 _ _ HA Eb).
    destruct H0 as [->|[-> ->]]; simpl in I1.
    + specialize (I2 _ _ (dd_in _ _ I1) EE). destruct oh, rr; simpl in *; repeat (rewrite in_app_iff); tauto.
    + specialize (I2 _ _ (dd_in _ _ I1) EC). destruct oh, rr; simpl in *; repeat (rewrite in_app_iff); tauto.
  - (* Loop0, first conjunct *) simpl in Han. fold (it body) in Han.
    destruct (an body (it body fuel_loop (dd A))) as [r0|] eqn:Eb; [|discriminate].
    destruct (subset (rN r0) (it body fuel_loop (dd A))) eqn:Es; [|discriminate]. inversion Han; subst; simpl.
    apply it_incl. now apply dd_in.
  - (* Loop0, second *) inversion Hc; subst. simpl. exact HX.
  - (* LoopS first *) simpl in Han. fold (it body) in Han.
    destruct (an body (it body fuel_loop (dd A))) as [r0|] eqn:Eb; [|discriminate].
    destruct (subset (rN r0) (it body fuel_loop (dd A))) eqn:Es; [|discriminate]. inversion Han; subst; clear Han.
    destruct IHexec1 as [I1 _]. destruct IHexec2 as [_ I2].
    assert (HX: In s (it body fuel_loop (dd A))) by (apply it_incl; now apply dd_in).
    specialize (I1 _ _ HX Eb). simpl in I1. eapply subset_in in I1; eauto.
    specialize (I2 body eq_refl _ _ I1 Eb Es). destruct o; simpl in *; auto.
  - (* LoopS second *) inversion Hc; subst.
    destruct IHexec1 as [I1 _]. destruct IHexec2 as [_ I2].
    specialize (I1 _ _ HX Hb). simpl in I1. eapply subset_in in I1; eauto.
  - (* LoopA first *) simpl in Han. fold (it body) in Han.
    destruct (an body (it body fuel_loop (dd A))) as [r0|] eqn:Eb; [|discriminate].
    destruct (subset (rN r0) (it body fuel_loop (dd A))) eqn:Es; [|discriminate]. inversion Han; subst; clear Han.
    destruct IHexec as [I1 _]. assert (HX: In s (it body fuel_loop (dd A))) by (apply it_incl; now apply dd_in).
    specialize (I1 _ _ HX Eb). destruct o; simpl in *; congruence.
  - (* LoopA second *) inversion Hc; subst. destruct IHexec as [I1 _]. specialize (I1 _ _ HX Hb).
    destruct o; simpl in *; congruence.
  - simpl in Han. inversion Han; subst; simpl; auto.
  - simpl in Han. inversion Han; subst; simpl; auto.
  - (* Scope *) simpl in Han. destruct (an c A) as [r0|] eqn:Ec; [|discriminate]. inversion Han; subst; clear Han.
    destruct IHexec as [I _]. specialize (I _ _ HA Ec).
    destruct o; simpl in *; auto; apply in_or_app; auto.
  - (* IfHeld true *) simpl in Han.
    destruct (an a (filter (fun s0 => existsb (Nat.eqb q) (held s0)) A)) as [ra|] eqn:Ea; [|discriminate].
    destruct (an b (filter (fun s0 => negb (existsb (Nat.eqb q) (held s0))) A)) as [rb|] eqn:Eb; [|discriminate].
    inversion Han; subst; clear Han. destruct IHexec as [I _].
    assert (HF: In s (filter (fun s0 => existsb (Nat.eqb q) (held s0)) A)) by (apply filter_In; auto).
    specialize (I _ _ HF Ea). destruct o; simpl; apply in_or_app; auto.
  - (* IfHeld false *) simpl in Han.
    destruct (an a (filter (fun s0 => existsb (Nat.eqb q) (held s0)) A)) as [ra|] eqn:Ea; [|discriminate].
    destruct (an b (filter (fun s0 => negb (existsb (Nat.eqb q) (held s0))) A)) as [rb|] eqn:Eb; [|discriminate].
    inversion Han; subst; clear Han. destruct IHexec as [I _].
    assert (HF: In s (filter (fun s0 => negb (existsb (Nat.eqb q) (held s0))) A)) by (apply filter_In; split; [auto|now rewrite H]).
    specialize (I _ _ HF Eb). destruct o; simpl; apply in_or_app; auto.
  - (* IfWritten true *) simpl in Han.
    destruct (an a (filter (fun s0 => existsb (Nat.eqb w) (written s0)) A)) as [ra|] eqn:Ea; [|discriminate].
    destruct (an b (filter (fun s0 => negb (existsb (Nat.eqb w) (written s0))) A)) as [rb|] eqn:Eb; [|discriminate].
    inversion Han; subst; clear Han. destruct IHexec as [I _].
    assert (HF: In s (filter (fun s0 => existsb (Nat.eqb w) (written s0)) A)) by (apply filter_In; auto).
    specialize (I _ _ HF Ea). destruct o; simpl; apply in_or_app; auto.
  - (* IfWritten false *) simpl in Han.
    destruct (an a (filter (fun s0 => existsb (Nat.eqb w) (written s0)) A)) as [ra|] eqn:Ea; [|discriminate].
    destruct (an b (filter (fun s0 => negb (existsb (Nat.eqb w) (written s0))) A)) as [rb|] eqn:Eb; [|discriminate].
    inversion Han; subst; clear Han. destruct IHexec as [I _].
    assert (HF: In s (filter (fun s0 => negb (existsb (Nat.eqb w) (written s0))) A)) by (apply filter_In; split; [auto|now rewrite H]).
    specialize (I _ _ HF Eb). destruct o; simpl; apply in_or_app; auto.
Qed.
End Sound.

(* A decidable property of (outcome, final state) checked on the analyser's result holds for
   every execution: this is how "for every fault / cancellation placement" is discharged. *)
Definition check (P : outcome -> st -> bool) (r : result) : bool :=
  forallb (P Normal) (rN r) && forallb (P Exn) (rE r) && forallb (P Cancel) (rC r) && forallb (P Ret) (rR r).

Theorem check_sound fuel c s0 r P :
  an fuel c [s0] = Some r -> check P r = true ->
  forall o s', exec c s0 o s' -> P o s' = true.
Proof.
  intros Han Hc o s' Hex.
  destruct (an_sound fuel c s0 o s' Hex) as [I _].
  specialize (I [s0] r (or_introl eq_refl) Han).
  unfold check in Hc. apply andb_prop in Hc as [Hc HR]. apply andb_prop in Hc as [Hc HC].
  apply andb_prop in Hc as [HN HE].
  destruct o; simpl in I;
    [rewrite forallb_forall in HN; now apply HN
    |rewrite forallb_forall in HE; now apply HE
    |rewrite forallb_forall in HC; now apply HC
    |rewrite forallb_forall in HR; now apply HR].
Qed.

Definition s_init : st := {| held := []; written := [] |}.
Definition has (x : nat) (l : list nat) : bool := existsb (Nat.eqb x) l.

(* C18: nothing is held at any exit *)
Definition P_balanced (_ : outcome) (s : st) : bool := match held s with [] => true | _ => false end.
(* C08: a failing or cancelled run has written nothing *)
Definition P_all_or_nothing (o : outcome) (s : st) : bool :=
  match o with
  | Exn | Cancel => match written s with [] => true | _ => false end
  | _ => true
  end.
(* C06: field [k] (keys enabled) is only ever written after field [v] (verified) *)
Definition P_requires (k v : fld) (_ : outcome) (s : st) : bool :=
  if has k (written s) then has v (written s) else true.
