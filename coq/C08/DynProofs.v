(* C08, fault-enumeration part - lemma about the decision table of DynModel.v. *)
From Coq Require Import List Bool Arith Lia.
From PV Require Import C08.DynModel.
Import ListNotations.

(* either every reply is honest and everything is stored, or the first reply that is not honest
   decides the outcome and nothing is stored *)
Lemma walk_spec nb : forall l i,
  (Forall (fun x => x = Good) l /\ walk nb i l = (Success, everything)) \/
  (exists g x t, l = g ++ x :: t /\ Forall (fun y => y = Good) g /\ x <> Good /\
     snd (walk nb i l) = nothing /\
     fst (walk nb i l) = match x with
                         | Held => Cancelled (phase_of nb (i + length g)) (i + length g)
                         | _ => Raised (phase_of nb (i + length g)) (i + length g)
                         end).
Proof.
  induction l as [|x t IH]; intro i.
  - left. split; [constructor|reflexivity].
  - destruct x.
    + cbn [walk]. destruct (IH (S i)) as [[Hg Hw]|(g & y & r & E & Hg & Hy & Hs & Hf)].
      * left. split; [constructor; [reflexivity|exact Hg]|exact Hw].
      * right. exists (Good :: g), y, r. subst t. cbn [app length].
        split; [reflexivity|]. split; [constructor; [reflexivity|exact Hg]|].
        split; [exact Hy|]. split; [exact Hs|].
        rewrite Hf. replace (i + S (length g)) with (S i + length g) by lia. reflexivity.
    + right. exists [], Bad, t. cbn. rewrite Nat.add_0_r.
      split; [reflexivity|]. split; [constructor|]. split; [discriminate|]. split; reflexivity.
    + right. exists [], Held, t. cbn. rewrite Nat.add_0_r.
      split; [reflexivity|]. split; [constructor|]. split; [discriminate|]. split; reflexivity.
Qed.

