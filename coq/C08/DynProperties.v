(* C08, fault-enumeration part - theorems about the decision table of DynModel.v, for every
   number of replies, every split between begin() and finish() and EVERY pattern of faults
   (not only the single faults the enumeration drives). *)
From Coq Require Import List Bool Arith Lia.
From PV Require Import C08.DynModel C08.DynProofs.
Import ListNotations.

(* anything stored => every reply of the exchange was honest and the handler reports success *)
Theorem C08dyn_stored_only_after_complete_exchange : forall nb l,
  snd (run nb l) <> nothing -> Forall (fun x => x = Good) l /\ run nb l = (Success, everything).
Proof.
  intros nb l H. unfold run in *.
  destruct (walk_spec nb l 0) as [Hok|(g & x & t & _ & _ & _ & Hs & _)]; [exact Hok|contradiction].
Qed.
Print Assumptions C08dyn_stored_only_after_complete_exchange.

(* a reply that is not honest anywhere in the exchange => nothing stored, no success, and the
   FIRST such reply decides which call ends, and how *)
Theorem C08dyn_first_fault_decides : forall nb g x t,
  Forall (fun y => y = Good) g -> x <> Good ->
  run nb (g ++ x :: t) =
    (match x with
     | Held => Cancelled (phase_of nb (length g)) (length g)
     | _ => Raised (phase_of nb (length g)) (length g)
     end, nothing).
Proof.
  intros nb g x t Hg Hx.
  assert (G: forall i, walk nb i (g ++ x :: t) =
     (match x with
      | Held => Cancelled (phase_of nb (i + length g)) (i + length g)
      | _ => Raised (phase_of nb (i + length g)) (i + length g)
      end, nothing)).
  { induction g as [|y g IH]; intro i; cbn [app length].
    - rewrite Nat.add_0_r. destruct x; [contradiction| |]; reflexivity.
    - inversion Hg as [|? ? Hy Hg']; subst. cbn [walk]. rewrite (IH Hg' (S i)).
      replace (S i + length g) with (i + S (length g)) by lia. reflexivity. }
  exact (G 0).
Qed.
Print Assumptions C08dyn_first_fault_decides.

(* the fault-free exchange stores all three *)
Theorem C08dyn_honest_exchange_recorded : forall nb n,
  run nb (repeat Good n) = (Success, everything).
Proof.
  intros nb n. unfold run. generalize 0 as i. induction n as [|n IH]; intro i; cbn; [reflexivity|apply IH].
Qed.
Print Assumptions C08dyn_honest_exchange_recorded.

(* the single-fault experiment of the enumeration: what the table predicts for it *)
Theorem C08dyn_single_fault : forall nb n i x, i < n -> x <> Good ->
  run nb (single n i x) =
    (match x with
     | Held => Cancelled (phase_of nb i) i
     | _ => Raised (phase_of nb i) i
     end, nothing).
Proof.
  intros nb n i x Hi Hx. unfold single.
  pose proof (C08dyn_first_fault_decides nb (repeat Good i) x (repeat Good (n - S i))) as H.
  rewrite repeat_length in H. apply H; [|exact Hx].
  apply Forall_forall. intros y Hy. exact (repeat_spec _ _ _ Hy).
Qed.
Print Assumptions C08dyn_single_fault.

Example C08dyn_ex_mrp_verify_round :
  (* MRP: 2 replies in begin(), 4 in finish(); pair-verify M2 (reply 4) times out *)
  run 2 (single 6 4 Bad) = (Raised Finish 4, nothing).
Proof. reflexivity. Qed.
