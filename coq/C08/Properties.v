(* C08 - pairing is all-or-nothing.  The skeletons in Gen.v are regenerated from /repo's AST on
   every run.  Write 0 = service.credentials, Write 1 = settings.protocols.<p>.credentials,
   Write 2 = has_paired := True.  [exec] quantifies over every placement of an exception or (at
   awaits) a cancellation and every resolution of the unmodelled conditions. *)
From Coq Require Import List Bool.
From PV Require Import Common.Skeleton C08.Gen.
Import ListNotations.

Lemma aon_written o s : P_all_or_nothing o s = true -> (o = Exn \/ o = Cancel) -> written s = [].
Proof.
  unfold P_all_or_nothing. intros H [->| ->]; destruct (written s); try reflexivity; discriminate.
Qed.

(* every handler method: a failing or cancelled run has written nothing *)
Theorem C08_all_or_nothing :
  forall c, In c all_skeletons ->
  forall o s', exec c s_init o s' -> (o = Exn \/ o = Cancel) -> written s' = [].
Proof.
  assert (H: forallb (fun c => match an 4 c [s_init] with
                               | Some r => check P_all_or_nothing r | None => false end) all_skeletons = true)
    by (vm_compute; reflexivity).
  intros c Hin o s' He Ho. rewrite forallb_forall in H. specialize (H c Hin).
  destruct (an 4 c [s_init]) as [r|] eqn:Ea; [|discriminate].
  apply (aon_written o); [|exact Ho].
  exact (check_sound 4 c s_init r _ Ea H o s' He).
Qed.
Print Assumptions C08_all_or_nothing.

(* where a handler writes at all, it writes service AND settings credentials AND the flag, and
   only on a normally completed run of finish() - MRP after its verify round *)
Definition P_success_complete (o : outcome) (s : st) : bool :=
  match written s with
  | [] => true
  | _ => match o with
         | Normal | Ret => has 0 (written s) && has 1 (written s) && has 2 (written s)
         | _ => false
         end
  end.

Theorem C08_success_writes_everything :
  forall c, In c [sk_mrp_finish; sk_companion_finish; sk_airplay_finish] ->
  forall o s', exec c s_init o s' -> written s' <> [] ->
  (o = Normal \/ o = Ret) /\ has 0 (written s') = true /\ has 1 (written s') = true /\ has 2 (written s') = true.
Proof.
  assert (H: forallb (fun c => match an 4 c [s_init] with
                               | Some r => check P_success_complete r | None => false end)
                     [sk_mrp_finish; sk_companion_finish; sk_airplay_finish] = true)
    by (vm_compute; reflexivity).
  intros c Hin o s' He Hw. rewrite forallb_forall in H. specialize (H c Hin).
  destruct (an 4 c [s_init]) as [r|] eqn:Ea; [|discriminate].
  pose proof (check_sound 4 c s_init r _ Ea H o s' He) as P.
  unfold P_success_complete in P. destruct (written s') eqn:Ew; [congruence|].
  destruct o; try discriminate; apply andb_prop in P as [P P2]; apply andb_prop in P as [P0 P1]; auto.
Qed.
Print Assumptions C08_success_writes_everything.

(* begin() never writes credentials or sets has_paired *)
Definition P_no_write (_ : outcome) (s : st) : bool := match written s with [] => true | _ => false end.
Theorem C08_begin_writes_nothing :
  forall c, In c [sk_mrp_begin; sk_companion_begin; sk_airplay_begin; sk_dmap_begin] ->
  forall o s', exec c s_init o s' -> written s' = [].
Proof.
  assert (H: forallb (fun c => match an 4 c [s_init] with
                               | Some r => check P_no_write r | None => false end)
                     [sk_mrp_begin; sk_companion_begin; sk_airplay_begin; sk_dmap_begin] = true)
    by (vm_compute; reflexivity).
  intros c Hin o s' He. rewrite forallb_forall in H. specialize (H c Hin).
  destruct (an 4 c [s_init]) as [r|] eqn:Ea; [|discriminate].
  pose proof (check_sound 4 c s_init r _ Ea H o s' He) as P. unfold P_no_write in P.
  destruct (written s'); [reflexivity|discriminate].
Qed.
Print Assumptions C08_begin_writes_nothing.

(* DMAP: finish() writes credentials only if a pairing request set has_paired before *)
Theorem C08_dmap_finish_needs_pairing :
  forall o s', exec sk_dmap_finish s_init o s' -> written s' = [].
Proof.
  assert (H: exists r, an 4 sk_dmap_finish [s_init] = Some r /\ check P_no_write r = true)
    by (eexists; split; vm_compute; reflexivity).
  destruct H as (r & Ha & Hc). intros o s' He.
  pose proof (check_sound 4 _ _ _ _ Ha Hc o s' He) as P. unfold P_no_write in P.
  destruct (written s'); [reflexivity|discriminate].
Qed.
Print Assumptions C08_dmap_finish_needs_pairing.

(* non-vacuity: finish() does write on its success path *)
Example C08_ex_mrp_finish_writes :
  exists r, an 4 sk_mrp_finish [s_init] = Some r /\ existsb (fun s => has 0 (written s)) (rN r) = true.
Proof. eexists; split; vm_compute; reflexivity. Qed.
