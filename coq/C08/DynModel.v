(* C08, fault-enumeration part: the decision table "which reply of the exchange goes wrong =>
   what the handler reports and what it has stored".  An exchange is the list of replies the
   device owes the handler: the first [nb] are awaited by begin(), the rest by finish().  Each
   reply is Good (honest), Bad (the exchange fails here: error reply, garbage, missing field,
   wrong PIN rejected, timeout, disconnect) or Held (the caller cancels while waiting for it).
   The handler walks the replies in order; the first one that is not Good ends the call it
   belongs to.  Everything is stored (service credentials, settings credentials, has_paired)
   only when no reply is left.  No proofs here. *)
From Coq Require Import List Bool Arith.
Import ListNotations.

Inductive reply := Good | Bad | Held.

Inductive phase := Begin | Finish.
Inductive result :=
| Success
| Raised (p : phase) (i : nat)        (* the call p raised because of reply number i *)
| Cancelled (p : phase) (i : nat).

Record stored := { w_service : bool; w_settings : bool; w_paired : bool }.
Definition nothing := {| w_service := false; w_settings := false; w_paired := false |}.
Definition everything := {| w_service := true; w_settings := true; w_paired := true |}.

Definition phase_of (nb i : nat) : phase := if i <? nb then Begin else Finish.

(* i = number of replies consumed so far *)
Fixpoint walk (nb i : nat) (l : list reply) : result * stored :=
  match l with
  | [] => (Success, everything)
  | Good :: t => walk nb (S i) t
  | Bad :: _ => (Raised (phase_of nb i) i, nothing)
  | Held :: _ => (Cancelled (phase_of nb i) i, nothing)
  end.

Definition run (nb : nat) (l : list reply) := walk nb 0 l.

Definition reply_eqb (a b : reply) : bool :=
  match a, b with Good, Good | Bad, Bad | Held, Held => true | _, _ => false end.

(* the single-fault exchange of the enumeration: n replies, reply i is x, the others honest *)
Definition single (n i : nat) (x : reply) : list reply :=
  repeat Good i ++ x :: repeat Good (n - S i).

(* ---- correspondence: one observed run of the real handler.
   n replies in the fault-free exchange, nb of them during begin(); reply i was faulted with x;
   observed: which call ended abnormally (0 none, 1 begin, 2 finish), how (0 returned, 1 raised,
   2 cancelled), and what was stored afterwards. *)
Record obs := { o_n : nat; o_nb : nat; o_i : nat; o_x : reply;
                o_call : nat; o_how : nat; o_service : bool; o_settings : bool; o_paired : bool }.

Definition stored_eqb (a : stored) (s t p : bool) : bool :=
  eqb (w_service a) s && eqb (w_settings a) t && eqb (w_paired a) p.

Definition check_case (o : obs) : bool :=
  let '(r, st) := run (o_nb o) (single (o_n o) (o_i o) (o_x o)) in
  stored_eqb st (o_service o) (o_settings o) (o_paired o) &&
  match r with
  | Success => (o_call o =? 0) && (o_how o =? 0)
  | Raised Begin _ => (o_call o =? 1) && (o_how o =? 1)
  | Raised Finish _ => (o_call o =? 2) && (o_how o =? 1)
  | Cancelled Begin _ => (o_call o =? 1) && (o_how o =? 2)
  | Cancelled Finish _ => (o_call o =? 2) && (o_how o =? 2)
  end.
