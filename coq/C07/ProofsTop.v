(* C07 - glue lemmas for the property theorems: totality of the HAP sender, logs as lists of
   frames, prefixes, and two concrete AEADs used to show that the premises of the theorems can
   be met (a toy AEAD for the correctness premises, a table AEAD for ideal authenticity). *)
From Coq Require Import List NArith ZArith Bool Arith Lia ZifyBool.
From PV Require Import Common.Endian Common.Framing Common.Cases
  C07.Model C07.ProofsBase C07.ProofsCipher C07.ProofsHap C07.ProofsHap2 C07.ProofsComp C07.ProofsMrp.
Import ListNotations.
Local Open Scope N_scope.

Lemma Forall2_map_eq {A B C} (f : A -> C) (g : B -> C) (R : A -> B -> Prop) :
  (forall a b, R a b -> f a = g b) -> forall la lb, Forall2 R la lb -> map f la = map g lb.
Proof. intros H la lb F. induction F; cbn; [reflexivity|]. f_equal; auto. Qed.

Lemma hap_calls_frames frames L : Forall2 hap_call_ok frames L -> map c_pt L = frames.
Proof.
  intro F. rewrite <- (map_id frames). symmetry.
  apply (Forall2_map_eq (fun x => x) c_pt hap_call_ok); [|exact F]. intros a b (H & _). now rewrite H.
Qed.

Lemma comp_calls_frames frames L : Forall2 comp_call_ok frames L -> map frame_of_call L = frames.
Proof.
  intro F. rewrite <- (map_id frames). symmetry.
  apply (Forall2_map_eq (fun x => x) frame_of_call comp_call_ok); [|exact F].
  intros [ft d] b (H1 & H2 & _). unfold frame_of_call. cbn [fst snd] in *. now rewrite H1, H2.
Qed.

Lemma mrp_calls_msgs msgs L : Forall2 mrp_call_ok msgs L -> map c_pt L = msgs.
Proof.
  intro F. rewrite <- (map_id msgs). symmetry.
  apply (Forall2_map_eq (fun x => x) c_pt mrp_call_ok); [|exact F]. intros a b (H & _). now rewrite H.
Qed.

Lemma concat_firstn_prefix {A} (l : list (list A)) m : exists rest, concat l = concat (firstn m l) ++ rest.
Proof. exists (concat (skipn m l)). rewrite <- concat_app. now rewrite firstn_skipn. Qed.

Section Total.
Variable key : Type.
Variable enc : key -> bytes -> bytes -> bytes -> bytes.
Variable dec : key -> bytes -> bytes -> bytes -> option bytes.

Lemma hap_enc_frames_total : forall frames c,
  Forall (fun f => (1 <= length f <= 1024)%nat) frames ->
  cout c + N.of_nat (length frames) <= nonce_limit (kd c) ->
  exists out c', hap_enc_frames key enc c frames = Ok (out, c').
Proof.
  induction frames as [|f t IH]; intros c HF Hc.
  - cbn. eauto.
  - inversion HF as [|? ? Hf Ht]; subst. cbn [hap_enc_frames].
    assert (Hlb : to_bytes_le 2 (blen f) = Ok (le_enc 2 (blen f))).
    { apply to_bytes_le_lt. change (256 ^ N.of_nat 2) with 65536. unfold blen. lia. }
    rewrite Hlb.
    destruct (c_encrypt_ok key enc c f (le_enc 2 (blen f))) as (ct & c1 & E1).
    { cbn [length] in Hc. lia. }
    rewrite E1. pose proof E1 as E1'. apply c_encrypt_spec in E1' as (n & _ & _ & Hc1).
    destruct (IH c1 Ht) as (out & c2 & E2).
    { rewrite Hc1. cbn [cout kd]. cbn [length] in Hc. lia. }
    rewrite E2. eauto.
Qed.

Lemma hap_send_all_total : forall msgs c,
  cout c + N.of_nat (length (all_frames msgs)) <= nonce_limit (kd c) ->
  exists outs c', hap_send_all key enc (Some c) msgs = Ok (outs, Some c').
Proof.
  unfold hap_send_all. induction msgs as [|d t IH]; intros c Hc.
  - cbn. eauto.
  - cbn [send_all]. unfold hap_encrypt at 1.
    unfold all_frames in Hc. cbn [map concat] in Hc. rewrite app_length in Hc.
    destruct (hap_enc_frames_total (frames_of (length d) d) c) as (o & c1 & E1).
    { apply frames_of_spec. lia. }
    { unfold bytes in *. lia. }
    rewrite E1.
    destruct (hap_enc_frames_log key enc dec _ _ _ _ E1) as ((K1 & _) & _ & C1 & _).
    destruct (IH c1) as (os & c2 & E2).
    { rewrite K1, C1. unfold all_frames, bytes in *. lia. }
    rewrite E2. eauto.
Qed.

End Total.

(* ================================================================== concrete AEADs *)
(* toy AEAD: ciphertext = plaintext followed by sixteen zero bytes (meets the correctness
   premises; offers no authenticity) *)
Definition toy_enc (k : N) (n a p : bytes) : bytes := p ++ zeros 16.
Definition toy_dec (k : N) (n a c : bytes) : option bytes := Some (firstn (length c - 16) c).

Lemma toy_dec_enc k n a p : toy_dec k n a (toy_enc k n a p) = Some p.
Proof.
  unfold toy_dec, toy_enc. rewrite app_length, zeros_length.
  replace (length p + 16 - 16)%nat with (length p) by lia. now rewrite firstn_exact.
Qed.

Lemma toy_enc_len k n a p : length (toy_enc k n a p) = (length p + 16)%nat.
Proof. unfold toy_enc. now rewrite app_length, zeros_length. Qed.

(* table AEAD: decryption accepts exactly the ciphertexts (made with toy_enc) of a given log *)
Definition log_dec (L : list call) (k : N) (n a c : bytes) : option bytes :=
  match find (fun cl => bytes_beq n (c_nonce cl) && bytes_beq a (c_aad cl) &&
                        bytes_beq c (toy_enc k (c_nonce cl) (c_aad cl) (c_pt cl))) L with
  | Some cl => Some (c_pt cl)
  | None => None
  end.

Lemma bytes_beq_eq a b : bytes_beq a b = true <-> a = b.
Proof. apply list_beq_eq. intros x y. apply N.eqb_eq. Qed.

Lemma log_dec_ideal L k : ideal_auth (log_dec L) k L.
Proof.
  intros n a c p H. unfold log_dec in H.
  destruct (find _ L) as [cl|] eqn:E; [|discriminate].
  apply find_some in E as [Hin Hb].
  apply andb_true_iff in Hb as [Hb H3]. apply andb_true_iff in Hb as [H1 H2].
  apply bytes_beq_eq in H1. apply bytes_beq_eq in H2.
  inversion H; subst. destruct cl; exact Hin.
Qed.
