(* C07 - keys of one AirPlay 2 session: "never reused under a key" is per KEY, not per cipher
   object.  Gen.v (re-emitted from /repo on every run by harness/c07.py gen(), by driving the
   real call sites AirPlayV2._setup_base / setup_audio_stream, AP2Session.setup_remote_control
   and verify_connection with a recording verifier) lists, for every cipher object of the session
   that encrypts, the (salt, info) pair its out-key was derived with.  Finite obligation: these
   pairs are pairwise distinct; hence, for a key-derivation function that is injective on
   (salt, info) for the session's shared secret (an idealisation of HKDF-SHA512, stated as a
   premise), no two encrypting cipher objects of a session hold the same key - so the per-object
   freshness theorems of Properties.v add up to freshness per key. *)
From Coq Require Import List NArith Bool.
From PV Require Import Common.Cases C07.Gen.
Import ListNotations.

Definition deriv := (list N * list N)%type.
Definition deriv_beq (a b : deriv) : bool := bytes_beq (fst a) (fst b) && bytes_beq (snd a) (snd b).

Fixpoint nodupb (l : list deriv) : bool :=
  match l with
  | [] => true
  | x :: t => negb (existsb (deriv_beq x) t) && nodupb t
  end.

Lemma deriv_beq_eq a b : deriv_beq a b = true <-> a = b.
Proof.
  unfold deriv_beq. destruct a as [a1 a2], b as [b1 b2]. cbn [fst snd].
  rewrite andb_true_iff.
  assert (E : forall x y, bytes_beq x y = true <-> x = y).
  { intros x y. apply list_beq_eq. intros u v. apply N.eqb_eq. }
  rewrite !E. split; [intros [-> ->]; reflexivity | intro H; inversion H; auto].
Qed.

Lemma nodupb_NoDup l : nodupb l = true -> NoDup l.
Proof.
  induction l as [|x t IH]; intro H; [constructor|].
  cbn [nodupb] in H. apply andb_true_iff in H as [H1 H2]. constructor; [|auto].
  intro Hin. apply negb_true_iff in H1.
  assert (existsb (deriv_beq x) t = true); [|congruence].
  apply existsb_exists. exists x. split; [exact Hin|]. now apply deriv_beq_eq.
Qed.

Lemma NoDup_map_inj {A B} (f : A -> B) l :
  (forall a b, In a l -> In b l -> f a = f b -> a = b) -> NoDup l -> NoDup (map f l).
Proof.
  intros Hinj H. induction H as [|x t Hx _ IH]; [constructor|].
  cbn [map]. constructor.
  - intro Hin. apply in_map_iff in Hin as (y & Hy & Hyt).
    assert (y = x) by (apply Hinj; simpl; auto). subst. contradiction.
  - apply IH. intros a b Ha Hb. apply Hinj; simpl; auto.
Qed.

(* RAOP streaming session (AirPlayV2): control channel, event channel, audio packets *)
Theorem C07_session_raop_out_keys_distinct : forall (K : Type) (kdf : deriv -> K),
  (forall a b, In a out_derivs_raop -> In b out_derivs_raop -> kdf a = kdf b -> a = b) ->
  NoDup (map kdf out_derivs_raop).
Proof.
  intros K kdf Hinj. apply NoDup_map_inj; [exact Hinj|]. apply nodupb_NoDup. vm_compute. reflexivity.
Qed.
Print Assumptions C07_session_raop_out_keys_distinct.

(* remote control session (AP2Session): control channel, event channel, data stream channel *)
Theorem C07_session_ap2_out_keys_distinct : forall (K : Type) (kdf : deriv -> K),
  (forall a b, In a out_derivs_ap2 -> In b out_derivs_ap2 -> kdf a = kdf b -> a = b) ->
  NoDup (map kdf out_derivs_ap2).
Proof.
  intros K kdf Hinj. apply NoDup_map_inj; [exact Hinj|]. apply nodupb_NoDup. vm_compute. reflexivity.
Qed.
Print Assumptions C07_session_ap2_out_keys_distinct.

(* each session really has several encrypting objects (the obligation is not about an empty list) *)
Example C07_session_nonempty : (2 <= length out_derivs_raop)%nat /\ (2 <= length out_derivs_ap2)%nat.
Proof. vm_compute. split; repeat constructor. Qed.
