(* C07 - keys over the LIFETIME of an AirPlay 2 session / protocol object: "never reused under a
   key" is per KEY, not per cipher object, and not per setup.  Gen.v (re-emitted from /repo on
   every run by harness/c07.py gen(): the real call sites AirPlayV2.setup / play_url / teardown,
   AP2Session.setup_remote_control and verify_connection are driven with a recording verifier whose
   shared secret is fresh for every pair-verify) lists, for every cipher object that encrypted
   during the scenario, which pair-verify's secret and which (salt, info) its out-key came from.

   Finite obligation: these triples are pairwise distinct.  Hence, for a key-derivation function
   that is injective on (secret, salt, info) - an idealisation of HKDF-SHA512 over fresh
   X25519 secrets, stated as a premise - no two cipher objects ever hold the same out-key: a new
   setup derives a FRESH key (new pair-verify or new salt/info); the only way to keep using a key
   is to keep using the same cipher object, whose counter continues (C07_nonces_fresh_step).  So
   the per-object freshness theorems of Properties.v add up to freshness per key over the whole
   lifetime. *)
From Coq Require Import List NArith Bool.
From PV Require Import Common.Cases C07.Gen.
Import ListNotations.

Definition deriv := (N * (list N * list N))%type.
Definition deriv_beq (a b : deriv) : bool :=
  N.eqb (fst a) (fst b) && bytes_beq (fst (snd a)) (fst (snd b)) && bytes_beq (snd (snd a)) (snd (snd b)).

Fixpoint nodupb (l : list deriv) : bool :=
  match l with
  | [] => true
  | x :: t => negb (existsb (deriv_beq x) t) && nodupb t
  end.

Lemma deriv_beq_eq a b : deriv_beq a b = true <-> a = b.
Proof.
  unfold deriv_beq. destruct a as [a0 [a1 a2]], b as [b0 [b1 b2]]. cbn [fst snd].
  rewrite !andb_true_iff.
  assert (E : forall x y, bytes_beq x y = true <-> x = y).
  { intros x y. apply list_beq_eq. intros u v. apply N.eqb_eq. }
  rewrite !E, N.eqb_eq. split; [intros [[-> ->] ->]; reflexivity | intro H; inversion H; auto].
Qed.

Lemma nodupb_NoDup l : nodupb l = true -> NoDup l.
Proof.
  induction l as [|x t IH]; intro H; [constructor|].
  cbn [nodupb] in H. apply andb_true_iff in H as [H1 H2]. constructor; [|auto].
  intro Hin. apply negb_true_iff in H1.
  assert (existsb (deriv_beq x) t = true); [|congruence].
  apply existsb_exists. exists x. split; [exact Hin|]. now apply deriv_beq_eq.
Qed.

Lemma NoDup_map_inj {A B} (f : A -> B) l :
  (forall a b, In a l -> In b l -> f a = f b -> a = b) -> NoDup l -> NoDup (map f l).
Proof.
  intros Hinj H. induction H as [|x t Hx _ IH]; [constructor|].
  cbn [map]. constructor.
  - intro Hin. apply in_map_iff in Hin as (y & Hy & Hyt).
    assert (y = x) by (apply Hinj; simpl; auto). subst. contradiction.
  - apply IH. intros a b Ha Hb. apply Hinj; simpl; auto.
Qed.

Definition keys_distinct (l : list deriv) : Prop :=
  forall (K : Type) (kdf : deriv -> K),
    (forall a b, In a l -> In b l -> kdf a = kdf b -> a = b) -> NoDup (map kdf l).

Lemma keys_distinct_by_computation l : nodupb l = true -> keys_distinct l.
Proof. intros H K kdf Hinj. apply NoDup_map_inj; [exact Hinj|]. now apply nodupb_NoDup. Qed.

(* one RAOP streaming session: control channel, event channel, audio packets *)
Theorem C07_session_raop_out_keys_distinct : keys_distinct out_derivs_raop.
Proof. apply keys_distinct_by_computation. vm_compute. reflexivity. Qed.
Print Assumptions C07_session_raop_out_keys_distinct.

(* ONE AirPlayV2 object used for three streams in a row: setup, packets, teardown, setup, ... *)
Theorem C07_session_raop_resetup_out_keys_distinct : keys_distinct out_derivs_raop_resetup.
Proof. apply keys_distinct_by_computation. vm_compute. reflexivity. Qed.
Print Assumptions C07_session_raop_resetup_out_keys_distinct.

(* play_url, teardown, then an audio stream on the same object *)
Theorem C07_session_raop_playurl_out_keys_distinct : keys_distinct out_derivs_raop_playurl.
Proof. apply keys_distinct_by_computation. vm_compute. reflexivity. Qed.
Print Assumptions C07_session_raop_playurl_out_keys_distinct.

(* remote control session (AP2Session): control channel, event channel, data stream channel *)
Theorem C07_session_ap2_out_keys_distinct : keys_distinct out_derivs_ap2.
Proof. apply keys_distinct_by_computation. vm_compute. reflexivity. Qed.
Print Assumptions C07_session_ap2_out_keys_distinct.

(* the obligations are about several objects, and the re-setup scenario about several setups *)
Example C07_session_nonempty :
  (3 <= length out_derivs_raop)%nat /\ (9 <= length out_derivs_raop_resetup)%nat /\
  (5 <= length out_derivs_raop_playurl)%nat /\ (3 <= length out_derivs_ap2)%nat.
Proof. vm_compute. repeat split; repeat constructor. Qed.
