(* C07 - encrypted channels deliver exactly what was sent, or fail: property theorems.

   Reading guide.  [key], [enc], [dec] are the AEAD (ChaCha20-Poly1305 of the cryptography
   library): ANY key type and ANY pair of functions.  What is assumed about them is written as
   a premise of each theorem:
     dec_enc   : dec k n a (enc k n a p) = Some p            (correctness)
     enc_len   : length (enc k n a p) = length p + 16         (tag length)
     ideal_auth dec k L  (tamper theorems only; an IDEALISATION of INT-CTXT security):
                 nothing verifies under key k except a ciphertext of the log L of encryptions the
                 legitimate sender made, and only under its own nonce and associated data.
   A cipher object is [mkcipher kind kout kin cout cin olog]; [olog] is the ghost list of
   (nonce, aad, plaintext) triples it has encrypted.  [sync cs cr]: the receiver's cipher
   [cr] has the sender's kind, its in-key is the sender's out-key and its in-counter equals the
   sender's out-counter (what pair-verify establishes).  All theorems quantify over ALL message
   lists, message sizes, counters and segmentations [chunks]. *)
From Coq Require Import List NArith ZArith Bool Arith Lia.
From PV Require Import Common.Endian Common.Framing Common.Cases
  C07.Model C07.ProofsBase C07.ProofsCipher C07.ProofsHap C07.ProofsHap2 C07.ProofsComp
  C07.ProofsMrp C07.ProofsAp2 C07.ProofsTop.
Import ListNotations.
Local Open Scope N_scope.

(* ================================================================ nonces *)

(* The nonce is defined exactly while the counter fits its field (2^64 for the 8-byte layouts,
   2^96 for Companion); beyond that the cipher raises instead of wrapping around. *)
Theorem C07_nonce_defined_iff : forall k c,
  (exists n, nonce_of k c = Ok n) <-> c < nonce_limit k.
Proof.
  intros k c. split; [intros [n H]; eapply nonce_of_lt; eauto | apply nonce_of_some].
Qed.
Print Assumptions C07_nonce_defined_iff.

(* Layout: 12 - nl zero bytes then the counter little endian on nl bytes (nl = 8: HAP, nl = 12:
   Companion); '<LQ' packing = 4 zero bytes then the counter on 8 bytes. *)
Theorem C07_nonce_layout : forall c n,
  (forall nl, nonce_of (Gen nl) c = Ok n -> n = repeat 0 (12 - nl) ++ le_enc nl c) /\
  (nonce_of LQ c = Ok n -> n = repeat 0 4 ++ le_enc 8 c).
Proof. intros c n. split; [intro nl; apply nonce_of_gen | apply nonce_of_lq]. Qed.
Print Assumptions C07_nonce_layout.

(* Two counters never share a nonce. *)
Theorem C07_nonce_injective : forall k c1 c2 n,
  nonce_of k c1 = Ok n -> nonce_of k c2 = Ok n -> c1 = c2.
Proof. exact nonce_of_inj. Qed.
Print Assumptions C07_nonce_injective.

(* One encrypt call uses the nonce of the current out-counter, logs it, and advances the
   counter by exactly one; the log invariant "entry i carries the nonce of counter c0+i and
   the out-counter is c0 + length" is preserved; under it all nonces differ. *)
Theorem C07_nonces_fresh_step : forall key enc c0 (c : cipher key) data aad ct c',
  log_ok c0 c -> c_encrypt key enc c data aad = Ok (ct, c') ->
  log_ok c0 c' /\ cout c' = cout c + 1 /\ NoDup (map c_nonce (olog c')).
Proof.
  intros key enc c0 c data aad ct c' H0 H.
  assert (H1 : log_ok c0 c') by (eapply (c_encrypt_log_ok key enc (fun _ _ _ _ => None)); eauto).
  split; [exact H1|]. split; [|eapply log_ok_nodup; eauto].
  apply c_encrypt_spec in H as (n & _ & _ & ->). reflexivity.
Qed.
Print Assumptions C07_nonces_fresh_step.

(* Per channel: whatever is sent on a connection whose cipher object starts with counter [co],
   no nonce is used twice under the out-key, and the log has one entry per counter value. *)
Theorem C07_hap_nonces_fresh : forall key enc k ko ki co ci msgs outs cs',
  hap_send_all key enc (Some (mkcipher k ko ki co ci [])) msgs = Ok (outs, Some cs') ->
  NoDup (map c_nonce (olog cs')) /\ cout cs' = co + N.of_nat (length (olog cs')) /\ log_from k co (olog cs').
Proof.
  intros key enc k ko ki co ci msgs outs cs' H.
  destruct (hap_send_all_frames key enc _ _ _ _ H) as (c & E & Hf). inversion E; subst c.
  destruct (hap_enc_frames_log key enc (fun _ _ _ _ => None) _ _ _ _ Hf) as ((K & _) & _ & _ & _ & _ & _ & Hok).
  destruct (Hok co (log_ok_start key enc (fun _ _ _ _ => None) k ko ki co ci)) as [H1 H2].
  split; [eapply log_from_nodup; eauto|]. split; [exact H1|]. cbn [kd] in K. now rewrite <- K.
Qed.
Print Assumptions C07_hap_nonces_fresh.

Theorem C07_comp_nonces_fresh : forall key enc k ko ki co ci frames outs cs',
  comp_send_all key enc (Some (mkcipher k ko ki co ci [])) frames = Ok (outs, Some cs') ->
  NoDup (map c_nonce (olog cs')) /\ cout cs' = co + N.of_nat (length (olog cs')) /\ log_from k co (olog cs').
Proof.
  intros key enc k ko ki co ci frames outs cs' H.
  destruct (comp_send_all_log key enc (fun _ _ _ _ => None) _ _ _ _ H) as (c & L' & E & (K & _) & _ & _ & _ & Hok).
  inversion E; subst c.
  destruct (Hok co (log_ok_start key enc (fun _ _ _ _ => None) k ko ki co ci)) as [H1 H2].
  split; [eapply log_from_nodup; eauto|]. split; [exact H1|]. cbn [kd] in K. now rewrite <- K.
Qed.
Print Assumptions C07_comp_nonces_fresh.

Theorem C07_mrp_nonces_fresh : forall key enc k ko ki co ci msgs outs cs',
  mrp_send_all key enc (Some (mkcipher k ko ki co ci [])) msgs = Ok (outs, Some cs') ->
  NoDup (map c_nonce (olog cs')) /\ cout cs' = co + N.of_nat (length (olog cs')) /\ log_from k co (olog cs').
Proof.
  intros key enc k ko ki co ci msgs outs cs' H.
  destruct (mrp_send_all_log key enc (fun _ _ _ _ => None) _ _ _ _ H) as (c & L' & E & (K & _) & _ & _ & _ & Hok).
  inversion E; subst c.
  destruct (Hok co (log_ok_start key enc (fun _ _ _ _ => None) k ko ki co ci)) as [H1 H2].
  split; [eapply log_from_nodup; eauto|]. split; [exact H1|]. cbn [kd] in K. now rewrite <- K.
Qed.
Print Assumptions C07_mrp_nonces_fresh.

(* ================================================================ HAP sessions *)

(* Any message list can be sent while the counter space lasts (any message size), and then:
   the plaintext is cut into frames of 1..1024 bytes whose concatenation is the plaintext;
   each frame is one AEAD call whose associated data is the 2-byte little endian length, and
   that length field decodes back to the frame length (it never overflows). *)
Theorem C07_hap_frame_bound : forall key enc (cs : cipher key) msgs,
  (cout cs + N.of_nat (length (all_frames msgs)) <= nonce_limit (kd cs) ->
     exists outs cs', hap_send_all key enc (Some cs) msgs = Ok (outs, Some cs')) /\
  (forall outs cs', hap_send_all key enc (Some cs) msgs = Ok (outs, Some cs') ->
     exists L', olog cs' = olog cs ++ L' /\
       map c_pt L' = all_frames msgs /\
       concat (all_frames msgs) = concat msgs /\
       Forall (fun cl => (1 <= length (c_pt cl) <= 1024)%nat /\
                         c_aad cl = le_enc 2 (blen (c_pt cl)) /\
                         le_dec (c_aad cl) = blen (c_pt cl)) L').
Proof.
  intros key enc cs msgs. split.
  - apply (hap_send_all_total key enc (fun _ _ _ _ => None)).
  - intros outs cs' H.
    destruct (hap_send_all_frames key enc _ _ _ _ H) as (c & E & Hf). inversion E; subst c.
    destruct (hap_enc_frames_log key enc (fun _ _ _ _ => None) _ _ _ _ Hf) as (_ & _ & _ & L' & O & F2 & _).
    exists L'. split; [exact O|]. split; [now apply hap_calls_frames|].
    split; [apply all_frames_concat|].
    pose proof (all_frames_bound msgs) as B. revert B F2. generalize (all_frames msgs). clear.
    intros fr B F2. induction F2 as [|f cl t L' Hcl _ IH]; [constructor|].
    destruct Hcl as (H1 & H2 & H3). apply Forall_cons_iff in B as [Hb Bt]. constructor; [|auto]. rewrite H1. auto.
Qed.
Print Assumptions C07_hap_frame_bound.

(* A receiver holding the matching key and counter recovers exactly the plaintext that was
   sent, however the byte stream is cut into reads; afterwards its buffer is empty and its
   counter is again in step with the sender's. *)
Theorem C07_hap_roundtrip_any_chunks : forall key enc dec,
  (forall k n a p, dec k n a (enc k n a p) = Some p) ->
  (forall k n a p, length (enc k n a p) = (length p + 16)%nat) ->
  forall msgs (cs : cipher key) outs st' cr chunks,
  hap_send_all key enc (Some cs) msgs = Ok (outs, st') -> sync key cs cr ->
  concat chunks = concat outs ->
  exists cs' cr' os,
    st' = Some cs' /\
    hap_recv key dec (mkhap (Some cr) []) chunks = (os, Ok (mkhap (Some cr') [])) /\
    concat os = concat msgs /\ sync key cs' cr'.
Proof.
  intros key enc dec H1 H2 msgs cs outs st' cr chunks Hs Hsy Hc.
  destruct (hap_roundtrip key enc dec H1 H2 _ _ _ _ _ _ Hs Hsy Hc) as (cs' & os & A & B & C & D).
  eauto 10.
Qed.
Print Assumptions C07_hap_roundtrip_any_chunks.

(* Under ideal authenticity: WHATEVER bytes reach the receiver instead of the sent stream
   (modified ciphertext, tag or length prefix; reordered, replayed, truncated, extended), cut
   into reads in any way, the plaintext handed on before the session raises or waits is the
   concatenation of the first m frames that were sent - a prefix of the sent plaintext, never
   anything else. *)
Theorem C07_hap_tamper_rejected : forall key enc dec k ko ki co ci msgs outs cs',
  hap_send_all key enc (Some (mkcipher k ko ki co ci [])) msgs = Ok (outs, Some cs') ->
  ideal_auth dec ko (olog cs') ->
  forall (cr : cipher key) chunks, kd cr = k -> kin cr = ko -> cin cr = co ->
  let delivered := concat (fst (hap_recv key dec (mkhap (Some cr) []) chunks)) in
  exists m, delivered = concat (firstn m (all_frames msgs)) /\
            exists rest, concat msgs = delivered ++ rest.
Proof.
  intros key enc dec k ko ki co ci msgs outs cs' H Hauth cr chunks A1 A2 A3. cbv zeta.
  destruct (C07_hap_nonces_fresh _ _ _ _ _ _ _ _ _ _ H) as (_ & _ & HL).
  destruct (hap_send_all_frames key enc _ _ _ _ H) as (c & E & Hf). inversion E; subst c.
  destruct (hap_enc_frames_log key enc dec _ _ _ _ Hf) as (_ & _ & _ & L' & O & F2 & _).
  cbn [olog app] in O. apply hap_calls_frames in F2. rewrite <- O in F2.
  destruct (hap_tamper key enc dec k ko co (olog cs') HL Hauth chunks cr) as (m & Hm).
  { unfold at_pos. rewrite A3. repeat split; auto. cbn. lia. }
  rewrite F2 in Hm. exists m. split; [exact Hm|]. rewrite Hm.
  rewrite <- (all_frames_concat msgs). apply concat_firstn_prefix.
Qed.
Print Assumptions C07_hap_tamper_rejected.

(* ================================================================ Companion *)

(* send(): on an encrypted connection a NON-EMPTY payload is one AEAD call whose associated
   data is the 4-byte frame header (type, 24-bit big endian length of payload + tag) and the
   frame is header ++ ciphertext; an EMPTY payload makes no AEAD call at all - the frame is
   the bare header. *)
Theorem C07_comp_header_is_aad : forall key enc (c : cipher key) ft data out st',
  comp_send key enc (Some c) ft data = Ok (out, st') ->
  exists c', st' = Some c' /\
    ((data = [] /\ c' = c /\ out = ft :: be_enc 3 0) \/
     (data <> [] /\ exists cl, olog c' = olog c ++ [cl] /\
        c_pt cl = data /\ c_aad cl = ft :: be_enc 3 (blen data + 16) /\
        out = c_aad cl ++ enc (kout c) (c_nonce cl) (c_aad cl) data)).
Proof.
  intros key enc c ft data out st' H.
  destruct (comp_send_log key enc (fun _ _ _ _ => None) _ _ _ _ _ H) as (c' & E & _ & _ & _ & D).
  exists c'. split; [exact E|]. destruct D as [D|(Hne & cl & O & (P1 & P2 & _) & Ho)]; [left; exact D|].
  right. split; [exact Hne|]. exists cl. cbn [fst snd] in *. auto.
Qed.
Print Assumptions C07_comp_header_is_aad.

(* Frame bound: a Companion frame carries at most 2^24 - 1 bytes after the header (2^24 - 17
   bytes of plaintext when encrypted).  send() decides on the SIZE alone ([comp_header_of_size]):
   a payload that does not fit is refused with OverflowError and NOTHING is produced (no bytes, no
   AEAD call, counter untouched); a frame that is produced starts with the type byte followed by
   the 24-bit big endian length of what follows, and that length is the real one. *)
Theorem C07_comp_frame_bound : forall key enc,
  (forall k n a p, length (enc k n a p) = (length p + 16)%nat) ->
  forall (c : option (cipher key)) ft data,
  let tagged := match c with Some _ => nonempty data | None => false end in
  (forall e, comp_header_of_size tagged ft (blen data) = Raise e -> comp_send key enc c ft data = Raise e) /\
  (2 ^ 24 <= blen data + (if tagged then 16 else 0) ->
     comp_send key enc c ft data = Raise OverflowError) /\
  (forall out c', comp_send key enc c ft data = Ok (out, c') ->
     blen data + (if tagged then 16 else 0) < 2 ^ 24 /\
     exists body, out = ft :: be_enc 3 (blen body) ++ body /\
                  comp_header_of_size tagged ft (blen data) = Ok (ft :: be_enc 3 (blen body)) /\
                  blen body = blen data + (if tagged then 16 else 0)).
Proof.
  intros key enc enc_len c ft data tagged.
  assert (Hsend : comp_send key enc c ft data =
    match to_bytes_be 3 (blen data + (if tagged then 16 else 0)) with
    | Raise e => Raise e
    | Ok lb =>
      match c with
      | Some ci => if nonempty data then
                     match c_encrypt key enc ci data (ft :: lb) with
                     | Raise e => Raise e
                     | Ok (ct, ci') => Ok ((ft :: lb) ++ ct, Some ci')
                     end
                   else Ok ((ft :: lb) ++ data, c)
      | None => Ok ((ft :: lb) ++ data, c)
      end
    end) by reflexivity.
  unfold comp_header_of_size, AUTH_TAG_LENGTH. split; [|split].
  - intros e H. rewrite Hsend. destruct (to_bytes_be 3 (blen data + (if tagged then 16 else 0))); [discriminate|].
    now inversion H.
  - intro H. rewrite Hsend. unfold to_bytes_be. change (256 ^ N.of_nat 3) with (2 ^ 24).
    apply N.ltb_ge in H. now rewrite H.
  - intros out c' H. rewrite Hsend in H.
    destruct (to_bytes_be 3 (blen data + (if tagged then 16 else 0))) as [lb|e] eqn:E; [|discriminate].
    apply to_bytes_be_ok in E as [Hlt ->]. change (256 ^ N.of_nat 3) with (2 ^ 24) in Hlt.
    split; [exact Hlt|].
    assert (Plain : forall tg, tagged = tg -> tg = false ->
              Ok ((ft :: be_enc 3 (blen data + (if tagged then 16 else 0))) ++ data, c) = Ok (out, c') ->
              exists body, out = ft :: be_enc 3 (blen body) ++ body /\
                Ok (ft :: be_enc 3 (blen data + (if tagged then 16 else 0))) = Ok (ft :: be_enc 3 (blen body)) /\
                blen body = blen data + (if tagged then 16 else 0)).
    { intros tg E1 E2 H0. rewrite E1, E2 in *. rewrite N.add_0_r in *. inversion H0; subst.
      exists data. repeat split. }
    destruct c as [ci|].
    + destruct (nonempty data) eqn:En.
      * destruct (c_encrypt key enc ci data _) as [[ct ci']|e] eqn:Ee; [|discriminate].
        apply c_encrypt_spec in Ee as (n & _ & Hct & _).
        assert (Ho : out = (ft :: be_enc 3 (blen data + (if tagged then 16 else 0))) ++ ct) by congruence.
        clear H Hsend Plain. subst tagged. change (if true then 16 else 0) with 16 in *.
        assert (Hb : blen ct = blen data + 16) by (unfold blen; rewrite Hct, enc_len; lia).
        exists ct. rewrite Hb. split; [exact Ho|]. split; reflexivity.
      * apply (Plain false); auto.
    + apply (Plain false); auto.
Qed.
Print Assumptions C07_comp_frame_bound.

(* Round trip for every segmentation, encrypted or not ([osync]): the listener gets exactly
   the frames that were sent, in order (frames of a type outside the FrameType enum [known]
   are dropped by the receiver: [deliv]). *)
Theorem C07_comp_roundtrip_any_chunks : forall key enc dec known,
  (forall k n a p, dec k n a (enc k n a p) = Some p) ->
  (forall k n a p, length (enc k n a p) = (length p + 16)%nat) ->
  forall frames cs outs cs' cr chunks,
  comp_send_all key enc cs frames = Ok (outs, cs') -> osync key cs cr ->
  concat chunks = concat outs ->
  Forall (fun fr => existsb (N.eqb (fst fr)) known = true) frames ->
  exists ms cr', feeds (comp_p1 key dec known) cr [] chunks = Out ms cr' [] /\
                 somes ms = frames /\ osync key cs' cr'.
Proof.
  intros key enc dec known H1 H2 frames cs outs cs' cr chunks Hs Hsy Hc Hk.
  destruct (comp_roundtrip key enc dec known H1 H2 _ _ _ _ _ _ Hs Hsy Hc) as (cr' & F & S').
  exists (map (deliv known) frames), cr'. split; [exact F|]. split; [|exact S'].
  now apply somes_deliv_known.
Qed.
Print Assumptions C07_comp_roundtrip_any_chunks.

(* Under ideal authenticity, for frames WITH A PAYLOAD: whatever bytes reach an encrypted
   connection, in whatever pieces, the frames with a non-empty payload handed to the listener
   are a subsequence (same order) of the non-empty frames that were sent - type byte and
   payload unmodified.  (A rejected frame is dropped and the connection carries on, so later
   genuine frames may still arrive: subsequence, not prefix.) *)
Theorem C07_comp_tamper_rejected : forall key enc dec known k ko ki co ci frames outs cs',
  comp_send_all key enc (Some (mkcipher k ko ki co ci [])) frames = Ok (outs, Some cs') ->
  ideal_auth dec ko (olog cs') ->
  forall (cr : cipher key) chunks, kd cr = k -> kin cr = ko -> cin cr = co ->
  exists ms c' r, feeds (comp_p1 key dec known) (Some cr) [] chunks = Out ms c' r /\
    Sub (filter has_payload (somes ms)) (filter has_payload frames).
Proof.
  intros key enc dec known k ko ki co ci frames outs cs' H Hauth cr chunks A1 A2 A3.
  destruct (C07_comp_nonces_fresh _ _ _ _ _ _ _ _ _ _ H) as (_ & _ & HL).
  destruct (comp_send_all_log key enc dec _ _ _ _ H) as (c & L' & E & _ & _ & O & F2 & _).
  inversion E; subst c. cbn [olog app] in O. apply comp_calls_frames in F2. rewrite <- O in F2.
  destruct (comp_tamper key enc dec known k ko co (olog cs') HL Hauth chunks cr) as (ms & c' & r & F & S).
  { unfold at_pos. rewrite A3. repeat split; auto. cbn. lia. }
  exists ms, c', r. split; [exact F|]. rewrite F2 in S. exact S.
Qed.
Print Assumptions C07_comp_tamper_rejected.

(* The side condition cannot be dropped: frames with an EMPTY payload are not authenticated at
   all.  For every AEAD and every key: the sender sends NoOp (type 1, no payload); changing the
   single type byte 1 -> 8 makes the encrypted receiver hand (E_OPACK, empty) to the listener - a
   frame that was never sent; no decryption is attempted (the in-counter does not move).
   Likewise, setting the length field of an ENCRYPTED frame to zero delivers (type, empty). *)
Theorem C07_comp_empty_frame_refuted : forall key enc dec known (cs cr : cipher key),
  existsb (N.eqb 8) known = true ->
  exists frames sent tampered,
    comp_send_all key enc (Some cs) frames = Ok ([sent], Some cs) /\
    length tampered = length sent /\ tampered <> sent /\
    run (comp_p1 key dec known) (Some cr) tampered = Out [Some (8, [])] (Some cr) [] /\
    ~ In (8, []) frames.
Proof.
  intros key enc dec known cs cr Hk.
  exists [(1, [])], [1; 0; 0; 0], [8; 0; 0; 0].
  split; [reflexivity|]. split; [reflexivity|]. split; [discriminate|]. split.
  - unfold run. cbn [length Framing.drain]. unfold comp_p1, comp_handle, comp_deliver. cbn. rewrite Hk. reflexivity.
  - intros [H|[]]. discriminate.
Qed.
Print Assumptions C07_comp_empty_frame_refuted.

Theorem C07_comp_length_zero_refuted : forall key dec known (cr : cipher key) ft rest,
  existsb (N.eqb ft) known = true ->
  comp_p1 key dec known (Some cr) (ft :: 0 :: 0 :: 0 :: rest) = Frame (Some (ft, [])) (Some cr) rest.
Proof.
  intros key dec known cr ft rest Hk.
  change (ft :: 0 :: 0 :: 0 :: rest) with (ft :: [0; 0; 0] ++ [] ++ rest).
  rewrite (comp_p1_exact key (fun _ _ _ _ => []) dec known) by reflexivity.
  unfold comp_handle, comp_deliver. cbn. now rewrite Hk.
Qed.
Print Assumptions C07_comp_length_zero_refuted.

(* ================================================================ MRP *)

(* send(): one AEAD call per message (no associated data), written as varint(length of the
   ciphertext) ++ ciphertext. *)
Theorem C07_mrp_message_encryption : forall key enc (c : cipher key) data out st',
  mrp_send key enc (Some c) data = Ok (out, st') ->
  exists c' cl, st' = Some c' /\ olog c' = olog c ++ [cl] /\ c_pt cl = data /\ c_aad cl = [] /\
    let ct := enc (kout c) (c_nonce cl) [] data in
    out = write_var (blen ct) ++ ct /\ read_variant out = Some (blen ct, ct).
Proof.
  intros key enc c data out st' H.
  destruct (mrp_send_log key enc (fun _ _ _ _ => None) _ _ _ _ H) as (c' & cl & E & _ & _ & O & (P1 & P2) & Ho & _).
  exists c', cl. cbv zeta. repeat split; auto.
  rewrite Ho. rewrite <- (app_nil_r (enc _ _ _ _)) at 2. rewrite read_write_var. now rewrite app_nil_r.
Qed.
Print Assumptions C07_mrp_message_encryption.

Theorem C07_mrp_roundtrip_any_chunks : forall key enc dec,
  (forall k n a p, dec k n a (enc k n a p) = Some p) ->
  forall msgs cs outs cs' cr chunks,
  mrp_send_all key enc cs msgs = Ok (outs, cs') -> osync key cs cr ->
  concat chunks = concat outs ->
  exists ms cr', feeds (mrp_p1 key dec) cr [] chunks = Out ms cr' [] /\
                 somes ms = msgs /\ osync key cs' cr'.
Proof.
  intros key enc dec H1 msgs cs outs cs' cr chunks Hs Hsy Hc.
  destruct (mrp_roundtrip key enc dec H1 _ _ _ _ _ _ Hs Hsy Hc) as (cr' & F & S').
  exists (map Some msgs), cr'. split; [exact F|]. split; [apply somes_map_some|exact S'].
Qed.
Print Assumptions C07_mrp_roundtrip_any_chunks.

(* Under ideal authenticity: whatever bytes reach an encrypted MRP connection, the byte
   strings handed to the protobuf parser are a subsequence of the messages that were sent. *)
Theorem C07_mrp_tamper_rejected : forall key enc dec k ko ki co ci msgs outs cs',
  mrp_send_all key enc (Some (mkcipher k ko ki co ci [])) msgs = Ok (outs, Some cs') ->
  ideal_auth dec ko (olog cs') ->
  forall (cr : cipher key) chunks, kd cr = k -> kin cr = ko -> cin cr = co ->
  exists ms c' r, feeds (mrp_p1 key dec) (Some cr) [] chunks = Out ms c' r /\ Sub (somes ms) msgs.
Proof.
  intros key enc dec k ko ki co ci msgs outs cs' H Hauth cr chunks A1 A2 A3.
  destruct (C07_mrp_nonces_fresh _ _ _ _ _ _ _ _ _ _ H) as (_ & _ & HL).
  destruct (mrp_send_all_log key enc dec _ _ _ _ H) as (c & L' & E & _ & _ & O & F2 & _).
  inversion E; subst c. cbn [olog app] in O. apply mrp_calls_msgs in F2. rewrite <- O in F2.
  destruct (mrp_tamper key enc dec k ko co (olog cs') HL Hauth chunks cr) as (ms & c' & r & F & S).
  { unfold at_pos. rewrite A3. repeat split; auto. cbn. lia. }
  exists ms, c', r. split; [exact F|]. rewrite F2 in S. exact S.
Qed.
Print Assumptions C07_mrp_tamper_rejected.

(* ================================================================ AirPlay 2 audio *)

(* Every audio packet is header ++ ciphertext ++ (the 8 counter bytes of the nonce used for
   THIS packet - read before the encrypt call advanced the counter); the associated data is
   header[4:12] (timestamp, ssrc).  A receiver that takes the trailing 8 bytes as nonce and
   header[4:12] as associated data recovers the audio bytes; the counter advances by one per
   packet and no nonce repeats. *)
Theorem C07_audio_packet_decodable : forall key enc dec,
  (forall k n a p, dec k n a (enc k n a p) = Some p) ->
  (forall k n a p, length (enc k n a p) = (length p + 16)%nat) ->
  forall (c : cipher key) header audio pkt st',
  (kd c = LQ \/ kd c = Gen 8) -> length header = 12%nat ->
  ap2_send_audio key enc (Some c) header audio = Ok (pkt, st') ->
  ap2_peer_decode key dec (kout c) pkt = Some audio /\
  exists c' n, st' = Some c' /\ nonce_of (kd c) (cout c) = Ok n /\
    pkt = header ++ enc (kout c) n (skipn 4 header) audio ++ le_enc 8 (cout c) /\
    cout c' = cout c + 1 /\ olog c' = olog c ++ [mkcall n (skipn 4 header) audio].
Proof.
  intros key enc dec H1 H2 c header audio pkt st' Hk H12 H.
  split; [eapply ap2_decodable; eauto|].
  destruct (ap2_send_spec key enc _ _ _ _ _ H) as (c' & n & E & Hn & Hp & Hc).
  assert (Ha : firstn 8 (skipn 4 header) = skipn 4 header) by (apply firstn_all2; rewrite skipn_length; lia).
  rewrite Ha in *. exists c', n. split; [exact E|]. split; [exact Hn|].
  pose proof (nonce8_shape _ _ _ Hk Hn) as Hs.
  assert (Hl : lastn 8 n = le_enc 8 (cout c)) by (rewrite Hs; apply lastn_app; apply le_enc_length).
  rewrite Hl in Hp. split; [exact Hp|]. rewrite Hc. split; reflexivity.
Qed.
Print Assumptions C07_audio_packet_decodable.

Theorem C07_audio_packets_sequence : forall key enc dec,
  (forall k n a p, dec k n a (enc k n a p) = Some p) ->
  (forall k n a p, length (enc k n a p) = (length p + 16)%nat) ->
  forall k ko ki co ci pkts outs cs',
  (k = LQ \/ k = Gen 8) -> Forall (fun m => length (fst m) = 12%nat) pkts ->
  ap2_send_all key enc (Some (mkcipher k ko ki co ci [])) pkts = Ok (outs, Some cs') ->
  Forall2 (fun m o => ap2_peer_decode key dec ko o = Some (snd m)) pkts outs /\
  cout cs' = co + N.of_nat (length pkts) /\ NoDup (map c_nonce (olog cs')).
Proof.
  intros key enc dec H1 H2 k ko ki co ci pkts outs cs' Hk H12 H.
  destruct (ap2_send_all_spec key enc dec H1 H2 pkts (mkcipher k ko ki co ci []) outs (Some cs') Hk H12 H) as (c & L' & E & _ & _ & _ & C & Hok & D).
  inversion E; subst c. split; [exact D|]. split; [exact C|].
  eapply log_ok_nodup. apply Hok. exact (log_ok_start key enc dec k ko ki co ci).
Qed.
Print Assumptions C07_audio_packets_sequence.

(* Under ideal authenticity a packet is accepted only if its audio bytes were encrypted by the
   sender under exactly the packet's trailing nonce bytes and its header[4:12]. *)
Theorem C07_audio_tamper_rejected : forall key (dec : key -> bytes -> bytes -> bytes -> option bytes) k L pkt a,
  ideal_auth dec k L -> ap2_peer_decode key dec k pkt = Some a ->
  In (mkcall (repeat 0 4 ++ lastn 8 pkt) (skipn 4 (firstn 12 pkt)) a) L.
Proof. intros key dec k L pkt a. apply ap2_tamper. Qed.
Print Assumptions C07_audio_tamper_rejected.

(* ================================================================ the premises can be met *)

(* A toy AEAD satisfies the two correctness premises... *)
Example C07_ex_premises : (forall k n a p, toy_dec k n a (toy_enc k n a p) = Some p) /\
                          (forall k n a p, length (toy_enc k n a p) = (length p + 16)%nat).
Proof. split; [exact toy_dec_enc | exact toy_enc_len]. Qed.

(* ...and a concrete non-trivial exchange: 1030 bytes (two frames: 1024 + 6) sent from counter
   255 (a byte carry in the nonce), received byte-split in three reads. *)
Example C07_ex_hap :
  let cs := mkcipher (Gen 8) 7 9 255 0 [] in
  let cr := mkcipher (Gen 8) 1 7 0 255 [] in
  let data := pat 3 5 0 1030 in
  exists outs cs', hap_send_all N toy_enc (Some cs) [data] = Ok (outs, Some cs') /\
    length (concat outs) = 1066%nat /\ cout cs' = 257 /\
    concat (fst (hap_recv N toy_dec (mkhap (Some cr) []) (cut [1; 1041] (concat outs)))) = data.
Proof. cbv zeta. eexists. eexists. split; [vm_compute; reflexivity|]. vm_compute. auto. Qed.

(* Ideal authenticity is met by the AEAD that answers decryptions from the sender's log; with
   it, flipping one byte of the second frame of a three-frame stream delivers frame one only. *)
Example C07_ex_ideal :
  let cs := mkcipher (Gen 8) 7 9 0 0 [] in
  let cr := mkcipher (Gen 8) 1 7 0 0 [] in
  exists outs cs', hap_send_all N toy_enc (Some cs) [[1; 2; 3]; [4; 5]; [6]] = Ok (outs, Some cs') /\
    ideal_auth (log_dec (olog cs')) 7 (olog cs') /\
    fst (hap_recv N (log_dec (olog cs')) (mkhap (Some cr) []) [upd 25 99 (concat outs)]) = [] /\
    fst (hap_recv N (log_dec (olog cs')) (mkhap (Some cr) []) (cut [21] (upd 25 99 (concat outs)))) = [[1; 2; 3]] /\
    fst (hap_recv N (log_dec (olog cs')) (mkhap (Some cr) []) [concat outs]) = [[1; 2; 3; 4; 5; 6]].
Proof.
  cbv zeta. eexists. eexists. split; [vm_compute; reflexivity|].
  split; [apply log_dec_ideal|]. vm_compute. auto.
Qed.
