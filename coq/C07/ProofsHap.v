(* C07 - HAPSession: framing, sender/receiver lock step, segmentation independence, and what a
   receiver can be made to deliver by an arbitrary byte stream. *)
From Coq Require Import List NArith ZArith Bool Arith Lia ZifyBool.
From PV Require Import Common.Endian Common.Framing Common.Cases C07.Model C07.ProofsBase C07.ProofsCipher.
Import ListNotations.
Local Open Scope N_scope.

(* ------------------------------------------------------------------ frames_of *)
Lemma frames_of_spec : forall fuel data, (length data <= fuel)%nat ->
  concat (frames_of fuel data) = data /\
  Forall (fun f => (1 <= length f <= 1024)%nat) (frames_of fuel data).
Proof.
  induction fuel as [|fuel IH]; intros data H.
  - destruct data; simpl in *; [split; constructor | lia].
  - destruct data as [|b t] eqn:E; [simpl; split; constructor|].
    change (frames_of (S fuel) (b :: t))
      with (firstn FRAME_LENGTH (b :: t) :: frames_of fuel (skipn FRAME_LENGTH (b :: t))).
    rewrite <- E in *. assert (Hl : (1 <= length data)%nat) by (subst; simpl; lia).
    destruct (IH (skipn FRAME_LENGTH data)) as [I1 I2].
    { rewrite skipn_length. unfold FRAME_LENGTH. lia. }
    split.
    + cbn [concat]. rewrite I1. apply firstn_skipn.
    + constructor; [|exact I2]. rewrite firstn_length. unfold FRAME_LENGTH. lia.
Qed.

Lemma concat_concat {A} (l : list (list (list A))) : concat (concat l) = concat (map (@concat A) l).
Proof.
  induction l as [|x t IH]; [reflexivity|]. cbn [concat map]. rewrite concat_app. now rewrite IH.
Qed.

Definition all_frames (msgs : list bytes) : list bytes :=
  concat (map (fun d => frames_of (length d) d) msgs).

Lemma all_frames_concat msgs : concat (all_frames msgs) = concat msgs.
Proof.
  unfold all_frames. induction msgs as [|d t IH]; [reflexivity|].
  cbn [map concat]. rewrite concat_app, IH. f_equal. apply frames_of_spec. lia.
Qed.

Lemma all_frames_bound msgs : Forall (fun f => (1 <= length f <= 1024)%nat) (all_frames msgs).
Proof.
  unfold all_frames. induction msgs as [|d t IH]; [constructor|].
  cbn [map concat]. apply Forall_app. split; [|exact IH]. apply frames_of_spec. lia.
Qed.

Section Hap.
Variable key : Type.
Variable enc : key -> bytes -> bytes -> bytes -> bytes.
Variable dec : key -> bytes -> bytes -> bytes -> option bytes.

Notation cipher := (cipher key).
Notation hap_p1 := (hap_p1 key dec).
Notation hap_enc_frames := (hap_enc_frames key enc).

(* ------------------------------------------------------------------ the three parser laws *)
Lemma hap_p1_app c x y : le_dec (firstn 2 x) + 18 <= blen x ->
  hap_p1 c (x ++ y) = match hap_p1 c x with
                      | Frame m c' r => Frame m c' (r ++ y)
                      | other => other
                      end.
Proof.
  intro H. assert (H2 : (2 <= length x)%nat) by (unfold blen in H; lia).
  unfold Model.hap_p1, AUTH_TAG_LENGTH. rewrite (firstn_app_le 2 x y H2).
  set (bl := le_dec (firstn 2 x) + 16) in *.
  assert (E1 : (blen (x ++ y) <? bl + 2) = false).
  { apply N.ltb_ge. rewrite blen_app. unfold bl. lia. }
  assert (E2 : (blen x <? bl + 2) = false).
  { apply N.ltb_ge. unfold bl. lia. }
  rewrite E1, E2.
  assert (Hb : (2 + N.to_nat bl <= length x)%nat) by (unfold blen, bl in *; lia).
  rewrite (skipn_app_le 2 x y H2).
  rewrite (firstn_app_le (N.to_nat bl) (skipn 2 x) y) by (rewrite skipn_length; lia).
  rewrite (skipn_app_le (2 + N.to_nat bl) x y Hb).
  destruct (c_decrypt key dec c (firstn (N.to_nat bl) (skipn 2 x)) (firstn 2 x)) as [[[p|] c']|e]; reflexivity.
Qed.

Lemma hap_p1_not_need c x : hap_p1 c x <> Need -> le_dec (firstn 2 x) + 18 <= blen x.
Proof.
  unfold Model.hap_p1, AUTH_TAG_LENGTH. intro H.
  destruct (blen x <? le_dec (firstn 2 x) + 16 + 2) eqn:E; [congruence|].
  apply N.ltb_ge in E. lia.
Qed.

Lemma hap_stable : forall s x m s' r y, hap_p1 s x = Frame m s' r -> hap_p1 s (x ++ y) = Frame m s' (r ++ y).
Proof.
  intros s x m s' r y H. rewrite hap_p1_app; [now rewrite H|].
  apply (hap_p1_not_need s). congruence.
Qed.

Lemma hap_progress : forall s x m s' r, hap_p1 s x = Frame m s' r -> (length r < length x)%nat.
Proof.
  intros s x m s' r H.
  assert (Hn : le_dec (firstn 2 x) + 18 <= blen x) by (apply (hap_p1_not_need s); congruence).
  unfold Model.hap_p1, AUTH_TAG_LENGTH in H. cbv zeta in H.
  destruct (blen x <? le_dec (firstn 2 x) + 16 + 2); [discriminate|].
  destruct (c_decrypt key dec s _ _) as [[[p|] c']|e]; try discriminate.
  assert (Hr : r = skipn (2 + N.to_nat (le_dec (firstn 2 x) + 16)) x) by congruence.
  rewrite Hr, skipn_length. unfold blen in Hn. lia.
Qed.

Lemma hap_failpfx : forall s x y e, hap_p1 s x = Fail e -> exists e', hap_p1 s (x ++ y) = Fail e'.
Proof.
  intros s x y e H. exists e. rewrite hap_p1_app; [now rewrite H|].
  apply (hap_p1_not_need s). congruence.
Qed.

(* ------------------------------------------------------------------ sender *)
Lemma hap_enc_frames_app : forall a b c,
  hap_enc_frames c (a ++ b) =
  match hap_enc_frames c a with
  | Ok (o1, c1) => match hap_enc_frames c1 b with
                   | Ok (o2, c2) => Ok (o1 ++ o2, c2)
                   | Raise e => Raise e
                   end
  | Raise e => Raise e
  end.
Proof.
  induction a as [|f t IH]; intros b c.
  - cbn [app Model.hap_enc_frames]. destruct (hap_enc_frames c b) as [[o2 c2]|e]; reflexivity.
  - cbn [app Model.hap_enc_frames]. destruct (to_bytes_le 2 (blen f)) as [lb|e]; [|reflexivity].
    destruct (c_encrypt key enc c f lb) as [[ct c1]|e]; [|reflexivity].
    rewrite IH. destruct (hap_enc_frames c1 t) as [[o1 c2]|e]; [|reflexivity].
    destruct (hap_enc_frames c2 b) as [[o2 c3]|e]; [|reflexivity].
    now rewrite !app_assoc.
Qed.

Lemma hap_send_all_frames : forall msgs cs outs st',
  hap_send_all key enc (Some cs) msgs = Ok (outs, st') ->
  exists cs', st' = Some cs' /\ hap_enc_frames cs (all_frames msgs) = Ok (concat outs, cs').
Proof.
  unfold hap_send_all, all_frames.
  induction msgs as [|d t IH]; intros cs outs st' H.
  - cbn in H. inversion H; subst. exists cs. split; reflexivity.
  - cbn [send_all] in H. unfold hap_encrypt at 1 in H.
    destruct (hap_enc_frames cs (frames_of (length d) d)) as [[o c1]|e] eqn:E1; [|discriminate].
    destruct (send_all key (hap_encrypt key enc) (Some c1) t) as [[os st'']|e] eqn:E2; [|discriminate].
    inversion H; subst. destruct (IH _ _ _ E2) as (cs' & -> & E3).
    exists cs'. split; [reflexivity|].
    cbn [map concat]. rewrite hap_enc_frames_app, E1, E3. reflexivity.
Qed.

(* what a successful encrypt did: one AEAD call per frame, aad = 2-byte little endian length *)
Definition hap_call_ok (f : bytes) (cl : call) : Prop :=
  c_pt cl = f /\ c_aad cl = le_enc 2 (blen f) /\ le_dec (c_aad cl) = blen f.

Lemma hap_enc_frames_log : forall frames c out c',
  hap_enc_frames c frames = Ok (out, c') ->
  same_obj c c' /\ cin c' = cin c /\ cout c' = cout c + N.of_nat (length frames) /\
  exists L', olog c' = olog c ++ L' /\ Forall2 hap_call_ok frames L' /\
             (forall c0, log_ok c0 c -> log_ok c0 c').
Proof.
  induction frames as [|f t IH]; intros c out c' H.
  - cbn in H. inversion H; subst. split; [apply same_obj_refl|]. split; [reflexivity|].
    split; [simpl; lia|]. exists []. rewrite app_nil_r. split; [reflexivity|]. split; [constructor|auto].
  - cbn [Model.hap_enc_frames] in H.
    destruct (to_bytes_le 2 (blen f)) as [lb|e] eqn:Elb; [|discriminate].
    destruct (c_encrypt key enc c f lb) as [[ct c1]|e] eqn:Eenc; [|discriminate].
    destruct (hap_enc_frames c1 t) as [[o c2]|e] eqn:Et; [|discriminate].
    inversion H; subst; clear H.
    apply to_bytes_le_ok in Elb as [Hlt ->].
    pose proof (c_encrypt_log_ok key enc dec) as Hok.
    pose proof Eenc as Eenc'. apply c_encrypt_spec in Eenc as (n & Hn & -> & ->).
    destruct (IH _ _ _ Et) as (S1 & S2 & S3 & L' & S4 & S5 & S6).
    unfold same_obj in *. cbn [kd kout kin cin cout olog] in *.
    split. { destruct S1 as (A & B & C). repeat split; congruence. }
    split; [exact S2|]. split. { rewrite S3. cbn [length]. lia. }
    exists (mkcall n (le_enc 2 (blen f)) f :: L'). split; [rewrite S4; now rewrite <- app_assoc|].
    split.
    + constructor; [|exact S5]. repeat split. cbn [c_aad]. now apply le_dec_enc.
    + intros c0 H0. apply S6. eapply Hok; eauto.
Qed.

(* ------------------------------------------------------------------ lock step *)
Definition sync (cs cr : cipher) : Prop := kd cs = kd cr /\ kout cs = kin cr /\ cout cs = cin cr.

Definition adv (cr : cipher) (n : N) : cipher :=
  mkcipher (kd cr) (kout cr) (kin cr) (cout cr) (cin cr + n) (olog cr).

Lemma adv_0 cr : adv cr 0 = cr.
Proof. destruct cr. unfold adv. cbn. now rewrite N.add_0_r. Qed.

Lemma adv_adv cr a b : adv (adv cr a) b = adv cr (a + b).
Proof. unfold adv. cbn. now rewrite N.add_assoc. Qed.

Hypothesis dec_enc : forall k n a p, dec k n a (enc k n a p) = Some p.
Hypothesis enc_len : forall k n a p, length (enc k n a p) = (length p + 16)%nat.

Lemma hap_p1_honest cr lb ct f rest cr1 :
  length lb = 2%nat -> le_dec lb = blen f -> length ct = (length f + 16)%nat ->
  c_decrypt key dec cr ct lb = Ok (Some f, cr1) ->
  hap_p1 cr (lb ++ ct ++ rest) = Frame f cr1 rest.
Proof.
  intros H2 Hd Hc Hdec. unfold Model.hap_p1, AUTH_TAG_LENGTH.
  rewrite (firstn_exact_n 2 lb (ct ++ rest)) by auto. rewrite Hd.
  assert (E : (blen (lb ++ ct ++ rest) <? blen f + 16 + 2) = false).
  { apply N.ltb_ge. rewrite !blen_app. unfold blen. lia. }
  rewrite E. rewrite (skipn_exact_n 2 lb (ct ++ rest)) by auto.
  rewrite (firstn_exact_n (N.to_nat (blen f + 16)) ct rest) by (unfold blen; lia).
  rewrite Hdec. f_equal.
  rewrite app_assoc. apply skipn_exact_n. rewrite app_length. unfold blen. lia.
Qed.

Lemma hap_honest : forall frames cs out cs' cr,
  hap_enc_frames cs frames = Ok (out, cs') -> sync cs cr ->
  run hap_p1 cr out = Out frames (adv cr (N.of_nat (length frames))) [] /\
  sync cs' (adv cr (N.of_nat (length frames))).
Proof.
  induction frames as [|f t IH]; intros cs out cs' cr H Hs.
  - cbn in H. inversion H; subst. cbn [length N.of_nat]. rewrite adv_0. split; [reflexivity|exact Hs].
  - cbn [Model.hap_enc_frames] in H.
    destruct (to_bytes_le 2 (blen f)) as [lb|e] eqn:Elb; [|discriminate].
    destruct (c_encrypt key enc cs f lb) as [[ct c1]|e] eqn:Eenc; [|discriminate].
    destruct (hap_enc_frames c1 t) as [[o c2]|e] eqn:Et; [|discriminate].
    inversion H; subst; clear H.
    apply to_bytes_le_ok in Elb as [Hlt ->].
    apply c_encrypt_spec in Eenc as (n & Hn & -> & ->).
    destruct Hs as (K1 & K2 & K3).
    assert (Hdec : c_decrypt key dec cr (enc (kout cs) n (le_enc 2 (blen f)) f) (le_enc 2 (blen f))
                   = Ok (Some f, adv cr 1)).
    { assert (Hn' : nonce_of (kd cr) (cin cr) = Ok n) by (rewrite <- K1, <- K3; exact Hn).
      unfold c_decrypt, adv. rewrite Hn', K2, dec_enc. reflexivity. }
    assert (Hp : hap_p1 cr (le_enc 2 (blen f) ++ enc (kout cs) n (le_enc 2 (blen f)) f ++ o)
                 = Frame f (adv cr 1) o).
    { apply hap_p1_honest; [apply le_enc_length | now apply le_dec_enc | apply enc_len | exact Hdec]. }
    assert (Hne : le_enc 2 (blen f) ++ enc (kout cs) n (le_enc 2 (blen f)) f ++ o <> [])
      by (cbn [le_enc app]; discriminate).
    rewrite (run_frame _ _ _ hap_p1 hap_progress _ _ _ _ _ Hne Hp).
    assert (Hs1 : sync (mkcipher (kd cs) (kout cs) (kin cs) (cout cs + 1) (cin cs)
                                 (olog cs ++ [mkcall n (le_enc 2 (blen f)) f])) (adv cr 1)).
    { unfold sync, adv. cbn. repeat split; congruence. }
    destruct (IH _ _ _ (adv cr 1) Et Hs1) as [R1 R2].
    rewrite R1. rewrite adv_adv in *.
    replace (1 + N.of_nat (length t)) with (N.of_nat (length (f :: t))) in * by (cbn [length]; lia).
    split; [reflexivity|exact R2].
Qed.

End Hap.
